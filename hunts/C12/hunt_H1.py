"""H1: merge_tracks moves events / changes total duration when delta times are floats.

Run: PYTHONPATH=/tmp/seed_C12 timeout 120 /venv/bin/python hunt_H1.py
Exits 1 when the violation is observed.
"""
import sys
import mido
from mido import Message, MetaMessage, MidiFile, merge_tracks

print('mido from', mido.__file__)


def abs_times(track):
    now = 0
    out = []
    for m in track:
        now += m.time
        out.append((m.type, getattr(m, 'note', None), now))
    return out


violations = []

# --- case a: two one-message tracks, plain decimal float deltas -------------
A = [Message('note_on', note=1, time=0.9)]      # note 1 at absolute 0.9
B = [Message('note_on', note=2, time=0.2)]      # note 2 at absolute 0.2
for label, merged in (
        ('merge_tracks', merge_tracks([A, B])),
        ('merge_tracks skip_checks', merge_tracks([A, B], skip_checks=True)),
        ('MidiFile.merged_track', MidiFile(tracks=[A, B]).merged_track)):
    got = abs_times(merged)
    print(label, '->', [m.time for m in merged], 'abs', got)
    note1 = [t for (ty, n, t) in got if n == 1][0]
    total = sum(m.time for m in merged)
    if note1 != 0.9:
        violations.append(f'{label}: note 1 is at {note1!r}, source has it at 0.9')
    if total != 0.9:
        violations.append(f'{label}: total duration {total!r}, longest input is 0.9')

# --- case b: infinite delta (still a non-negative Real) ---------------------
inf = float('inf')
E = [Message('note_on', note=1, time=inf), Message('note_on', note=2, time=0)]
merged = merge_tracks([E])
print('case b deltas', [m.time for m in merged])
if any(m.time != m.time for m in merged):
    violations.append('case b: merged track contains NaN delta times')

print()
for v in violations:
    print('VIOLATION:', v)
sys.exit(1 if violations else 0)
