"""H1: smpte_offset with hours >= 32 is accepted, saved without error, and loads back different.

Clause: "saving and loading again gives ... every track holds equal messages"
(and: contents that cannot be stored "make save raise ValueError rather than
write a file that loads differently").
"""
import io
import sys

from mido import MetaMessage, MidiFile, MidiTrack

violations = 0
for hours, frame_rate in [(32, 24), (100, 25), (255, 24), (255, 30)]:
    msg = MetaMessage('smpte_offset', frame_rate=frame_rate, hours=hours,
                      minutes=1, seconds=2, frames=3, sub_frames=4, time=7)
    mid = MidiFile(type=1, tracks=[MidiTrack([msg])])
    buf = io.BytesIO()
    try:
        mid.save(file=buf)
    except ValueError as e:
        print(f'hours={hours}: save raised ValueError ({e}) - acceptable')
        continue
    print(f'hours={hours} frame_rate={frame_rate}: save succeeded, '
          f'track bytes: {buf.getvalue()[22:].hex(" ")}')
    try:
        back = MidiFile(file=io.BytesIO(buf.getvalue()))
    except Exception as e:
        print(f'   VIOLATION: reload raised {type(e).__name__}: {e!r}')
        violations += 1
        continue
    got = back.tracks[0][0]
    print('   saved :', msg)
    print('   loaded:', got)
    if got != msg:
        print('   VIOLATION: loaded message differs from saved message')
        violations += 1

sys.exit(1 if violations else 0)
