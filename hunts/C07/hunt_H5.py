"""H5: payloads longer than MAX_MESSAGE_LENGTH (1_000_000) are written by
save() but the result cannot be loaded (read_bytes raises OSError).

For sysex the written length is len(data)+1, so 1_000_000 data bytes is
already too many; for meta messages the limit is > 1_000_000 payload bytes.

Clause: "For any MidiFile whose tracks hold channel, system-common and sysex
messages, known meta messages and unknown meta messages ... saving and
loading again gives the same ...".  (The 'quantified over' line only names
payload lengths up to 16384, the statement itself says 'any'.)
"""
import io
import sys

from mido import Message, MetaMessage, MidiFile, MidiTrack
from mido.midifiles.meta import UnknownMetaMessage

violations = 0
cases = [
    ('sysex 999_999 data bytes (control)', Message('sysex', data=bytes(999_999))),
    ('sysex 1_000_000 data bytes', Message('sysex', data=bytes(1_000_000))),
    ('text 1_000_001 chars', MetaMessage('text', text='a' * 1_000_001)),
    ('unknown meta 1_000_001 bytes', UnknownMetaMessage(0x60, bytes(1_000_001))),
]
for name, msg in cases:
    mid = MidiFile(type=1, tracks=[MidiTrack([msg])])
    buf = io.BytesIO()
    mid.save(file=buf)
    print(f'{name}: save OK ({len(buf.getvalue())} bytes)')
    try:
        back = MidiFile(file=io.BytesIO(buf.getvalue()))
    except Exception as e:
        print(f'   VIOLATION: reload raised {type(e).__name__}: {e}')
        violations += 1
        continue
    print('   reload OK, equal:', back.tracks[0][0] == msg)

sys.exit(1 if violations else 0)
