"""H6: header values that do not fit the signed 16-bit header fields make
save() raise struct.error (which is NOT a ValueError) instead of ValueError.

Clause: "saving and loading again gives the same type, ticks_per_beat and
track count" / "Contents that cannot be stored ... make save raise
ValueError".
"""
import io
import struct
import sys

from mido import MidiFile, MidiTrack

violations = 0
cases = {
    'ticks_per_beat=32768': MidiFile(ticks_per_beat=32768, tracks=[MidiTrack()]),
    'ticks_per_beat=65535': MidiFile(ticks_per_beat=65535, tracks=[MidiTrack()]),
    'ticks_per_beat=480.0': MidiFile(ticks_per_beat=480.0, tracks=[MidiTrack()]),
    '32768 tracks (type 1)': MidiFile(type=1, tracks=[MidiTrack()] * 32768),
    'type=1.0': MidiFile(type=1.0, tracks=[MidiTrack()]),
    # control
    '32767 tracks (type 1)': MidiFile(type=1, tracks=[MidiTrack()] * 32767),
}
for name, mid in cases.items():
    buf = io.BytesIO()
    try:
        mid.save(file=buf)
    except ValueError as e:
        print(f'{name}: ValueError {e} (acceptable)')
        continue
    except Exception as e:
        print(f'{name}: VIOLATION: save raised {type(e).__module__}.'
              f'{type(e).__name__} (ValueError? '
              f'{isinstance(e, ValueError)}): {e}')
        violations += 1
        continue
    back = MidiFile(file=io.BytesIO(buf.getvalue()))
    same = (back.type == mid.type and back.ticks_per_beat == mid.ticks_per_beat
            and len(back.tracks) == len(mid.tracks))
    print(f'{name}: saved and reloaded, header preserved: {same}')
    if not same:
        violations += 1

assert not issubclass(struct.error, ValueError)
sys.exit(1 if violations else 0)
