"""H2: a sequencer_specific meta message (even the default one) does not
compare equal to itself after save/load: data is kept as given (list,
bytes, ...) on construction but comes back as a tuple, and BaseMessage.__eq__
compares vars() so [1, 2] != (1, 2).

Clause: "every track holds equal messages with equal delta times".
"""
import io
import sys

from mido import MetaMessage, MidiFile, MidiTrack

violations = 0
cases = [
    MetaMessage('sequencer_specific'),                       # default: data=[]
    MetaMessage('sequencer_specific', data=[1, 2, 3]),
    MetaMessage('sequencer_specific', data=b'\x01\x02'),
    MetaMessage('sequencer_specific', data=(1, 2, 3)),       # control: tuple is fine
]
for msg in cases:
    mid = MidiFile(type=1, tracks=[MidiTrack([msg])])
    buf = io.BytesIO()
    mid.save(file=buf)
    back = MidiFile(file=io.BytesIO(buf.getvalue()))
    got = back.tracks[0][0]
    equal = (got == msg)
    print(f'saved {msg!r}\n  loaded {got!r}\n  equal: {equal}')
    if not equal:
        violations += 1
        print('  VIOLATION')

sys.exit(1 if violations else 0)
