"""H3: byte strings that LOAD successfully but cannot be saved again, so they
are not fixed points of load-save-load.

 (a) a track containing a system real-time status byte (F8 FA FB FC FE):
     read_message() happily builds a 'clock'/'start'/... Message, save() then
     raises ValueError('realtime messages are not allowed in MIDI files').
 (b) a header saying type 0 with 0 or 2 tracks: _load() accepts it, save()
     raises ValueError('type 0 file must have exactly 1 track').

Clause: "any byte string that loads successfully is a fixed point of
load-save-load".
"""
import io
import struct
import sys

from mido import MidiFile


def chunk(name, body):
    return name + struct.pack('>L', len(body)) + body


def header(type_, ntracks, tpb=480):
    return chunk(b'MThd', struct.pack('>hhh', type_, ntracks, tpb))


EOT = b'\x00\xff\x2f\x00'
note = b'\x00\x90\x3c\x40'
cases = {}
for status in (0xf8, 0xfa, 0xfb, 0xfc, 0xfe):
    cases[f'realtime status {status:02x} in track'] = (
        header(1, 1) + chunk(b'MTrk', note + b'\x05' + bytes([status]) + EOT))
cases['type 0, two tracks'] = (
    header(0, 2) + chunk(b'MTrk', note + EOT) + chunk(b'MTrk', EOT))
cases['type 0, zero tracks'] = header(0, 0)

violations = 0
for name, data in cases.items():
    first = MidiFile(file=io.BytesIO(data))      # loads successfully
    print(f'{name}: loaded OK -> type={first.type}, '
          f'tracks={[list(t) for t in first.tracks]}')
    out = io.BytesIO()
    try:
        first.save(file=out)
    except Exception as e:
        print(f'   VIOLATION: save of the loaded file raised '
              f'{type(e).__name__}: {e}')
        violations += 1
        continue
    second = MidiFile(file=io.BytesIO(out.getvalue()))
    print('   re-loaded OK')

sys.exit(1 if violations else 0)
