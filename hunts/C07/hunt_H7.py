"""H7 (borderline - uses the MidiFile(charset=...) option, which the
'quantified over' line does not mention): with charset='shift_jis' (the usual
charset of Japanese MIDI/karaoke files) or 'euc_jp', text metas containing
U+00A5 YEN SIGN or U+203E OVERLINE are saved without error but load back as
a different string (backslash / tilde), because Python's codec encodes these
to the single bytes 0x5C / 0x7E.  Similar with cp932 / cp950 for U+00A2,
U+00A3, U+00AC.

Clause: "every track holds equal messages".
"""
import io
import sys

from mido import MetaMessage, MidiFile, MidiTrack

violations = 0
for charset, text in [('shift_jis', 'price ¥100'), ('euc_jp', 'a‾b'),
                      ('cp932', '¢'), ('latin1', 'café')]:
    msg = MetaMessage('text', text=text, time=3)
    mid = MidiFile(type=1, charset=charset, tracks=[MidiTrack([msg])])
    buf = io.BytesIO()
    mid.save(file=buf)
    back = MidiFile(file=io.BytesIO(buf.getvalue()), charset=charset)
    got = back.tracks[0][0]
    print(f'{charset}: saved {msg!r} loaded {got!r} equal={got == msg}')
    if got != msg:
        print('   VIOLATION')
        violations += 1
sys.exit(1 if violations else 0)
