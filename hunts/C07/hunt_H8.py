"""H8 (borderline - needs an UnknownMetaMessage built by hand with a type byte
that is in fact known): UnknownMetaMessage accepts any type_byte.  With
type_byte=0x2F it is not recognised by fix_end_of_track() (its .type is
'unknown_meta'), is written as FF 2F 00 in the middle of the track, and the
file loads with TWO end_of_track messages, one of them in the middle.  With
other known type bytes (0x51, 0x01, ...) the message comes back as a
different class/type and compares unequal.

Clause: "every track holds equal messages ... ending in exactly one
end_of_track".
"""
import io
import sys

from mido import Message, MidiFile, MidiTrack
from mido.midifiles.meta import UnknownMetaMessage

violations = 0
for um in (UnknownMetaMessage(0x2f, time=4), UnknownMetaMessage(0x51, [7, 161, 32]),
           UnknownMetaMessage(0x60, [1, 2])):
    msgs = [um, Message('note_on', note=60, time=1)]
    mid = MidiFile(type=1, tracks=[MidiTrack(msgs)])
    buf = io.BytesIO()
    mid.save(file=buf)
    back = MidiFile(file=io.BytesIO(buf.getvalue()))
    got = list(back.tracks[0])
    n_eot = sum(m.type == 'end_of_track' for m in got)
    print('saved :', msgs)
    print('loaded:', got)
    if got[0] != um or n_eot != 1:
        print(f'   VIOLATION (first message equal: {got[0] == um}, '
              f'end_of_track count: {n_eot})')
        violations += 1
sys.exit(1 if violations else 0)
