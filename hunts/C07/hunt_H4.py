"""H4: a negative end_of_track time in the middle of a track is silently
absorbed by fix_end_of_track(): save() does not raise, and the written file
carries different timing.

Clause: "Contents that cannot be stored (a real-time message, a negative or
non-integer time, ...) make save raise ValueError rather than write a file
that loads differently".
"""
import io
import sys

from mido import Message, MetaMessage, MidiFile, MidiTrack

violations = 0
cases = [
    [Message('note_on', note=60, time=10),
     MetaMessage('end_of_track', time=-3),
     Message('note_off', note=60, time=3)],
    [MetaMessage('end_of_track', time=-5),
     Message('note_on', note=60, time=5)],
    [Message('note_on', note=60, time=10),
     MetaMessage('end_of_track', time=-7),
     MetaMessage('end_of_track', time=7)],
    # control: negative time that is NOT compensated is rejected
    [Message('note_on', note=60, time=10),
     MetaMessage('end_of_track', time=-7)],
]
for msgs in cases:
    mid = MidiFile(type=1, tracks=[MidiTrack(msgs)])
    buf = io.BytesIO()
    print('track:', msgs)
    try:
        mid.save(file=buf)
    except ValueError as e:
        print('   save raised ValueError:', e, '(as required)')
        continue
    back = MidiFile(file=io.BytesIO(buf.getvalue()))
    print('   save did NOT raise although a message time is negative')
    print('   loaded:', list(back.tracks[0]))
    print('   VIOLATION')
    violations += 1

sys.exit(1 if violations else 0)
