"""H9 (borderline - concurrency is not mentioned in the statement): the
charset used to encode/decode text metas is a module GLOBAL
(mido.midifiles.meta._charset) that MidiFile._save/_load set with the
meta_charset() context manager.  Two saves in two threads that overlap
non-nested (A enters, B enters, A encodes) make A encode its text with B's
charset.  The interleaving is forced with my own file-object double whose
write() blocks; mido is not patched.

Clause: "saving and loading again gives ... equal messages".
"""
import io
import sys
import threading

from mido import MetaMessage, MidiFile, MidiTrack

a_in_header = threading.Event()
b_in_header = threading.Event()
a_done = threading.Event()


class GateA(io.BytesIO):
    """First write (MThd name) happens inside A's meta_charset block:
    tell the main thread, then wait until B is inside its own block."""
    first = True

    def write(self, data):
        if self.first:
            self.first = False
            a_in_header.set()
            assert b_in_header.wait(10)
        return super().write(data)


class GateB(io.BytesIO):
    first = True

    def write(self, data):
        if self.first:
            self.first = False
            b_in_header.set()
            assert a_done.wait(10)     # stay inside the block until A is done
        return super().write(data)


text = 'café'
msg = MetaMessage('text', text=text)
mid_a = MidiFile(type=1, charset='utf-8', tracks=[MidiTrack([msg])])
mid_b = MidiFile(type=1, charset='latin1', tracks=[MidiTrack([msg.copy()])])
out_a, out_b = GateA(), GateB()
err = []


def run_a():
    try:
        mid_a.save(file=out_a)
    except Exception as e:  # noqa
        err.append(e)
    finally:
        a_done.set()


ta = threading.Thread(target=run_a)
tb = threading.Thread(target=lambda: mid_b.save(file=out_b))
ta.start()
assert a_in_header.wait(10)
tb.start()
ta.join(20)
tb.join(20)

data_a = out_a.getvalue()
print('A (charset utf-8) wrote track bytes:', data_a[22:].hex(' '))
print('expected text bytes (utf-8):', text.encode('utf-8').hex(' '))
violation = False
if err:
    print('A.save raised', repr(err[0]))
    violation = True
else:
    try:
        back = MidiFile(file=io.BytesIO(data_a), charset='utf-8')
        got = back.tracks[0][0]
        print('reloaded with charset utf-8:', got)
        violation = got != msg
    except Exception as e:
        print('reload of A with its own charset raised', repr(e))
        violation = True
print('VIOLATION' if violation else 'no violation')
sys.exit(1 if violation else 0)
