"""C10 hunt H1: two SocketPorts joined by one connection, one sender thread and
one receiver thread on each port.  When the two send() calls overlap, both
senders block inside socket write WHILE HOLDING THE PORT LOCK (flow control:
nobody is reading), and both receivers - even a poll(), documented to return
immediately - block on that same lock.  Nothing is ever received; nothing
raises; the four calls never return.

Unmodified mido; the sockets are a plain socket.socketpair() with default
buffer sizes handed to SocketPort(conn=...).  The interleaving is forced with
events in THIS script only.

Schedule A (control): P.send completes (Q's receiver drains) before Q.send starts -> both delivered.
Schedule B          : P.send and Q.send overlap                                   -> deadlock.
exit 1 when the violation (schedule B: messages never received, calls hang) is observed.
"""
import socket
import sys
import threading
import time

import mido
from mido.sockets import SocketPort

SIZE = 300_000            # > default AF_UNIX socket buffer (about 208 KiB)
mido.ports.set_sleep_time(0.0005)


def make_pair():
    a, b = socket.socketpair()
    return SocketPort('p', 1, conn=a), SocketPort('q', 2, conn=b)


def run(overlap):
    P, Q = make_pair()
    msg_p = mido.Message('sysex', data=[1] * SIZE)   # sent on P, to be received on Q
    msg_q = mido.Message('sysex', data=[2] * SIZE)   # sent on Q, to be received on P
    got = {'P': [], 'Q': []}
    state = {}
    p_send_done = threading.Event()

    def sender(name, port, msg, wait_for=None):
        if wait_for is not None:
            wait_for.wait()
        state[name] = 'in send()'
        port.send(msg)
        state[name] = 'send() returned'
        if name == 'send P':
            p_send_done.set()

    def receiver(name, port):
        # poll() "will return None immediately if no message is available"
        while not got[name]:
            state['recv ' + name] = 'in poll()'
            m = port.poll()
            state['recv ' + name] = 'poll() returned'
            if m is not None:
                got[name].append(m)
            else:
                time.sleep(0.0005)

    ts = {
        'send P': threading.Thread(target=sender, args=('send P', P, msg_p), daemon=True),
        'send Q': threading.Thread(target=sender, args=(
            'send Q', Q, msg_q, None if overlap else p_send_done), daemon=True),
        'recv P': threading.Thread(target=receiver, args=('P', P), daemon=True),
        'recv Q': threading.Thread(target=receiver, args=('Q', Q), daemon=True),
    }
    if overlap:
        # both senders first: each fills the connection and blocks in write()
        ts['send P'].start(); ts['send Q'].start()
        time.sleep(0.5)
        ts['recv P'].start(); ts['recv Q'].start()
        deadline = time.time() + 4
    else:
        for t in ts.values():
            t.start()
        deadline = time.time() + 25
    while time.time() < deadline and any(t.is_alive() for t in ts.values()):
        time.sleep(0.05)

    alive = [n for n, t in ts.items() if t.is_alive()]
    ok = (not alive and got['Q'] == [msg_p] and got['P'] == [msg_q])
    print('  threads still blocked:', alive or 'none')
    print('  thread states        :', state)
    print('  received on Q:', [(m.type, len(m.data)) for m in got['Q']],
          ' received on P:', [(m.type, len(m.data)) for m in got['P']])
    return ok


print('schedule A (sends do not overlap):')
ok_a = run(overlap=False)
print('  ->', 'both messages delivered exactly once, intact' if ok_a else 'FAILED')
print('schedule B (sends overlap):')
ok_b = run(overlap=True)
print('  ->', 'delivered' if ok_b else
      'VIOLATION: neither message is ever received; send() and poll() never return')
sys.exit(0 if (ok_a and ok_b) else 1)
