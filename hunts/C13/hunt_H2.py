"""H2: play() yields a message BEFORE its scheduled time on the supplied clock
when the supplied clock does not advance in lock-step with time.sleep().

Clause: "never one before its scheduled time on the supplied clock".

play() reads now() once, computes the remaining time and calls time.sleep()
once; it never re-reads the supplied clock after sleeping.  The docstring
advertises now= for "a different clock (e.g. to synchronize to an audio
stream)".  Such clocks (a) may run at a slightly different rate than the
clock time.sleep uses, (b) typically advance in block-sized steps.

Variant A: no patching at all. Supplied clock = monotonic clock at half rate.
Variant B: time.sleep replaced (as in the property's observe_at); true time
           advances exactly by the slept amount, the supplied clock is the
           true time quantised to 0.25 s blocks (rate 1.0).
"""
import sys
import time
import mido
from mido import MidiFile, MidiTrack, Message

print('mido from', mido.__file__)
violations = 0

# ---------------- Variant A: half-rate clock, real sleep -----------------
mid = MidiFile(ticks_per_beat=480, tracks=[MidiTrack([
    Message('note_on', note=60, time=0),
    Message('note_on', note=61, time=480),      # 0.5 s at default tempo
])])
base = time.monotonic()
def half_rate():
    return (time.monotonic() - base) * 0.5

sched = []
c = 0.0
for m in mid:
    c += m.time
    if not m.is_meta:
        sched.append(c)

start = None
i = 0
gen = mid.play(now=half_rate)
t_before = half_rate()
for m in gen:
    at = half_rate()
    if start is None:
        start = t_before      # start_time was sampled between t_before and at
    elapsed_upper = at - start   # upper bound on (now - start_time)
    print(f'A: note={m.note} scheduled={sched[i]:.3f}s  yielded at <= '
          f'{elapsed_upper:.3f}s on supplied clock')
    if elapsed_upper < sched[i] - 0.1:
        print('   -> yielded at least 0.1 s BEFORE its scheduled time')
        violations += 1
    i += 1

# ------------- Variant B: block-quantised clock, sleep replaced ----------
class World:
    def __init__(self, t0, q):
        self.t = t0
        self.q = q
    def now(self):                     # supplied clock: block-quantised
        return (self.t // self.q) * self.q
    def sleep(self, d):                # exact sleep in true time
        self.t += d

mid = MidiFile(ticks_per_beat=480, tracks=[MidiTrack([
    Message('note_on', note=60, time=0),
    Message('note_on', note=61, time=576),      # 0.6 s
])])
w = World(t0=0.1875, q=0.25)
real_sleep = time.sleep
time.sleep = w.sleep
try:
    true_start = w.t
    clock_start = w.now()
    out = []
    for m in mid.play(now=w.now):
        out.append((m.note, w.now() - clock_start, w.t - true_start))
        w.t += 0.0625                  # consumer delay
finally:
    time.sleep = real_sleep
for (note, on_clock, true_el), s in zip(out, [0.0, 0.6]):
    print(f'B: note={note} scheduled={s}s  yielded at {on_clock}s on supplied '
          f'clock ({true_el}s of true time)')
    if on_clock < s - 1e-9:
        print('   -> BEFORE its scheduled time on the supplied clock')
        violations += 1

if violations:
    print(f'VIOLATION observed in {violations} case(s)')
    sys.exit(1)
print('no violation observed')
