"""H1: tick2second / second2tick are NOT mutually inverse on all integer ticks.

Clause: "tick2second and second2tick are mutually inverse on integer ticks
for any positive tempo".

For ordinary MIDI tempos (int 1..16777215) and ticks_per_beat 1..32767 the
round trip second2tick(tick2second(t)) == t breaks for |t| >= 2**51 (float
rounding of t*scale/scale is > 0.5), and for any odd t > 2**53.  mido itself
accepts such ticks (read_variable_int / encode_variable_int have no 4-byte
limit, and absolute ticks are sums of deltas).
"""
import sys
import mido
from mido import tick2second, second2tick

print('mido from', mido.__file__)
cases = [
    # (tick, ticks_per_beat, tempo)
    (2509930015383415, 4531, 500000),      # 2**51 < t < 2**52, default tempo
    (3970130256127487, 6710, 1443470),
    (2**53 + 1, 480, 500000),              # not representable as float at all
    (-2509930015383415, 4531, 500000),
]
bad = 0
for t, tpb, tempo in cases:
    s = tick2second(t, tpb, tempo)
    t2 = second2tick(s, tpb, tempo)
    print(f'tick={t} tpb={tpb} tempo={tempo}: tick2second={s!r} '
          f'second2tick(back)={t2}  diff={t2 - t}')
    if t2 != t:
        bad += 1

# Show that the round trip is fine below 2**51 (so this is a boundary, not noise)
import random
rng = random.Random(0)
ok_small = all(
    second2tick(tick2second(t, tpb, tempo), tpb, tempo) == t
    for t, tpb, tempo in ((rng.randint(0, 2**50), rng.randint(1, 32767),
                           rng.randint(1, 16777215)) for _ in range(200000)))
print('round trip holds for 200000 random ticks < 2**50:', ok_small)

# "any positive tempo": a positive float tempo small enough makes scale underflow
try:
    second2tick(tick2second(1, 480, 1e-320), 480, 1e-320)
    print('tempo=1e-320: no error')
except ZeroDivisionError as e:
    print('tempo=1e-320 (positive): second2tick raises ZeroDivisionError:', e)

if bad:
    print(f'VIOLATION: {bad} integer ticks do not survive the round trip')
    sys.exit(1)
print('no violation observed')
