"""H1: hex(sep) -> from_hex(sep=sep) fails when sep mixes a non-space
whitespace character (\\n, \\t, \\r ...) with a non-whitespace character.

Run: PYTHONPATH=/tmp/seed_C01 timeout 120 /venv/bin/python hunt_H1.py
Exit status 1 when the violation is observed.
"""
import sys
from mido import Message

msg = Message('note_on', channel=10, note=10, velocity=122, time=1.5)
violations = 0
# control group: separators that do round-trip
for sep in [' ', '', ':', ', ', '\n', '\r\n', ' \n']:
    back = Message.from_hex(msg.hex(sep), time=msg.time, sep=sep)
    assert back == msg, sep
    print('ok    sep=%-8r hex=%r' % (sep, msg.hex(sep)))

for sep in [',\n', ';\n', '\t|', ', \n', ',\r\n']:
    text = msg.hex(sep)
    try:
        back = Message.from_hex(text, time=msg.time, sep=sep)
    except ValueError as exc:
        violations += 1
        print('FAIL  sep=%-8r hex=%r -> from_hex(sep=sep) raised ValueError: %s'
              % (sep, text, exc))
    else:
        if back != msg:
            violations += 1
            print('FAIL  sep=%-8r decoded to different message %r' % (sep, back))
        else:
            print('ok    sep=%-8r' % (sep,))

print('violations:', violations)
sys.exit(1 if violations else 0)
