"""H2: a message that passes every constructor check (attribute values are
numbers.Integral and in range) cannot be encoded: bytes()/bin()/hex() raise.

The attribute type is a standard-library int subclass (enum.IntFlag with
boundary=STRICT).  encode.py computes  status | msg['channel']  and
frame_type << 4 | frame_value  directly on the stored objects; Python gives
the reflected operator of the int *subclass* priority, so the subclass decides
the result (here: raises ValueError because 0xC1 is not a valid flag value).

Run: PYTHONPATH=/tmp/seed_C01 timeout 120 /venv/bin/python hunt_H2.py
Exit status 1 when the violation is observed.
"""
import enum
import sys
from mido import Message


class Part(enum.IntFlag, boundary=enum.STRICT):
    UPPER = 1
    LOWER = 2


violations = 0
cases = [
    ('program_change', dict(channel=Part.UPPER, program=5)),      # generic encoder
    ('note_on', dict(channel=Part.LOWER, note=60, velocity=1)),   # fast path
    ('pitchwheel', dict(channel=Part.UPPER, pitch=100)),          # special case
    ('quarter_frame', dict(frame_type=1, frame_value=Part.LOWER)),
]
for type_, args in cases:
    msg = Message(type_, time=0.5, **args)         # accepted: valid message
    plain = Message(type_, time=0.5, **{k: int(v) for k, v in args.items()})
    assert msg == plain                            # equal to the plain-int message
    for how in ('bytes', 'bin', 'hex'):
        try:
            enc = getattr(msg, how)()
            back = (Message.from_hex(enc, time=0.5) if how == 'hex'
                    else Message.from_bytes(enc, time=0.5))
            ok = back == msg
            print('ok   ' if ok else 'FAIL ', type_, how, enc)
            violations += not ok
        except Exception as exc:
            violations += 1
            print('FAIL  %r .%s() raised %s: %s'
                  % (msg, how, type(exc).__name__, str(exc).splitlines()[0]))
    print('      (same message with plain ints encodes to', plain.bytes(), ')')

print('violations:', violations)
sys.exit(1 if violations else 0)
