"""H1 (conditional on reading of C16): edits made while an iteration / play()
generator is suspended are honoured for ticks_per_beat (read live on every
step) but ignored for tracks, messages and type (snapshotted at the first
next()).  The remainder of the iteration therefore equals the iteration of a
freshly built MidiFile with NEITHER the old NOR the current contents.

Run:  PYTHONPATH=/tmp/seed_C16 timeout 120 /venv/bin/python hunt_H1.py
Exits 1 when the mixed behaviour is observed, 0 otherwise.
"""
import sys

from mido import Message, MidiFile, MidiTrack


def build(tpb, with_cc):
    t = MidiTrack([Message('note_on', note=60, time=480),
                   Message('note_off', note=60, time=480),
                   Message('note_on', note=62, time=480),
                   Message('note_off', note=62, time=480)])
    if with_cc:
        t.insert(2, Message('control_change', control=7, value=1, time=0))
    return MidiFile(ticks_per_beat=tpb, tracks=[t])


def show(label, msgs):
    print(label)
    for m in msgs:
        print('    ', m)


def run(kind):
    """kind: 'iter' or 'play'."""
    clock = [0.0]

    def now():              # a clock that is always far ahead: never sleeps
        clock[0] += 1e9
        return clock[0]

    def observe(mid):
        if kind == 'iter':
            return iter(mid)
        return mid.play(meta_messages=True, now=now)

    mid = build(480, with_cc=False)
    it = observe(mid)
    head = [next(it), next(it)]           # observation is now under way

    # two documented edits, made between two steps of the observation
    mid.ticks_per_beat = 960
    mid.tracks[0].insert(2, Message('control_change', control=7, value=1,
                                    time=0))
    tail = list(it)

    old_tail = list(observe(build(480, with_cc=False)))[2:]
    new_tail = list(observe(build(960, with_cc=True)))[2:]

    print('=== ', kind)
    show('  first two messages (before the edits):', head)
    show('  remainder actually produced:', tail)
    show('  remainder of a fresh file with the OLD contents:', old_tail)
    show('  remainder of a fresh file with the CURRENT contents:', new_tail)

    mixed = tail != old_tail and tail != new_tail
    # characterise the mixture precisely
    tpb_live = [m.time for m in tail if m.type.startswith('note')] == \
        [m.time for m in new_tail if m.type.startswith('note')]
    tracks_snapshotted = [m.type for m in tail] == [m.type for m in old_tail]
    print('  ticks_per_beat edit honoured (live read):   ', tpb_live)
    print('  track edit ignored (snapshot at first next):', tracks_snapshotted)
    print('  remainder matches neither old nor current:  ', mixed)
    return mixed and tpb_live and tracks_snapshotted


# The history-independence part still holds afterwards: a NEW observation
# reflects the current contents.
def sanity():
    mid = build(480, with_cc=False)
    it = iter(mid)
    next(it)
    mid.ticks_per_beat = 960
    list(it)
    return list(mid) == list(build(960, with_cc=False))


bad = [run('iter'), run('play')]
print('new observation afterwards is correct:', sanity())
if all(bad):
    print('VIOLATION OBSERVED (under the reading that edits may be '
          'interleaved with a running iteration/play)')
    sys.exit(1)
print('no violation observed')
sys.exit(0)
