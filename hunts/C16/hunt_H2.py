"""H2 (conditional: only if a lazy iterable counts as a legal track / data
value): a MidiFile whose contents include a one-shot iterable gives results
that depend on whether it was iterated / measured / saved earlier.

  (a) track added through the tracks list as a lazy iterable
      (filter object / generator expression) - accepted everywhere, no check;
  (b) sequencer_specific meta message whose data is a generator - accepted by
      MetaMessage (MetaSpec_sequencer_specific has no check).

Run:  PYTHONPATH=/tmp/seed_C16 timeout 120 /venv/bin/python hunt_H2.py
Exits 1 when the dependence on earlier observations is seen.
"""
import io
import sys

from mido import Message, MetaMessage, MidiFile, MidiTrack


def saved(mid):
    b = io.BytesIO()
    mid.save(file=b)
    return b.getvalue()


SOURCE = MidiTrack([MetaMessage('track_name', name='x', time=0),
                    Message('note_on', note=60, time=480),
                    Message('note_off', note=60, time=480)])


def build_a():
    mid = MidiFile()
    # "remove the meta messages" - filter() is lazy in Python 3
    mid.tracks.append(filter(lambda m: not m.is_meta, SOURCE))
    return mid


def build_b():
    mid = MidiFile()
    t = mid.add_track()
    t.append(MetaMessage('sequencer_specific', data=(b for b in [1, 2, 3])))
    return mid


violations = 0

# (a) ---------------------------------------------------------------
fresh = saved(build_a())                 # never observed before save
mid = build_a()
length = mid.length                      # measured first ...
after = saved(mid)                       # ... then saved
print('(a) length on first access      :', length, '(1.0 expected)')
print('(a) length on second access     :', mid.length)
print('(a) save of fresh file          :', fresh.hex())
print('(a) save after .length was read :', after.hex())
if after != fresh:
    print('(a) save depends on whether the file was measured earlier')
    violations += 1
mid = build_a()
first, second = list(mid), list(mid)
print('(a) list(mid) twice equal       :', first == second,
      len(first), len(second))
if first != second:
    violations += 1

# (b) ---------------------------------------------------------------
mid = build_b()
one, two = saved(mid), saved(mid)
print('(b) first save :', one.hex())
print('(b) second save:', two.hex())
if one != two:
    print('(b) save depends on whether the file was saved earlier')
    violations += 1

if violations:
    print('VIOLATION OBSERVED (if one-shot iterables are admitted as '
          'track / data values)')
    sys.exit(1)
print('no violation observed')
sys.exit(0)
