"""H3 - texts that ARE encodable in the file charset but do not survive save + load
with that charset (the codec is not injective / not self-inverse on them).
shift_jis is one of the charsets the statement names.
"""
import io
import sys

from mido import MetaMessage, MidiFile, MidiTrack

cases = [
    ('shift_jis', '\xa5100'),        # YEN SIGN -> byte 0x5c -> comes back as backslash
    ('shift_jis', 'a‾b'),       # OVERLINE -> byte 0x7e -> comes back as tilde
    ('euc_jp', '\xa5'),
    ('cp932', '\xa2\xa3\xac'),       # cent, pound, not sign -> come back as fullwidth forms
    ('cp950', '\xa5'),
    ('idna', 'Stra\xdfe'),           # nameprep: comes back as 'strasse'
    ('iso2022_kr', 'a\x0eb'),        # SO control char silently dropped
    ('euc_kr', 'ㅤ'),            # saves fine, load raises UnicodeDecodeError
    ('iso2022_jp', 'a\x1b'),         # saves fine, load raises UnicodeDecodeError
]

violations = 0
for charset, text in cases:
    encoded = text.encode(charset)               # proves: "text encodable in it"
    mf = MidiFile(charset=charset)
    mf.tracks.append(MidiTrack([MetaMessage('lyrics', text=text)]))
    buf = io.BytesIO()
    mf.save(file=buf)
    assert encoded in buf.getvalue()             # bytes clause holds
    try:
        back = MidiFile(file=io.BytesIO(buf.getvalue()), charset=charset).tracks[0][0].text
    except Exception as exc:                     # noqa: BLE001
        back = exc
    ok = back == text
    violations += not ok
    print(f'{charset:11} saved {text!r:14} file bytes {encoded!r:22} loaded {back!r}'
          f'  {"ok" if ok else "VIOLATION"}')

sys.exit(1 if violations else 0)
