"""H2 - while one thread is inside MidiFile(..., charset='utf-16'), a thread that performs
no load or save at all encodes / decodes meta text with utf-16 instead of latin1.

The interleaving is forced by my own file-like object (blocks in read()).
"""
import io
import sys
import threading

from mido import MetaMessage, MidiFile, MidiTrack

TIMEOUT = 10

mf = MidiFile(charset='utf-16')
mf.tracks.append(MidiTrack([MetaMessage('text', text='abc')]))
buf = io.BytesIO()
mf.save(file=buf)
data = buf.getvalue()


class GatedFile:
    def __init__(self, data, entered, go):
        self.f = io.BytesIO(data)
        self.entered, self.go = entered, go
        self.first = True

    def read(self, n):
        if self.first:
            self.first = False
            self.entered.set()
            assert self.go.wait(TIMEOUT)
        return self.f.read(n)

    def tell(self):
        return self.f.tell()


entered, go = threading.Event(), threading.Event()
loader = threading.Thread(
    target=lambda: MidiFile(file=GatedFile(data, entered, go), charset='utf-16'))

expected = [0xff, 0x01, 0x02, 0x68, 0x69]
print('before load      :', MetaMessage('text', text='hi').bytes())
loader.start()
assert entered.wait(TIMEOUT)
# This thread is "elsewhere in the process": it is not inside any load/save call.
during = MetaMessage('text', text='hi').bytes()
try:
    during_dec = MetaMessage.from_bytes([0xff, 0x01, 0x02, 0x68, 0x69]).text
except Exception as exc:      # noqa: BLE001
    during_dec = exc
go.set()
loader.join(TIMEOUT)
after = MetaMessage('text', text='hi').bytes()
print('during other load:', during)
print('decode "hi" bytes:', repr(during_dec))
print('after load       :', after)

bad = during != expected or during_dec != 'hi'
if bad:
    print('VIOLATION: unrelated thread used the charset of a load call it is not part of')
sys.exit(1 if bad else 0)
