"""H4 - a text whose encoding is longer than 1 000 000 bytes is saved without complaint
but the resulting file cannot be loaded again (with any charset)."""
import io
import sys

from mido import MetaMessage, MidiFile, MidiTrack
from mido.midifiles import meta

violations = 0
for charset, text in [('latin1', 'x' * 1_000_001),
                      ('utf-16', '日' * 500_000),     # 2 + 1 000 000 bytes
                      ('utf-8', '日' * 333_334),      # 1 000 002 bytes
                      ('latin1', 'x' * 1_000_000)]:       # control: exactly at the limit
    mf = MidiFile(charset=charset)
    mf.tracks.append(MidiTrack([MetaMessage('text', text=text)]))
    buf = io.BytesIO()
    mf.save(file=buf)                       # succeeds
    data = buf.getvalue()
    assert text.encode(charset) in data     # the bytes clause holds
    try:
        back = MidiFile(file=io.BytesIO(data), charset=charset).tracks[0][0].text
        outcome = 'round trip ok' if back == text else 'TEXT CHANGED'
    except Exception as exc:                # noqa: BLE001
        outcome = f'load raised {type(exc).__name__}: {exc}'
    bad = outcome != 'round trip ok'
    violations += bad
    print(f'{charset:7} {len(text):8} chars / {len(text.encode(charset)):8} bytes: {outcome}'
          f'{"   VIOLATION" if bad else ""}')
    assert meta._charset == 'latin1'
sys.exit(1 if violations else 0)
