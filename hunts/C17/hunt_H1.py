"""H1 - two overlapping loads in two threads leave the process charset changed for good,
and the second load decodes its text with the wrong charset.

Interleaving is forced with events inside my own file-like objects (no mido patching):
  A enters load(utf-8) ... B enters load(cp1252) ... A returns ... B returns.
"""
import io
import sys
import threading

from mido import MetaMessage, MidiFile, MidiTrack
from mido.midifiles import meta

TIMEOUT = 10


def file_bytes(text, charset):
    mf = MidiFile(charset=charset)
    mf.tracks.append(MidiTrack([MetaMessage('text', text=text)]))
    buf = io.BytesIO()
    mf.save(file=buf)
    return buf.getvalue()


class GatedFile:
    """Readable file; the first read() sets `entered` and waits for `go`."""

    def __init__(self, data, entered, go):
        self.f = io.BytesIO(data)
        self.entered, self.go = entered, go
        self.first = True

    def read(self, n):
        if self.first:
            self.first = False
            self.entered.set()
            assert self.go.wait(TIMEOUT)
        return self.f.read(n)

    def tell(self):
        return self.f.tell()


data_a = file_bytes('caf\xe9', 'utf-8')
data_b = file_bytes('10 €', 'cp1252')     # euro sign = byte 0x80 in cp1252

# Sanity: sequentially everything is fine.
assert MidiFile(file=io.BytesIO(data_b), charset='cp1252').tracks[0][0].text == '10 €'
assert meta._charset == 'latin1'
before = MetaMessage('text', text='\xe9').bytes()
print('before           :', before, '(latin1)')

a_entered, a_go = threading.Event(), threading.Event()
b_entered, b_go = threading.Event(), threading.Event()
result = {}


def run(key, data, charset, entered, go):
    try:
        result[key] = MidiFile(file=GatedFile(data, entered, go), charset=charset)
    except BaseException as exc:           # noqa: BLE001
        result[key] = exc


ta = threading.Thread(target=run, args=('A', data_a, 'utf-8', a_entered, a_go))
tb = threading.Thread(target=run, args=('B', data_b, 'cp1252', b_entered, b_go))

ta.start()
assert a_entered.wait(TIMEOUT)      # A is inside _load, charset utf-8 in force
tb.start()
assert b_entered.wait(TIMEOUT)      # B is inside _load, it saved old='utf-8'
a_go.set()
ta.join(TIMEOUT)                    # A returns: restores 'latin1'
b_go.set()
tb.join(TIMEOUT)                    # B returns: "restores" 'utf-8'
assert not ta.is_alive() and not tb.is_alive()

print('A result         :', result['A'] if isinstance(result['A'], BaseException)
      else repr(result['A'].tracks[0][0]))
print('B result         :', result['B'] if isinstance(result['B'], BaseException)
      else repr(result['B'].tracks[0][0]))

# Both calls have returned. The statement says latin1 must be in force again.
after = MetaMessage('text', text='\xe9').bytes()
decoded = MetaMessage.from_bytes([0xff, 0x01, 0x02, 0xc3, 0xa9]).text
print('after both calls :', after, 'module charset =', meta._charset)
print('decode c3 a9     :', repr(decoded), '(latin1 would give %r)' % '\xc3\xa9')

violations = []
if after != before:
    violations.append('charset leaked: text encoded after both loads returned is not latin1')
if decoded != '\xc3\xa9':
    violations.append('charset leaked: text decoded after both loads returned is not latin1')
a = result['A']
if isinstance(a, BaseException) or a.tracks[0][0].text != 'caf\xe9':
    violations.append('load A with charset=utf-8 did not return the text that was saved '
                      'with utf-8 (decoded with the charset installed by B)')
b = result['B']
if isinstance(b, BaseException) or b.tracks[0][0].text != '10 €':
    violations.append('load B with charset=cp1252 did not return the text that was saved '
                      'with cp1252 (decoded with the charset restored by A)')

for v in violations:
    print('VIOLATION:', v)
sys.exit(1 if violations else 0)
