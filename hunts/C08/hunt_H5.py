"""H5: the SMF way of writing one system exclusive message in several timed
packets (F0 <len> first-part   ...   F7 <len> next-part ... F7 <len> last-part-with-F7)
is loaded as several independent, complete sysex messages; read_track treats
F7 events exactly like F0 events.  The loaded event list therefore describes a
different MIDI stream (saving it again emits F0..F7 F0..F7 instead of one
F0....F7)."""
import io
import struct
import sys

from mido import MidiFile

# Example taken from the SMF 1.0 specification (section "<sysex event>"):
#   F0 03 43 12 00 | 81 48  F7 06 43 12 00 43 12 00 | 64  F7 04 43 12 00 F7
body = bytes.fromhex('00 F0 03 43 12 00'
                     '81 48 F7 06 43 12 00 43 12 00'
                     '64 F7 04 43 12 00 F7'
                     '00 FF 2F 00')
data = b'MThd' + struct.pack('>LHHH', 6, 0, 1, 96) + b'MTrk' + struct.pack('>L', len(body)) + body

print('on the wire this file means ONE message: F0 43 12 00 43 12 00 43 12 00 43 12 00 F7')
mid = MidiFile(file=io.BytesIO(data))
for m in mid.tracks[0]:
    print('  loaded:', m, ' -> wire bytes', m.hex())
n_sysex = sum(m.type == 'sysex' for m in mid.tracks[0])
out = io.BytesIO()
mid.save(file=out)
print('re-saved track bytes:', out.getvalue()[22:].hex(' '))
print('number of complete sysex messages mido reports:', n_sysex, '(the file contains 1)')
sys.exit(1 if n_sysex != 1 else 0)
