"""H8 (borderline - concurrency; 'charset' is not among the configurations the
statement quantifies over): the text charset used while loading/saving is a
module-global (mido.midifiles.meta._charset) switched by meta_charset().  A
default (latin1) load that overlaps in time with a load/save of another
MidiFile using a different charset decodes its text events with the OTHER
file's charset.  The interleaving is forced with my own file-like double whose
read() waits on events; mido is not patched."""
import io
import struct
import sys
import threading

from mido import MetaMessage, MidiFile


class GatedFile(io.BytesIO):
    """BytesIO whose first read() signals 'entered' and waits for 'go'."""
    def __init__(self, data):
        super().__init__(data)
        self.entered = threading.Event()
        self.go = threading.Event()
        self._first = True

    def read(self, n=-1):
        if self._first:
            self._first = False
            self.entered.set()
            assert self.go.wait(20)
        return super().read(n)


def smf(text_bytes):
    body = b'\x00\xff\x01' + bytes([len(text_bytes)]) + text_bytes + b'\x00\xff\x2f\x00'
    return (b'MThd' + struct.pack('>LHHH', 6, 0, 1, 480)
            + b'MTrk' + struct.pack('>L', len(body)) + body)


data_a = smf(b'caf\xe9')                       # latin1 'café'
data_b = smf('日本'.encode('utf-8'))

# sequential reference result
expected = MidiFile(file=io.BytesIO(data_a)).tracks[0][0]
print('sequential load of file A :', expected)

fa, fb = GatedFile(data_a), GatedFile(data_b)
res = {}


def load(key, f, **kw):
    try:
        res[key] = MidiFile(file=f, **kw).tracks[0][0]
    except Exception as e:
        res[key] = e


ta = threading.Thread(target=load, args=('A', fa))
tb = threading.Thread(target=load, args=('B', fb), kwargs={'charset': 'utf-8'})
ta.start(); assert fa.entered.wait(20)     # A is inside meta_charset('latin1'), blocked in its first read
tb.start(); assert fb.entered.wait(20)     # B is inside meta_charset('utf-8'),  blocked in its first read
fa.go.set(); ta.join(20)                   # A runs to completion while B's charset is in force
fb.go.set(); tb.join(20)

print('overlapping load of file A:', repr(res['A']))
print('overlapping load of file B:', repr(res['B']), "(expected text='日本')")
ok = (not isinstance(res['A'], Exception)) and res['A'] == expected
sys.exit(0 if ok else 1)
