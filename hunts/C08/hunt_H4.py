"""H4: system common messages (quarter_frame F1, songpos F2, song_select F3,
tune_request F6) are accepted by save() and written as bare status bytes inside
the MTrk chunk.  An SMF track event is  <delta> (channel message | F0/F7 sysex
event | FF meta event); F1..F6 are not events, so a reference SMF decoder
rejects the bytes.  (Real-time messages ARE refused by write_track; system
common are not.)  The only conformant spelling - an F7 escape event
'F7 <len> F2 lsb msb' - does not load either: clip=False raises, clip=True
returns a bogus sysex message."""
import io
import struct
import sys

from mido import Message, MidiFile, MidiTrack


def ref_decode_track(body):
    """strict decoder of one MTrk body -> list of (delta, kind, bytes)"""
    p, running, out = 0, None, []

    def vlq():
        nonlocal p
        n = 0
        while True:
            b = body[p]; p += 1
            n = (n << 7) | (b & 0x7f)
            if b < 0x80:
                return n
    while p < len(body):
        delta = vlq()
        b = body[p]
        if b == 0xff:
            t = body[p + 1]; p += 2
            ln = vlq(); out.append((delta, 'meta %02x' % t, body[p:p + ln])); p += ln
            running = None
        elif b in (0xf0, 0xf7):
            p += 1
            ln = vlq(); out.append((delta, 'sysex %02x' % b, body[p:p + ln])); p += ln
            running = None
        elif b >= 0xf0:
            raise ValueError('status byte %02X is not a legal SMF track event (offset %d)' % (b, p))
        else:
            if b & 0x80:
                running = b; p += 1
            elif running is None:
                raise ValueError('running status with none in effect')
            n = 1 if running & 0xe0 == 0xc0 else 2
            out.append((delta, 'ch %02x' % running, body[p:p + n])); p += n
    return out


bad = 0
for msg in (Message('songpos', pos=5), Message('quarter_frame', frame_type=1, frame_value=2),
            Message('song_select', song=3), Message('tune_request')):
    mid = MidiFile()
    mid.tracks.append(MidiTrack([msg, Message('note_on', note=60, time=1)]))
    buf = io.BytesIO()
    try:
        mid.save(file=buf)
    except ValueError as e:
        print(msg.type, ': save refused ->', e, '(fine)')
        continue
    body = buf.getvalue()[22:]
    try:
        print(msg.type, ':', body.hex(' '), '-> reference decode', ref_decode_track(body))
    except ValueError as e:
        print(msg.type, ': save() wrote', body.hex(' '), '-> reference decoder: REJECTED,', e)
        bad += 1

print()
print('read direction: conformant F7-escape spelling of songpos pos=5')
body = b'\x00\xf7\x03\xf2\x05\x00' + b'\x00\xff\x2f\x00'
data = b'MThd' + struct.pack('>LHHH', 6, 1, 1, 480) + b'MTrk' + struct.pack('>L', len(body)) + body
print('  reference decode:', ref_decode_track(body))
for clip in (False, True):
    try:
        tr = MidiFile(file=io.BytesIO(data), clip=clip).tracks[0]
        print(f'  mido clip={clip}:', list(tr))
        if tr[0] != Message('songpos', pos=5):
            bad += 1
    except Exception as e:
        print(f'  mido clip={clip}: LOAD FAILED', repr(e))
        bad += 1
sys.exit(1 if bad else 0)
