"""H7: delta times above 0x0FFFFFFF are written as 5-byte variable-length
quantities.  SMF 1.0: "The largest number which is allowed is 0FFFFFFF so that
the variable-length representations must fit in 32 bits" - a reference decoder
rejects the track.  The oversized delta can also be CREATED by save() itself
from individually legal deltas: fix_end_of_track adds the time of a removed
end_of_track to the next message."""
import io
import sys

from mido import Message, MetaMessage, MidiFile, MidiTrack


def ref_vlq(body, p):
    n, start = 0, p
    while True:
        b = body[p]; p += 1
        n = (n << 7) | (b & 0x7f)
        if b < 0x80:
            break
    if p - start > 4:
        raise ValueError('variable-length quantity of %d bytes (max 4 / 0FFFFFFF)' % (p - start))
    return n, p


bad = 0
cases = [
    ('one message with time=0x10000000', [Message('note_on', time=0x10000000)]),
    ('all deltas legal: end_of_track(time=0x0FFFFFFF) followed by note_on(time=1)',
     [MetaMessage('end_of_track', time=0x0fffffff), Message('note_on', time=1)]),
    ('control: time=0x0FFFFFFF', [Message('note_on', time=0x0fffffff)]),
]
for label, track in cases:
    mid = MidiFile()
    mid.tracks.append(MidiTrack(track))
    buf = io.BytesIO()
    mid.save(file=buf)
    body = buf.getvalue()[22:]
    try:
        n, p = ref_vlq(body, 0)
        print(label, '->', body[:p].hex(' '), 'reference decoder reads delta', hex(n))
    except ValueError as e:
        print(label, '->', body[:6].hex(' '), '... reference decoder: REJECTED,', e)
        bad += 1
sys.exit(1 if bad else 0)
