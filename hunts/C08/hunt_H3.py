"""H3: the header fields are unpacked as signed 16-bit ('>hhh').  A conformant
file with ntrks >= 32768 (ntrks is an unsigned 16-bit word) loads to ZERO
tracks, silently."""
import io
import struct
import sys

from mido import MidiFile

N = 32768
track = b'MTrk' + struct.pack('>L', 4) + b'\x00\xff\x2f\x00'
data = b'MThd' + struct.pack('>LHHH', 6, 1, N, 480) + track * N
bad = 0
for clip in (False, True):
    mid = MidiFile(file=io.BytesIO(data), clip=clip)
    print(f'file declares and contains {N} tracks; clip={clip}: mido loaded {len(mid.tracks)} tracks')
    bad += len(mid.tracks) != N

# control: 32767 tracks load fine
data2 = b'MThd' + struct.pack('>LHHH', 6, 1, N - 1, 480) + track * (N - 1)
print('control, 32767 tracks ->', len(MidiFile(file=io.BytesIO(data2)).tracks))
sys.exit(1 if bad else 0)
