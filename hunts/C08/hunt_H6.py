"""H6: a chunk of unknown type between MThd and MTrk (or between two MTrk
chunks) makes loading fail.  SMF 1.0: "Your programs should EXPECT alien chunks
and treat them as if they weren't there."  Such a file is a standard-conformant
encoding of the same event list."""
import io
import struct
import sys

from mido import Message, MetaMessage, MidiFile


def chunk(name, body):
    return name + struct.pack('>L', len(body)) + body


t1 = bytes.fromhex('00 90 3C 40 60 3C 00 00 FF 2F 00')
t2 = bytes.fromhex('00 C1 05 00 FF 2F 00')
hdr = chunk(b'MThd', struct.pack('>HHH', 1, 2, 480))
alien = chunk(b'XFIH', b'abc')
plain = hdr + chunk(b'MTrk', t1) + chunk(b'MTrk', t2)
expected = [list(t) for t in MidiFile(file=io.BytesIO(plain)).tracks]
print('plain file loads to', expected)

bad = 0
for label, data in [('alien chunk after MThd', hdr + alien + chunk(b'MTrk', t1) + chunk(b'MTrk', t2)),
                    ('alien chunk between tracks', hdr + chunk(b'MTrk', t1) + alien + chunk(b'MTrk', t2)),
                    ('alien chunk at the end (control)', plain + alien)]:
    for debug in (False,):
        try:
            got = [list(t) for t in MidiFile(file=io.BytesIO(data)).tracks]
            print(label, '-> loaded, equal =', got == expected)
            bad += got != expected
        except Exception as e:
            print(label, '-> LOAD FAILED', repr(e))
            bad += 1
sys.exit(1 if bad else 0)
