"""H1: smpte_offset with hours >= 32 is accepted in memory (check allows 0..255)
but save() ORs the hours into the frame-rate bits of the hr byte, so the bytes
decode (reference SMF decoding of FF 54 05 hr mn se fr ff, hr = 0rrhhhhh) to a
different event than the one in memory."""
import io
import sys

from mido import MetaMessage, MidiFile, MidiTrack

RATES = {0: 24, 1: 25, 2: 29.97, 3: 30}
bad = 0
for rate, hours in [(24, 32), (24, 64), (25, 40), (24, 200), (30, 255)]:
    msg = MetaMessage('smpte_offset', frame_rate=rate, hours=hours)   # passes all checks
    mid = MidiFile()
    mid.tracks.append(MidiTrack([msg]))
    buf = io.BytesIO()
    mid.save(file=buf)
    data = buf.getvalue()
    body = data[22:]
    # independent decode of the first event: 00 FF 54 05 hr mn se fr ff
    assert body[:4] == b'\x00\xff\x54\x05', body.hex(' ')
    hr = body[4]
    ref_rate = RATES.get((hr >> 5) & 3) if hr < 0x80 else 'ILLEGAL(bit7 set)'
    ref_hours = hr & 0x1f
    same = (ref_rate == rate and ref_hours == hours)
    print(f'in memory: frame_rate={rate} hours={hours}  ->  hr byte {hr:02x}  '
          f'-> reference decode: frame_rate={ref_rate} hours={ref_hours}  '
          f'{"ok" if same else "MISMATCH"}')
    try:
        back = MidiFile(file=io.BytesIO(data)).tracks[0][0]
        print('   mido itself reloads it as', back)
    except Exception as e:
        print('   mido itself cannot reload it:', repr(e))
    bad += not same

sys.exit(1 if bad else 0)
