"""H2: a conformant file holding one event whose payload is longer than
1,000,000 bytes (sysex or meta text) cannot be loaded: read_bytes refuses it
(MAX_MESSAGE_LENGTH).  The file used here is even written by mido's own
save()."""
import io
import struct
import sys

from mido import Message, MetaMessage, MidiFile, MidiTrack

bad = 0
for label, msg in [
    ('sysex, 1_000_000 data bytes (+F7 = 1_000_001 payload)', Message('sysex', data=[1] * 1000000)),
    ('text meta, 1_000_001 characters', MetaMessage('text', text='a' * 1000001)),
    ('control: sysex, 999_999 data bytes', Message('sysex', data=[1] * 999999)),
]:
    mid = MidiFile()
    mid.tracks.append(MidiTrack([msg]))
    buf = io.BytesIO()
    mid.save(file=buf)
    data = buf.getvalue()
    # the file is well formed: MThd(6) + one MTrk whose length matches
    assert data[:4] == b'MThd' and data[14:18] == b'MTrk'
    assert struct.unpack('>L', data[18:22])[0] == len(data) - 22
    assert data.endswith(b'\x00\xff\x2f\x00')
    for clip in (False, True):
        try:
            got = MidiFile(file=io.BytesIO(data), clip=clip).tracks[0][0]
            ok = got == msg
            print(f'{label}, clip={clip}: loaded, equal={ok}')
            bad += not ok
        except Exception as e:
            print(f'{label}, clip={clip}: LOAD FAILED {e!r}')
            bad += 1
sys.exit(1 if bad else 0)
