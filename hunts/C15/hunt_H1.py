"""H1: MetaMessage('sequencer_specific') keeps a *mutable list* as its data
(the spec default is one shared module-level [] and the constructor / setattr
store the caller's list unchanged).  copy(), freeze_message() and
thaw_message() only copy the attribute dict, so the list is shared.

Violated clauses of C15:
  (a) "assigning attributes on either afterwards never affects the other"
  (b) "equal frozen messages hash equal and work as dictionary keys"
  (c) "Frozen messages reject every mutation"
"""
import sys
from mido import MetaMessage
from mido.frozen import freeze_message, thaw_message

violations = []

# (a) augmented assignment on the copy changes the original ----------------
orig = MetaMessage('sequencer_specific', data=[1, 2])
cp = orig.copy()
assert cp == orig and type(cp) is MetaMessage
cp.data += [3]                      # an attribute assignment on the copy
print('(a) copy  :', cp)
print('(a) orig  :', orig)
if list(orig.data) != [1, 2]:
    violations.append('(a) copy().data += [3] changed the original: %r' % (orig,))

# same through thaw(freeze(m))
orig2 = MetaMessage('sequencer_specific', data=[1, 2])
th = thaw_message(freeze_message(orig2))
th.data += [4]
print('(a) thawed:', th, '/ orig:', orig2)
if list(orig2.data) != [1, 2]:
    violations.append('(a) thaw(freeze(m)).data += [4] changed m: %r' % (orig2,))

# (b) frozen sequencer_specific is not hashable -----------------------------
f1 = freeze_message(MetaMessage('sequencer_specific', data=[1, 2]))
f2 = freeze_message(MetaMessage('sequencer_specific', data=[1, 2]))
assert f1 == f2
try:
    ok = hash(f1) == hash(f2) and {f1: 'x'}[f2] == 'x'
    print('(b) hash ok', ok)
    if not ok:
        violations.append('(b) equal frozen messages hash differently')
except TypeError as e:
    print('(b) hash(frozen sequencer_specific) raises TypeError:', e)
    violations.append('(b) frozen message unusable as dict key: TypeError %s' % e)

# even with all defaults (no data argument at all)
try:
    hash(freeze_message(MetaMessage('sequencer_specific')))
except TypeError as e:
    print('(b) default-constructed message, hash raises TypeError:', e)
    violations.append('(b) default sequencer_specific frozen is unhashable')

# (c) a frozen message is mutated although the assignment raises -----------
src = MetaMessage('sequencer_specific', data=[7])
fz = freeze_message(src)
before = repr(fz)
try:
    fz.data += [8]
    print('(c) no exception at all')
except ValueError as e:
    print('(c) fz.data += [8] raised ValueError:', e)
print('(c) frozen before:', before)
print('(c) frozen after :', repr(fz), '/ source message:', src)
if repr(fz) != before:
    violations.append('(c) frozen message changed from %s to %r' % (before, fz))

# bonus: the shared default list leaks into every later message
a = MetaMessage('sequencer_specific')
c = a.copy()
c.data += [99]
fresh = MetaMessage('sequencer_specific')
print('(a) after copy-of-default .data += [99]: orig', a, '/ brand new message', fresh)
if list(a.data) != []:
    violations.append('(a) default-data original changed by assignment on copy: %r' % (a,))
# clean up the module-level default again so the process state is sane
del fresh.data[:]

print()
for v in violations:
    print('VIOLATION', v)
sys.exit(1 if violations else 0)
