"""H4 (borderline, low severity): the frozen classes inherit the ordinary
__init__ (and Message._setattr) which write straight into vars(self), so
calling them on an existing frozen message mutates it and nothing is raised.
Only Frozen.__setattr__ is guarded.

Violated clause of C15 (read literally):
  "Frozen messages reject every mutation"
Consequence: the hash changes while the object is a dictionary key.
"""
import sys
from mido import Message, MetaMessage
from mido.frozen import freeze_message

violations = []

f = freeze_message(Message('note_on', note=1))
d = {f: 'value'}
before, h = repr(f), hash(f)
f.__init__('note_on', note=99)            # public constructor protocol, no exception
print('FrozenMessage      before', before, 'after', repr(f))
if repr(f) != before:
    violations.append('FrozenMessage mutated by __init__: %s -> %r' % (before, f))
if hash(f) != h or f not in d:
    print('  hash changed, key lost from dict:', f in d)

g = freeze_message(MetaMessage('set_tempo', tempo=1))
before = repr(g)
g.__init__('set_tempo', tempo=2)
print('FrozenMetaMessage  before', before, 'after', repr(g))
if repr(g) != before:
    violations.append('FrozenMetaMessage mutated by __init__: %s -> %r' % (before, g))

print()
for v in violations:
    print('VIOLATION', v)
sys.exit(1 if violations else 0)
