"""H2: Message.copy(data=...) pushes the override through bytearray() before
building the message; the constructor (and attribute assignment) use
SysexData(tuple) + check_data instead.  So copy-with-override is NOT "equal to
a freshly constructed message with those values".

Violated clause of C15:
  "copy() ... return a message of the matching class equal to the original -
   or, with overrides, equal to a freshly constructed message with those
   values"   (quantified over "all override sets (valid and invalid)")
"""
import sys
import array
from mido import Message

violations = []


def outcome(f):
    try:
        return ('ok', f())
    except Exception as e:          # noqa
        return ('raises', type(e).__name__ + ': ' + str(e))


class Idx:
    """has __index__ but is not numbers.Integral -> invalid data byte"""
    def __index__(self):
        return 7


cases = [
    # valid override sets: legal sequences of ints in 0..127
    ('valid   array("H",[1,2])', lambda: array.array('H', [1, 2])),
    ('valid   memoryview(array("i",[5]))', lambda: memoryview(array.array('i', [5]))),
    ('valid   "" (empty sequence)', lambda: ''),
    # invalid override sets: the constructor rejects them, copy() accepts them
    ('invalid 5 (an int, not a sequence)', lambda: 5),
    ('invalid True', lambda: True),
    ('invalid [object with __index__]', lambda: [Idx()]),
]

base = Message('sysex', data=[9, 9], time=3)
for label, mk in cases:
    got = outcome(lambda: base.copy(data=mk()))
    want = outcome(lambda: Message('sysex', data=mk(), time=3))
    same = (got[0] == want[0]) and (got[0] == 'raises' or got[1] == want[1])
    print('%-40s copy -> %s' % (label, got[1]))
    print('%-40s new  -> %s   %s' % ('', want[1], 'same' if same else 'DIFFERENT'))
    if not same:
        violations.append('%s: copy=%r fresh=%r' % (label, got, want))

# the original is never touched, that part holds
assert base == Message('sysex', data=[9, 9], time=3)

print()
for v in violations:
    print('VIOLATION', v)
sys.exit(1 if violations else 0)
