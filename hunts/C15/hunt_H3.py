"""H3: UnknownMetaMessage.__setattr__ stores any value unchecked and
unconverted.  After the perfectly ordinary assignment  msg.data = [1, 2, 3]
the message carries a mutable list which copy()/freeze/thaw then share.

History (the statement quantifies over "sequences of assignments on originals
and copies"):  construct -> assign data on the original -> copy/freeze.

Violated clauses of C15:
  (a) "assigning attributes on either afterwards never affects the other"
  (b) "equal frozen messages hash equal and work as dictionary keys"
  (c) "Frozen messages reject every mutation"
"""
import sys
from mido import UnknownMetaMessage
from mido.frozen import freeze_message, thaw_message

violations = []

u = UnknownMetaMessage(0x60, [1, 2], time=5)
assert hash(freeze_message(u)) == hash(freeze_message(u.copy()))   # fine so far

u.data = [1, 2, 3]            # assignment on the original (list is kept as is)

# (a)
c = u.copy()
assert c == u
c.data += [4]
print('(a) copy', c, '/ orig', u)
if list(u.data) != [1, 2, 3]:
    violations.append('(a) assignment on copy changed original: %r' % (u,))
u.data = [1, 2, 3]

t = thaw_message(freeze_message(u))
t.data += [5]
print('(a) thawed', t, '/ orig', u)
if list(u.data) != [1, 2, 3]:
    violations.append('(a) assignment on thawed changed original: %r' % (u,))
u.data = [1, 2, 3]

# (b)
f1, f2 = freeze_message(u), freeze_message(u.copy())
assert f1 == f2
try:
    ok = hash(f1) == hash(f2) and {f1: 1}[f2] == 1
    if not ok:
        violations.append('(b) hashes differ')
except TypeError as e:
    print('(b) hash(frozen) raises TypeError:', e)
    violations.append('(b) frozen unknown meta message unhashable: %s' % e)

# (c)
before = repr(f1)
try:
    f1.data += [6]
except ValueError as e:
    print('(c) f.data += [6] raised ValueError:', e)
print('(c) frozen before', before, 'after', repr(f1))
if repr(f1) != before:
    violations.append('(c) frozen message mutated: %s -> %r' % (before, f1))

print()
for v in violations:
    print('VIOLATION', v)
sys.exit(1 if violations else 0)
