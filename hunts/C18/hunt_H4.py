"""H4 (C18): once a connection's file descriptor is >= 1024 (FD_SETSIZE) the
port cannot receive at all: _is_readable() uses select.select(), which raises
ValueError('filedescriptor out of range in select()').

 (a) PortServer with 1100 clients (clients live in a child process, so the
     server process holds only its own ~1100 descriptors; `ulimit -n` is
     20000 here).  Every client sends one complete note_on.  Required: the
     server hands out 1100 messages.  Observed: poll() raises ValueError as
     soon as the client with fd 1024 has been accepted, and keeps raising on
     every further call (the port is never closed, so it is never dropped).
 (b) a single SocketPort whose socket has fd >= 1024 (busy process): peer
     sends one complete message and disconnects; `for msg in port` raises
     ValueError, port.closed stays False.
"""
import os
import resource
import socket
import subprocess
import sys
import time

from mido import Message
from mido.sockets import PortServer, SocketPort

N = 1100
soft, hard = resource.getrlimit(resource.RLIMIT_NOFILE)
if soft < 3000:
    resource.setrlimit(resource.RLIMIT_NOFILE, (min(hard, 20000), hard))

violations = []


def free_port():
    s = socket.socket()
    s.bind(('127.0.0.1', 0))
    port = s.getsockname()[1]
    s.close()
    return port


# ---------------------------------------------------------------- (a)
addr = ('127.0.0.1', free_port())
srv = PortServer(*addr, backlog=N)
child_code = f'''
import socket, sys
socks = []
for i in range({N}):
    s = socket.socket(); s.connect({addr!r}); s.sendall(bytes([0x90, i % 128, 64]))
    socks.append(s)
print("ready", flush=True)
sys.stdin.readline()
'''
child = subprocess.Popen([sys.executable, '-c', child_code],
                         stdin=subprocess.PIPE, stdout=subprocess.PIPE)
assert child.stdout.readline().strip() == b'ready'

got = []
errors = []
deadline = time.time() + 20
while len(got) < N and time.time() < deadline and len(errors) < 5:
    try:
        m = srv.poll()
        if m is not None:
            got.append(m)
    except Exception as exc:
        errors.append(exc)
print(f'(a) {N} clients sent one message each; handed out: {len(got)}; '
      f'clients accepted: {len(srv.ports)}')
for e in errors[:3]:
    print(f'    server.poll() RAISED {type(e).__name__}: {e}')
if errors or len(got) != N:
    violations.append(f'a: server handed out {len(got)} of {N} messages, '
                      f'poll() raised {errors[0]!r}' if errors else
                      f'a: {len(got)} of {N}')
child.stdin.close()
child.wait(10)

# ---------------------------------------------------------------- (b)
# (the descriptors above are still open, so new sockets get fds > 1024)
a, b = socket.socketpair()
print('(b) receiving socket fd =', b.fileno())
B = SocketPort('b', 2, conn=b)
a.sendall(bytes(Message('note_on', note=5).bin()))
a.close()
got = []
try:
    for m in B:
        got.append(m)
    print(f'(b) iteration ended, got={got}, closed={B.closed}')
    if len(got) != 1 or not B.closed:
        violations.append('b: wrong result')
except Exception as exc:
    print(f'(b) iteration RAISED {type(exc).__name__}: {exc}; got={got}; '
          f'closed={B.closed}')
    violations.append(f'b: for-loop raised {exc!r}, closed={B.closed}')

print()
if violations:
    print('VIOLATION of "yields exactly the messages ... then ends iteration '
          'without an exception" / "a server port hands out messages from '
          'all its clients":')
    for v in violations:
        print('  -', v)
    sys.stdout.flush()
    os._exit(1)
print('no violation observed')
