"""H1 (C18): a peer that goes away with a RESET instead of a FIN makes the
receiving SocketPort raise out of `for msg in port` and stay "open".

No tricks are needed to get a reset: the kernel sends RST instead of FIN
whenever the closing/dying side still has unread input.  So it is enough
that the receiving port once sent something the peer did not read.

 (a) two mido SocketPorts A <-> B.  B sends one message to A, A sends three
     complete messages to B, A.close() (or A's process dies).
     Required: B yields the 3 messages, iteration ends, B.closed is True.
     Observed: iteration raises OSError('Connection reset by peer') before
     yielding anything, B.closed is False.
 (b) PortServer: the server broadcast one message to its clients, a client
     that never reads sends a complete message and closes.  server.poll()
     raises OSError instead of handing out the message.
 (c) PortServer.close() while a client is still waiting in the listen
     backlog: that client's iteration raises as well.
"""
import socket
import sys
import time

from mido import Message
from mido.sockets import PortServer, SocketPort, connect

violations = []


def tcp_pair():
    ls = socket.socket()
    ls.bind(('127.0.0.1', 0))
    ls.listen(1)
    a = socket.socket()
    a.connect(ls.getsockname())
    b, _ = ls.accept()
    ls.close()
    return a, b


# ---------------------------------------------------------------- (a)
for kind, mk in [('tcp', tcp_pair), ('socketpair', socket.socketpair)]:
    a, b = mk()
    A = SocketPort('a', 1, conn=a)
    B = SocketPort('b', 2, conn=b)
    sent = [Message('note_on', note=i) for i in range(3)]
    for m in sent:
        A.send(m)
    B.send(Message('note_off'))      # A never reads this
    time.sleep(0.1)
    A.close()                        # == A's process exits / is killed
    time.sleep(0.1)
    got = []
    try:
        for m in B:
            got.append(m)
        print(f'(a/{kind}) iteration ended, got={got}, closed={B.closed}')
        if got != sent or not B.closed:
            violations.append(f'a/{kind}: wrong result')
    except Exception as exc:
        print(f'(a/{kind}) iteration RAISED {type(exc).__name__}: {exc}; '
              f'yielded so far={got}; B.closed={B.closed}')
        violations.append(f'a/{kind}: for-loop raised {exc!r}, '
                          f'closed={B.closed}')

# ---------------------------------------------------------------- (b)
def free_port():
    s = socket.socket()
    s.bind(('127.0.0.1', 0))
    port = s.getsockname()[1]
    s.close()
    return port


addr = ('127.0.0.1', free_port())
srv = PortServer(*addr)
client = connect(*addr)
assert srv.poll() is None            # accepts the client
srv.send(Message('clock'))           # broadcast; the client never reads it
client.send(Message('note_on', note=7))
time.sleep(0.1)
client.close()                       # client program exits
time.sleep(0.1)
try:
    m = srv.poll()
    print('(b) server.poll() ->', m)
    if m != Message('note_on', note=7):
        violations.append('b: message not handed out')
except Exception as exc:
    print(f'(b) server.poll() RAISED {type(exc).__name__}: {exc}; '
          f'client port closed={[p.closed for p in srv.ports]}')
    violations.append(f'b: server.poll() raised {exc!r}')

# ---------------------------------------------------------------- (c)
late = connect(*addr)                # sits in the backlog, never accepted
time.sleep(0.1)
srv.close()
time.sleep(0.1)
try:
    got = list(late)
    print(f'(c) late client iteration ended, got={got}, closed={late.closed}')
    if got or not late.closed:
        violations.append('c: wrong result')
except Exception as exc:
    print(f'(c) late client iteration RAISED {type(exc).__name__}: {exc}; '
          f'closed={late.closed}')
    violations.append(f'c: for-loop raised {exc!r}, closed={late.closed}')

print()
if violations:
    print('VIOLATION of "then ends iteration without an exception and '
          'reports itself closed":')
    for v in violations:
        print('  -', v)
    sys.exit(1)
print('no violation observed')
