"""H3 (C18): a peer that keeps the stream busy makes poll()/receive() spin
inside SocketPort._receive() for as long as it keeps sending - no message
is handed out although hundreds of thousands are complete.

SocketPort._receive() is `while _is_readable(sock): read ONE byte; feed`.
It only returns when the kernel buffer is momentarily empty.  One select()
plus one recv() per byte is ~200 kB/s here; any peer that sends faster than
that (trivial over TCP) keeps the loop alive.  The *non-blocking* poll() of
a PortServer therefore does not return while one client streams, the
messages of all other clients are not handed out, and the deque of parsed
messages grows without bound.

Forced deterministically: the flooding client sends until told to stop; we
watch server.poll() for 3 s (it should return immediately - it is the
non-blocking call), then stop the flood and see poll() return.
"""
import socket
import sys
import threading
import time

from mido import Message
from mido.sockets import PortServer, SocketPort, connect


def free_port():
    s = socket.socket()
    s.bind(('127.0.0.1', 0))
    port = s.getsockname()[1]
    s.close()
    return port


addr = ('127.0.0.1', free_port())
srv = PortServer(*addr)

quiet = connect(*addr)                       # a well-behaved client
raw = socket.socket()                        # the busy client
raw.setsockopt(socket.SOL_SOCKET, socket.SO_SNDBUF, 4096)  # short drain
raw.connect(addr)

assert srv.poll() is None and srv.poll() is None   # accept both
assert len(srv.ports) == 2
quiet.send(Message('note_on', note=1))

stop = threading.Event()
chunk = bytes(Message('note_on', note=2).bin()) * 1000     # complete msgs


def flooder():
    while not stop.is_set():
        raw.sendall(chunk)


threading.Thread(target=flooder, daemon=True).start()
time.sleep(0.3)

result = []


def poller():
    t0 = time.time()
    m = srv.poll()                  # non-blocking by contract
    result.append((time.time() - t0, m))


p = threading.Thread(target=poller, daemon=True)
p.start()

OBSERVE = 3.0
p.join(OBSERVE)
stuck = p.is_alive()
parsed = sum(len(port._messages) for port in srv.ports)
print(f'after {OBSERVE:.0f} s: server.poll() returned: {not stuck}; complete '
      f'messages parsed but not handed out: {parsed}')

stop.set()
p.join(20)
if result:
    print(f'flood stopped -> poll() returned after {result[0][0]:.2f} s '
          f'with {result[0][1]}')
else:
    print('poll() still has not returned 20 s after the flood stopped')

if stuck:
    print('\nVIOLATION of "a server port hands out messages from all its '
          'clients without blocking forever": poll() stays inside '
          'SocketPort._receive for as long as one client keeps sending.')
    sys.stdout.flush()
    import os
    os._exit(1)
print('no violation observed')
