"""H5 (C18, concurrency, forced interleaving): PortServer.accept(block=False)
is check-then-act - `_is_readable(listening socket)` and afterwards a
*blocking* `socket.accept()`.  If another thread takes the pending connection
in between (the documented blocking `server.accept()` does not take the port
lock), the non-blocking poll() sits in accept() until some further client
happens to connect - possibly forever - and it does so while holding the
server's lock, so messages of the already connected clients are not handed
out and server.send()/close() from other threads hang too.

Interleaving forced with a hook in MY OWN subclass (PortServer._update_ports
is called exactly between the check and the accept); mido is not patched.

   poller thread                       acceptor thread
   -------------                       ---------------
   poll() -> accept(block=False)
     _is_readable(listener) -> True
     _update_ports()  [hook: pause]
                                       server.accept()  -> takes the client
     socket.accept()  -> blocks
"""
import os
import socket
import sys
import threading
import time

from mido import Message
from mido.sockets import PortServer, connect

at_gap = threading.Event()
stolen = threading.Event()
hook_thread = []


class HookedServer(PortServer):
    def _update_ports(self):
        PortServer._update_ports(self)
        if hook_thread and threading.current_thread() is hook_thread[0] \
                and not at_gap.is_set():
            at_gap.set()
            stolen.wait(10)


def free_port():
    s = socket.socket()
    s.bind(('127.0.0.1', 0))
    port = s.getsockname()[1]
    s.close()
    return port


addr = ('127.0.0.1', free_port())
srv = HookedServer(*addr)

# An already connected client with a complete message waiting.
first = connect(*addr)
assert srv.poll() is None
first.send(Message('note_on', note=11))
time.sleep(0.1)

second = connect(*addr)              # pending connection -> listener readable
time.sleep(0.1)

result = []


def poller():
    t0 = time.time()
    m = srv.poll()                   # non-blocking by contract
    result.append((time.time() - t0, m))


def acceptor():
    at_gap.wait(10)
    port = srv.accept()              # documented blocking accept
    print('acceptor thread got', port)
    stolen.set()


p = threading.Thread(target=poller, daemon=True)
hook_thread.append(p)
a = threading.Thread(target=acceptor, daemon=True)
a.start()
p.start()

p.join(3.0)
stuck = p.is_alive()
print(f'3 s later: server.poll() returned: {not stuck}  {result}')

# Unblock it with a further client, to show what it was waiting for.
third = connect(*addr)
p.join(5)
print(f'after a third client connected: poll() returned: {not p.is_alive()} '
      f'{result}')

if stuck:
    print('\nVIOLATION of "a server port hands out messages from all its '
          'clients without blocking forever": the non-blocking poll() was '
          'parked in socket.accept() (holding the port lock) with a complete '
          'message from a connected client waiting.')
    sys.stdout.flush()
    os._exit(1)
print('no violation observed')
