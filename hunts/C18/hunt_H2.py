"""H2 (C18): complete messages that arrived before the disconnect are thrown
away when the receiving port happens to *send* before it reads.

History: A sends three complete messages to B and disconnects cleanly (FIN).
B - which has not read yet - sends a message.  The write fails with EPIPE
(immediately on a socketpair / unix socket, on the second send over TCP),
SocketPort._send() reacts with self.close(), and close() drops the socket
together with the three messages still sitting in its receive buffer.
`for msg in B` then yields nothing.

Required ("yields exactly the messages whose encodings arrived completely"):
the three messages.  Same thing through a PortServer: server.send()
(broadcast) closes the client port and the client's last messages are
never handed out.
"""
import socket
import sys
import time

from mido import Message
from mido.sockets import PortServer, SocketPort, connect

violations = []


def tcp_pair():
    ls = socket.socket()
    ls.bind(('127.0.0.1', 0))
    ls.listen(1)
    a = socket.socket()
    a.connect(ls.getsockname())
    b, _ = ls.accept()
    ls.close()
    return a, b


def free_port():
    s = socket.socket()
    s.bind(('127.0.0.1', 0))
    port = s.getsockname()[1]
    s.close()
    return port


for kind, mk in [('tcp', tcp_pair), ('socketpair', socket.socketpair)]:
    a, b = mk()
    A = SocketPort('a', 1, conn=a)
    B = SocketPort('b', 2, conn=b)
    sent = [Message('note_on', note=i) for i in range(3)]
    for m in sent:
        A.send(m)
    A.close()                         # clean disconnect, nothing unread
    time.sleep(0.1)
    for k in range(2):                # B answers before it reads
        try:
            B.send(Message('note_off'))
            print(f'({kind}) B.send #{k} ok')
        except (OSError, ValueError) as exc:
            print(f'({kind}) B.send #{k} -> {type(exc).__name__}: {exc}; '
                  f'B.closed={B.closed}')
        time.sleep(0.1)
    got = list(B)
    print(f'({kind}) for msg in B -> {got}; closed={B.closed}')
    if got != sent:
        violations.append(f'{kind}: {len(sent)} complete messages arrived, '
                          f'{len(got)} yielded')

# The same through a server port.
addr = ('127.0.0.1', free_port())
srv = PortServer(*addr)
client = connect(*addr)
assert srv.poll() is None             # accept
client.send(Message('note_on', note=9))
client.close()
time.sleep(0.1)
for k in range(2):
    try:
        srv.send(Message('clock'))    # broadcast before polling
    except OSError as exc:
        print(f'(server) send #{k} -> OSError: {exc}')
    time.sleep(0.1)
m = srv.poll()
print('(server) poll ->', m, '; ports =', srv.ports)
if m is None or m != Message('note_on', note=9):
    violations.append('server: client message that arrived completely was '
                      'never handed out')
srv.close()

print()
if violations:
    print('VIOLATION of "yields exactly the messages whose encodings '
          'arrived completely":')
    for v in violations:
        print('  -', v)
    sys.exit(1)
print('no violation observed')
