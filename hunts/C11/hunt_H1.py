"""H1: iterating an IOPort raises when the wrapped input port closes itself.

Clause: "iteration ends without an exception whether the port closed before,
between or inside receive calls" (quantified over each port type and every
position at which a device closes itself).
"""
import sys
import threading

from mido import Message
from mido.ports import BaseInput, BaseOutput, IOPort


class HangUpInput(BaseInput):
    """A device that delivers `n` messages and then hangs up (closes itself
    inside _receive, exactly like SocketPort does on EOF)."""
    def _open(self, n=2, **kwargs):
        self.feed = [Message('note_on', note=i) for i in range(n)]
        self.released = 0

    def _receive(self, block=True):
        if self.feed:
            return self.feed.pop(0)
        self.close()

    def _close(self):
        self.released += 1


class SlowOutput(BaseOutput):
    """Output whose release can be held up (used for variant c)."""
    def _open(self, **kwargs):
        self.in_close = threading.Event()
        self.go = threading.Event()
        self.go.set()

    def _close(self):
        self.in_close.set()
        self.go.wait(10)


def run(label, make):
    io, prepare = make()
    got = []
    prepare(io)
    try:
        for msg in io:
            got.append(msg.note)
        print(f'{label}: iteration ended cleanly after {got}')
        return False
    except (OSError, ValueError) as err:
        print(f'{label}: got {got}, then iteration RAISED '
              f'{type(err).__name__}({err}); IOPort.closed={io.closed} '
              f'input.closed={io.input.closed}')
        return True


bad = False

# reference: the same device iterated directly ends cleanly
ref = HangUpInput(n=2)
print('plain BaseInput:', [m.note for m in ref], 'closed', ref.closed)

# (a) device closes itself INSIDE receive
bad |= run('(a) closes inside receive',
           lambda: (IOPort(HangUpInput(n=2), BaseOutput()), lambda io: None))

# (b) input closed BEFORE iteration / between receives (wrapper not told)
bad |= run('(b) input closed before iteration',
           lambda: (IOPort(HangUpInput(n=2), BaseOutput()),
                    lambda io: io.input.close()))


# (c) even IOPort.close() itself, from another thread, while a consumer
# iterates: the input is closed first, IOPort.closed becomes True only
# after the output has been released as well.
def variant_c():
    inp = BaseInput()                 # never delivers anything
    out = SlowOutput()
    io = IOPort(inp, out)
    out.go.clear()
    result = {}

    def consumer():
        try:
            result['got'] = list(io)
        except (OSError, ValueError) as err:
            result['err'] = err
            result['closed_seen'] = io.closed

    t = threading.Thread(target=consumer, daemon=True)
    t.start()
    closer = threading.Thread(target=io.close, daemon=True)
    closer.start()
    out.in_close.wait(10)     # input already closed, output being released
    t.join(10)                # consumer has reacted by now
    out.go.set()
    closer.join(10)
    if 'err' in result:
        print(f"(c) IOPort.close() from another thread: iteration RAISED "
              f"{type(result['err']).__name__}({result['err']}) "
              f"(IOPort.closed was {result['closed_seen']} at that moment)")
        return True
    print('(c) iteration ended cleanly', result)
    return False


bad |= variant_c()

if bad:
    print('VIOLATION: iteration over an IOPort ends with an exception')
    sys.exit(1)
print('no violation observed')
