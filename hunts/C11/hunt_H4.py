"""H4: when the peer of a SocketPort disconnects abortively (TCP reset)
right after a message, receive/poll/iteration raise OSError although that
message has been completely taken in and is deliverable; iteration ends
with an exception.  Through a PortServer one resetting client makes
server.receive() raise as well.

Clauses: "A blocking receive on any port type ... returns as soon as a
message is deliverable", "receive, poll and iteration first hand out every
message the port had already taken in and then stop - iteration ends without
an exception whether the port closed before, between or inside receive
calls" (position of the device closing itself: directly after a message).
"""
import socket
import struct
import sys
import time

from mido import Message
from mido.sockets import PortServer, connect


def listener():
    s = socket.socket()
    s.bind(('127.0.0.1', 0))
    s.listen(5)
    return s, s.getsockname()[1]


def abort(sock):
    """Close with SO_LINGER 0: the peer gets a RST instead of a FIN."""
    sock.setsockopt(socket.SOL_SOCKET, socket.SO_LINGER,
                    struct.pack('ii', 1, 0))
    sock.close()


def scenario():
    lst, portno = listener()
    port = connect('127.0.0.1', portno)
    peer, _ = lst.accept()
    peer.sendall(bytes(Message('note_on', note=7).bin()))
    time.sleep(0.2)          # message is in the client's socket buffer
    abort(peer)
    time.sleep(0.2)
    lst.close()
    return port


bad = False

port = scenario()
try:
    print('receive() ->', port.receive())
except OSError as err:
    print(f'receive() RAISED OSError({err}); closed={port.closed}; '
          f'{len(port._messages)} complete message(s) sit in the queue')
    bad = True
print('  afterwards: receive() ->', port.receive(), '; then',
      list(port), 'closed =', port.closed)

port = scenario()
try:
    print('poll() ->', port.poll())
except OSError as err:
    print(f'poll() RAISED OSError({err}) with {len(port._messages)} queued')
    bad = True

port = scenario()
got = []
try:
    for msg in port:
        got.append(msg.note)
    print('iteration ended cleanly with', got)
except OSError as err:
    print(f'iteration handed out {got} and then RAISED OSError({err}); '
          f'closed={port.closed}, queued={len(port._messages)}')
    bad = True

# PortServer: one client resets, another one has sent a message
server_bad = False
for attempt in range(20):          # child order is shuffled by mido
    lst, portno = listener()
    lst.close()
    server = PortServer('127.0.0.1', portno)
    good = socket.create_connection(('127.0.0.1', portno))
    evil = socket.create_connection(('127.0.0.1', portno))
    time.sleep(0.05)
    server.poll()
    server.poll()                  # both accepted now
    good.sendall(bytes(Message('note_on', note=1).bin()))
    evil.sendall(bytes(Message('note_on', note=2).bin()))
    time.sleep(0.05)
    abort(evil)
    time.sleep(0.05)
    try:
        server.receive()
    except OSError as err:
        print(f'PortServer.receive() RAISED OSError({err}) on attempt '
              f'{attempt}; server queue holds {len(server._messages)}, '
              f'children hold {[len(p._messages) for p in server.ports]}')
        server_bad = True
    good.close()
    server.close()
    if server_bad:
        break
bad |= server_bad

if bad:
    print('VIOLATION: exception instead of the deliverable message / '
          'instead of a clean end of iteration')
    sys.exit(1)
print('no violation observed')
