"""H3: a message that arrives, followed by closure, in the window between the
"queue empty?" test and the "closed?" test of BaseInput.receive() is never
handed out by iteration.

Clause: "receive, poll and iteration first hand out every message the port
had already taken in and then stop" (forced interleaving of a device thread
with the consumer).

The interleaving is forced with a lock double installed by the port
subclass itself in _open(); nothing in mido is patched.  The device thread
is a real second thread; it is started by the hook and joined, so the
schedule is fixed:

   consumer: receive(): with lock: queue empty        -> lock released
   device  :            queue.append(msg); port.close()
   consumer:            if self.closed: raise ValueError   (msg is queued!)
   consumer: __iter__ : except ValueError: closed -> return
"""
import sys
import threading

from mido import Message
from mido.ports import BaseInput


class HookLock:
    """RLock double: runs `after_release` once, right after the lock has
    been released for the `nth` time."""
    def __init__(self):
        self._lock = threading.RLock()
        self.after_release = None
        self.countdown = 0

    def __enter__(self):
        self._lock.acquire()
        return self

    def __exit__(self, *exc):
        self._lock.release()
        hook = self.after_release
        if hook is not None:
            self.countdown -= 1
            if self.countdown == 0:
                self.after_release = None
                hook()
        return False


class DriverFedInput(BaseInput):
    """Input fed by a driver thread (messages are put in the queue by the
    driver, as the rtmidi-style backends do); the driver closes the port
    when the device disappears."""
    def _open(self, **kwargs):
        self._lock = HookLock()
        self.released = 0

    def _close(self):
        self.released += 1

    def driver_delivers_then_unplugs(self):
        def run():
            with self._lock:
                self._messages.append(Message('note_on', note=42))
            self.close()
        t = threading.Thread(target=run)
        t.start()
        t.join()


port = DriverFedInput()
# arm: after the consumer's first lock release inside receive()
port._lock.after_release = port.driver_delivers_then_unplugs
port._lock.countdown = 1

got = [m.note for m in port]          # iteration by the consumer
left = len(port._messages)
print('iteration ended cleanly, handed out:', got)
print('port.closed =', port.closed, ' released', port.released, 'time(s)')
print('messages taken in but never handed out:', left)

# a single blocking receive() in the same window raises although the
# message is deliverable
port2 = DriverFedInput()
port2._lock.after_release = port2.driver_delivers_then_unplugs
port2._lock.countdown = 1
try:
    r = port2.receive()
    print('receive() returned', r)
    raised = False
except ValueError as err:
    print(f'receive() raised ValueError({err}) with '
          f'{len(port2._messages)} message queued')
    raised = True

if left or raised:
    print('VIOLATION: iteration stopped before handing out a message the '
          'port had already taken in')
    sys.exit(1)
print('no violation observed')
