"""H7: a device that takes in its last messages, closes itself and reports
the failure by raising from _receive() (the close-then-raise pattern that
SocketPort._send uses for a broken pipe) makes iteration end *without*
handing out the messages already taken in.

Clause: "receive, poll and iteration first hand out every message the port
had already taken in and then stop - iteration ends without an exception
whether the port closed before, between or inside receive calls."

BaseInput.__iter__ treats any OSError/ValueError on a closed port as "the
end" and returns without draining the queue.
"""
import sys

from mido import Message
from mido.ports import BaseInput


class LinkInput(BaseInput):
    """Reads everything the link still had buffered, then notices that the
    link is dead: closes itself and raises (cf. SocketPort._send)."""
    def _open(self, **kwargs):
        self.calls = 0
        self.released = 0

    def _receive(self, block=True):
        self.calls += 1
        if self.calls == 1:
            return Message('note_on', note=0)
        # second call: two more messages arrive together with the hang-up
        self._messages.append(Message('note_on', note=1))
        self._messages.append(Message('note_on', note=2))
        self.close()
        raise OSError('link down')

    def _close(self):
        self.released += 1


port = LinkInput()
got = [m.note for m in port]
left = [m.note for m in port._messages]
print('iteration ended cleanly and handed out', got)
print('closed =', port.closed, '; still queued, never handed out:', left)
if left:
    print('VIOLATION: iteration stopped before handing out every message '
          'the port had taken in')
    sys.exit(1)
print('no violation observed')
