"""H6: if releasing the device fails once, or the reset fails with anything
but OSError, the next close() sends the reset messages again and releases
again (or the device is never released at all).

Clause: "close() may be called any number of times and releases the device
exactly once (after sending the reset messages, once, when autoreset is
set)".   Fault points: _close() of the device double raising on its first
call; _send() raising a non-OSError during the reset.
"""
import sys

from mido.ports import BaseOutput


class Device(BaseOutput):
    def _open(self, close_failures=0, send_error=None, **kwargs):
        self.sent = []
        self.release_calls = 0
        self.close_failures = close_failures
        self.send_error = send_error

    def _send(self, msg):
        if self.send_error is not None:
            raise self.send_error
        self.sent.append(msg)

    def _close(self):
        self.release_calls += 1
        if self.release_calls <= self.close_failures:
            raise OSError('device busy')


bad = False

# (a) the release fails once (as Pm_Close / socket.close may)
port = Device(autoreset=True, close_failures=1)
for i in range(3):
    try:
        port.close()
        print(f'(a) close() #{i + 1}: ok, closed={port.closed}')
    except OSError as err:
        print(f'(a) close() #{i + 1}: raised OSError({err}), '
              f'closed={port.closed}')
print(f'(a) reset messages sent: {len(port.sent)} (one reset = 32), '
      f'_close calls: {port.release_calls}')
bad |= len(port.sent) != 32 or port.release_calls != 1

# (b) the device rejects the reset with a non-OSError
port = Device(autoreset=True, send_error=RuntimeError('driver error'))
for i in range(3):
    try:
        port.close()
        print(f'(b) close() #{i + 1}: ok')
    except RuntimeError as err:
        print(f'(b) close() #{i + 1}: raised RuntimeError({err}), '
              f'closed={port.closed}, _close calls={port.release_calls}')
print(f'(b) after three close() calls: closed={port.closed}, '
      f'device released {port.release_calls} time(s)')
bad |= port.release_calls != 1
port.autoreset = False      # let the interpreter shut down quietly

if bad:
    print('VIOLATION: reset sent more than once / device not released '
          'exactly once')
    sys.exit(1)
print('no violation observed')
