"""H5: SocketPort.receive()/poll() do not return while the peer keeps the
socket readable: _receive() drains the socket byte by byte *before* the
first complete message is handed out.

Clause: "A blocking receive on any port type ... returns as soon as a
message is deliverable and a non-blocking receive never waits."

Deterministic part: the peer has written N complete messages before the
call; poll() hands out the first one only after all N have been taken in
(it is deliverable after 3 bytes).  Timing part (informative): a peer that
keeps writing for DURATION seconds holds a *non-blocking* poll() for at
least that long.
"""
import socket
import sys
import threading
import time

from mido import Message
from mido.sockets import connect

ONE = bytes(Message('note_on', note=1).bin())

lst = socket.socket()
lst.bind(('127.0.0.1', 0))
lst.listen(1)
portno = lst.getsockname()[1]

# ---- part 1: fixed backlog -------------------------------------------------
N = 20000
port = connect('127.0.0.1', portno)
peer, _ = lst.accept()
peer.sendall(ONE * N)
time.sleep(0.3)
t0 = time.time()
msg = port.poll()
dt = time.time() - t0
queued = len(port._messages)
print(f'poll() returned {msg!r} after {dt:.2f}s; it had to take in '
      f'{queued + 1} messages before handing out the first')
part1 = queued + 1 == N
peer.close()
port.close()

# ---- part 2: peer that keeps writing ---------------------------------------
DURATION = 2.0
port = connect('127.0.0.1', portno)
peer, _ = lst.accept()
peer.setsockopt(socket.SOL_SOCKET, socket.SO_SNDBUF, 16384)
started = threading.Event()
finished = threading.Event()
returned = threading.Event()
sent = [0]


def writer():
    t_end = time.time() + DURATION
    while time.time() < t_end and not returned.is_set():
        peer.sendall(ONE * 1000)
        sent[0] += 1000
        started.set()
    finished.set()


w = threading.Thread(target=writer, daemon=True)
w.start()
started.wait()
t0 = time.time()
msg = port.poll()                      # NON-blocking receive
dt = time.time() - t0
writer_done_first = finished.is_set()
returned.set()
w.join()
print(f'non-blocking poll() returned after {dt:.2f}s; the writer had '
      f'{"already stopped" if writer_done_first else "not stopped"} '
      f'(it wrote for {DURATION}s, {sent[0]} messages); '
      f'{len(port._messages)} messages were queued behind the first')
part2 = writer_done_first and dt >= DURATION * 0.9
peer.close()
port.close()
lst.close()

if part1 or part2:
    print('VIOLATION: receive does not return as soon as a message is '
          'deliverable; a non-blocking receive is held for as long as the '
          'peer keeps writing')
    sys.exit(1)
print('no violation observed')
