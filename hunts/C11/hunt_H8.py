"""H8 (outside the two anchored files, but a port type of the library that
inherits BasePort.close / BaseInput.__iter__): the default rtmidi backend
overrides send() and receive() and drops the lifecycle checks.

Clauses: "after it send raises ValueError, while receive, poll and iteration
first hand out every message the port had already taken in and then stop -
iteration ends without an exception whether the port closed before ...";
quantified over "each port type".

python-rtmidi is not installed here, so the *external* rtmidi module is
replaced by a stub (a device double); mido itself is untouched.
"""
import sys
import threading
import types

# ---- stub of the external python-rtmidi package -----------------------------
stub = types.ModuleType('rtmidi')
stub.API_UNSPECIFIED = 0
stub.API_RTMIDI_DUMMY = 5
stub.get_compiled_api = lambda: [5]
LOG = []


class _Rt:
    def __init__(self, name=None, rtapi=0):
        self.deleted = False
        self.callback = None

    def get_current_api(self):
        return 5

    def get_ports(self):
        return ['stub port']

    def open_port(self, port_id):
        LOG.append('open')

    def open_virtual_port(self, name):
        LOG.append('open')

    def ignore_types(self, *a):
        pass

    def cancel_callback(self):
        self.callback = None

    def set_callback(self, func):
        self.callback = func

    def close_port(self):
        LOG.append('close_port')

    def delete(self):
        self.deleted = True
        LOG.append('delete')

    def send_message(self, data):
        LOG.append(('send_message', 'DELETED' if self.deleted else 'live'))


stub.MidiIn = _Rt
stub.MidiOut = _Rt
sys.modules['rtmidi'] = stub
# -----------------------------------------------------------------------------

from mido import Message                                   # noqa: E402
from mido.backends import rtmidi as backend                # noqa: E402

bad = False

# send after close
out = backend.Output('stub port')
out.close()
out.close()
print('Output closed:', out.closed, ' device log:', LOG)
try:
    out.send(Message('note_on'))
    print('send() after close(): NO exception; device log tail:', LOG[-1])
    bad = True
except ValueError as err:
    print('send() after close(): ValueError', err)

# receive / iteration after close
inp = backend.Input('stub port')
inp._callback_wrapper(([0x90, 1, 2], 0.0), None)     # the driver delivers
inp.close()
print('Input closed:', inp.closed)
result = {}


def consume():
    try:
        result['got'] = [m.note for m in inp]
    except Exception as err:              # noqa: BLE001
        result['err'] = err


t = threading.Thread(target=consume, daemon=True)
t.start()
t.join(3)
if t.is_alive():
    print('for msg in closed_port: still blocked after 3 s (queue.get() '
          'without any closed check) - iteration never ends')
    bad = True
else:
    print('iteration over closed port finished:', result)

inp2 = backend.Input('stub port')
inp2.close()
t = threading.Thread(target=lambda: result.setdefault('r', inp2.receive()),
                     daemon=True)
t.start()
t.join(2)
if t.is_alive():
    print('receive() on a closed, empty port: blocks forever instead of '
          'raising')
    bad = True

if bad:
    print('VIOLATION (rtmidi backend port type)')
    sys.stdout.flush()
    import os
    os._exit(1)       # daemon threads are stuck in queue.get()
print('no violation observed')
