"""H2: MultiPort / multi_receive never hand out messages that sit in the
queue of a child port that has closed; a blocking MultiPort.receive() hangs
although that message is deliverable.

Clauses: "receive, poll and iteration first hand out every message the port
had already taken in and then stop" and "A blocking receive on any port type,
MultiPort included, returns as soon as a message is deliverable".
"""
import sys
import threading

from mido import Message
from mido.ports import BaseInput, MultiPort, multi_receive


class CallbackFedInput(BaseInput):
    """Input whose device thread puts messages into the port's queue and
    closes the port when the device goes away (the rtmidi style of device:
    messages arrive on a driver thread, not inside _receive)."""
    def _open(self, **kwargs):
        self.released = 0

    def _close(self):
        self.released += 1

    def device_thread(self, notes):
        for n in notes:
            with self._lock:
                self._messages.append(Message('note_on', note=n))
        self.close()                      # device unplugged


def fresh():
    child = CallbackFedInput()
    t = threading.Thread(target=child.device_thread, args=([1, 2, 3],))
    t.start()
    t.join()          # messages arrived, then the device closed itself
    return child


bad = False

# reference: the child on its own drains, then stops
child = fresh()
print('child alone       :', [m.note for m in child], '(closed, drained)')

# multi_receive(block=False)
child = fresh()
got = [m.note for m in multi_receive([child], block=False)]
print('multi_receive     :', got, '- child still holds',
      len(child._messages), 'messages')
bad |= got != [1, 2, 3]

# MultiPort.poll / iter_pending
child = fresh()
multi = MultiPort([child])
got = [m.note for m in multi.iter_pending()]
print('MultiPort pending :', got, '- child still holds',
      len(child._messages), 'messages')
bad |= got != [1, 2, 3]

# blocking MultiPort.receive(): a message is deliverable, yet it never returns
child = fresh()
multi = MultiPort([child])
result = []


def blocking_receive():
    try:
        result.append(multi.receive())
    except OSError:
        pass        # raised when the script closes the MultiPort below


t = threading.Thread(target=blocking_receive, daemon=True)
t.start()
t.join(3)
if t.is_alive():
    print('MultiPort.receive : still blocked after 3 s although',
          len(child._messages), 'messages are waiting in the child')
    bad = True
else:
    print('MultiPort.receive : returned', result)
multi.close()     # lets the blocked thread finish

# the same with library ports only: a SocketPort whose peer sent three
# messages and hung up; one direct receive() takes all three in (and closes
# the port on EOF), the other two are then unreachable through the MultiPort
import socket
import time
from mido.sockets import connect

lst = socket.socket()
lst.bind(('127.0.0.1', 0))
lst.listen(1)
sock_port = connect('127.0.0.1', lst.getsockname()[1])
peer, _ = lst.accept()
for n in (1, 2, 3):
    peer.sendall(bytes(Message('note_on', note=n).bin()))
peer.close()
time.sleep(0.2)
multi = MultiPort([sock_port])
first = sock_port.receive()
got = [m.note for m in multi.iter_pending()]
print(f'SocketPort child  : direct receive gave {first.note}, port closed='
      f'{sock_port.closed}, MultiPort then delivers {got}, child still '
      f'holds {len(sock_port._messages)}')
bad |= got != [2, 3]
lst.close()

if bad:
    print('VIOLATION: messages taken in by a closed child are never '
          'delivered through MultiPort/multi_receive')
    sys.exit(1)
print('no violation observed')
