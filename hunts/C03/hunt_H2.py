"""H2: attribute assignment 'msg.data = value' checks one iteration of value and
stores a SECOND iteration (Message._setattr: check_value(name, value) and then
SysexData(value)).  Whatever the second iteration yields is stored unchecked.

Part A: single-threaded, with a re-iterable whose two iterations differ.
Part B: a plain Python list shared with a second thread; the interleaving
        (other thread appends between check and store) is forced with a trace
        hook on the assigning thread - mido itself is not patched.
Part C: benign symptom of the same double iteration: a generator is accepted
        and silently stored as empty data.
"""
import sys, threading, linecache
from mido import Message

bad = 0

def invalid(msg):
    return any(type(b) is not int or not 0 <= b <= 127 for b in msg.data)

# ---------------- Part A
class TwoFaced:
    """Legal iterable (e.g. a view on a live buffer): every iter() is a fresh pass."""
    def __init__(self, *passes):
        self.passes = list(passes)
    def __iter__(self):
        return iter(self.passes.pop(0) if len(self.passes) > 1 else self.passes[0])

m = Message('sysex', data=[7])
m.data = TwoFaced([1, 2], [999, 'x', None, 1.5])
print('A: after assignment  :', repr(m))
if invalid(m):
    print('A: VIOLATION: data contains out-of-range / non-int items after an ACCEPTED checked assignment')
    bad = 1
# the other entry points are safe against the same object (they convert first, check after)
for label, f in [('ctor', lambda: Message('sysex', data=TwoFaced([1, 2], [999]))),
                 ('copy', lambda: Message('sysex').copy(data=TwoFaced([1, 2], [999]))),
                 ('+=  ', lambda: Message('sysex').__setattr__('data', Message('sysex').data.__iadd__(TwoFaced([1, 2], [999]))))]:
    try:
        r = f(); print('A:', label, 'accepted', r)
    except ValueError as e:
        print('A:', label, 'rejected:', e)

# ---------------- Part B
shared = [1, 2, 3]
go, done = threading.Event(), threading.Event()

def other_thread():
    go.wait(10)
    shared.append(4096)          # perfectly ordinary mutation of a list it owns
    done.set()

def tracer(frame, event, arg):
    code = frame.f_code
    if code.co_name == '_setattr' and code.co_filename.endswith('messages.py'):
        def local(frame, event, arg):
            if event == 'line':
                src = linecache.getline(code.co_filename, frame.f_lineno)
                if 'SysexData(value)' in src and not go.is_set():
                    go.set()          # check_value() has already passed: let the other thread run now
                    done.wait(10)
            return local
        return local
    return None

t = threading.Thread(target=other_thread); t.start()
m2 = Message('sysex')
sys.settrace(tracer)
try:
    m2.data = shared
finally:
    sys.settrace(None)
t.join()
print('B: after assignment  :', repr(m2))
if invalid(m2):
    print('B: VIOLATION: 4096 stored in sysex data; the assignment was accepted')
    bad = 1

# ---------------- Part C
m3 = Message('sysex', data=[9, 9])
m3.data = (b for b in [1, 2, 3])
print('C: generator assigned :', repr(m3), '(accepted, but the bytes are gone)')
m3.data = [5]
m3.data += (b for b in [1, 2, 3])
print('C: generator +=       :', repr(m3))

sys.exit(bad)
