"""H6 (outside the enumerated entry points, inside the title 'checked API'):
Message.from_bytes / from_hex validate the data bytes but never the time argument."""
import sys
from mido import Message
bad = 0
for label, f in [("from_bytes([0x90,1,2], time='x')", lambda: Message.from_bytes([0x90, 1, 2], time='x')),
                 ("from_hex('90 01 02', time=None)", lambda: Message.from_hex('90 01 02', time=None)),
                 ("from_bytes([0xf8], time=[1])", lambda: Message.from_bytes([0xf8], time=[1])),
                 ("from_bytes([0x90, True, 2])", lambda: Message.from_bytes([0x90, True, 2]))]:
    try:
        m = f()
        print(label, '->', repr(m))
        if not isinstance(m.time, (int, float)):
            print('  VIOLATION: time is', type(m.time).__name__)
            bad = 1
            try:
                m.time = m.time
            except TypeError as e:
                print('  (assigning the very same value back is rejected:', e, ')')
    except (TypeError, ValueError) as e:
        print(label, 'rejected', type(e).__name__)
sys.exit(bad)
