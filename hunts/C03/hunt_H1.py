"""H1: Message.from_str / parse_string / parse_string_stream let the *text* switch
the checks off: a word 'skip_checks=1' in the string is forwarded as the
skip_checks keyword of the constructor."""
import sys
import mido
from mido import Message

bad = 0

m = Message.from_str('note_on skip_checks=1 note=999 channel=16 velocity=-1')
print('from_str ->', m, vars(m))
if not (0 <= m.note <= 127) or not (0 <= m.channel <= 15) or not (0 <= m.velocity <= 127):
    print('VIOLATION: out-of-range attributes produced by from_str (no skip_checks passed by caller)')
    bad = 1

m2 = mido.parse_string('clock skip_checks=1 zz=9')
print('parse_string ->', m2, vars(m2))
if 'zz' in vars(m2):
    print('VIOLATION: unknown attribute zz accepted on a clock message')
    bad = 1

res = list(mido.parse_string_stream(['note_on note=300', 'note_on note=300 skip_checks=1']))
print('parse_string_stream ->', res)
if res[0][0] is None and res[1][0] is not None and res[1][0].note == 300:
    print('VIOLATION: same out-of-range value rejected on line 1, accepted on line 2')
    bad = 1

# the message cannot even be encoded/validated afterwards
try:
    print('bytes:', m.bytes())
except Exception as e:
    print('bytes() ->', type(e).__name__, e)

sys.exit(bad)
