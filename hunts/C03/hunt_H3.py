"""H3: Message.copy(data=...) runs bytearray() over the override BEFORE checking,
so ill-typed / out-of-range values that every other entry point rejects are
silently converted into different, valid-looking bytes."""
import sys, array
from mido import Message

base = Message('sysex', data=[1, 2, 3])
bad = 0

def others_reject(v):
    """True if constructor, setattr, from_dict and += all reject v."""
    n = 0
    for f in (lambda: Message('sysex', data=v),
              lambda: setattr(base.copy(), 'data', v),
              lambda: Message.from_dict({'type': 'sysex', 'data': v}),
              lambda: base.copy().data.__iadd__(v)):
        try:
            f()
        except (TypeError, ValueError):
            n += 1
    return n == 4

cases = [
    ('int 5 (ill-typed: not a sequence)', 5),
    ('True (ill-typed)', True),
    ("array('H',[300]) (element 300 out of range)", array.array('H', [300])),
    ("array('i',[16384]) (element out of range)", array.array('i', [16384])),
    ("array('d',[0.0]) (float elements)", array.array('d', [0.0])),
    ("memoryview of array('H',[300])", memoryview(array.array('H', [300]))),
]
for label, v in cases:
    rej = others_reject(v)
    try:
        c = base.copy(data=v)
        print(f'{label}: other entry points reject={rej}; copy -> ACCEPTED {c}')
        if rej:
            bad = 1
    except (TypeError, ValueError) as e:
        print(f'{label}: copy rejected ({type(e).__name__})')

# wrong exception class, and on a message type that has no data attribute at all
for label, f in [("sysex.copy(data=2**64)", lambda: base.copy(data=2**64)),
                 ("note_on.copy(data=2**64)", lambda: Message('note_on').copy(data=2**64))]:
    try:
        f(); print(label, 'ACCEPTED'); bad = 1
    except (ValueError, TypeError, AttributeError) as e:
        print(label, 'rejected with', type(e).__name__)
    except Exception as e:
        print(label, '-> VIOLATION: rejected with', type(e).__name__, '(not ValueError/TypeError/AttributeError):', e)
        bad = 1
# (note_on.copy(data=10**10) would first allocate 10 GB and only then say "no attribute data")
assert vars(base) == {'type': 'sysex', 'time': 0, 'data': (1, 2, 3)}

if bad:
    print('VIOLATION: ill-typed / out-of-range data override not rejected by copy()')
sys.exit(bad)
