"""H4: Message.__init__ can be called again on an existing message. It does
vars(self).update(new_msgdict): the type changes and the attribute set becomes the
union of both types.  Works on FrozenMessage too (and changes its hash)."""
import sys
from mido import Message
from mido.frozen import FrozenMessage

bad = 0
m = Message('note_on', channel=3, note=60)
before = dict(vars(m))
m.__init__('sysex', data=[1, 2])
print('before:', before)
print('after :', vars(m), '->', repr(m))
if m.type != 'note_on' or set(vars(m)) != set(before):
    print('VIOLATION: type changed to %r, attribute set now %s' % (m.type, sorted(vars(m))))
    bad = 1

f = FrozenMessage('note_on', note=5)
h = hash(f)
f.__init__('note_off', note=6)
print('frozen after re-init:', repr(f), 'hash changed:', h != hash(f))
if f.type != 'note_on':
    print('VIOLATION: frozen message changed type/value')
    bad = 1

# a failing re-init leaves the object intact (this part is fine)
m3 = Message('note_on')
try:
    m3.__init__('note_off', note=999)
except ValueError:
    pass
assert m3.type == 'note_on'
sys.exit(bad)
