"""H5 (minor): an unknown / ill-typed *type* attribute is rejected with LookupError,
which is none of ValueError, TypeError, AttributeError."""
import sys
from mido import Message
bad = 0
for label, f in [("Message('bogus')", lambda: Message('bogus')),
                 ('Message(1)', lambda: Message(1)),
                 ('Message(None)', lambda: Message(None)),
                 ("from_dict({'type': 'bogus'})", lambda: Message.from_dict({'type': 'bogus'})),
                 ("from_dict({'type': 1.5})", lambda: Message.from_dict({'type': 1.5})),
                 ("from_str('bogus')", lambda: Message.from_str('bogus'))]:
    try:
        f()
        print(label, 'ACCEPTED'); bad = 1
    except (ValueError, TypeError, AttributeError) as e:
        print(label, '-> ok', type(e).__name__)
    except Exception as e:
        print(label, '-> VIOLATION: raises', type(e).__name__, e, '| mro:', [c.__name__ for c in type(e).__mro__])
        bad = 1
sys.exit(bad)
