"""H3: a genuine sequence of integers that is exactly one well-formed message
is rejected with TypeError; a malformed one gives TypeError, not ValueError.

Clause: "applied to any sequence of integers either returns a message whose
bytes() reproduce the input exactly, or raises ValueError (TypeError for items
that are not integers)".

collections.deque is a registered collections.abc.MutableSequence, all its
items are ints, but it does not support slicing.  decode_message does
`data = msg_bytes[1:]`, so every non-empty deque - well-formed or not - dies
with "TypeError: sequence index must be integer, not 'slice'".
(The docstring of from_bytes even promises "any iterable of integers";
generators / iterators / map objects fail in the same way on len().)
"""
import collections
import collections.abc
import sys

import mido
from mido import Message

print('mido from', mido.__file__)
print('deque is a Sequence:',
      issubclass(collections.deque, collections.abc.Sequence))

violations = 0

wellformed = [[0x90, 60, 64], [0xf8], [0xe3, 1, 2], [0xf2, 1, 2],
              [0xf1, 0x35], [0xf0, 1, 2, 0xf7]]
for raw in wellformed:
    ref = Message.from_bytes(raw)
    assert ref.bytes() == raw
    d = collections.deque(raw)
    try:
        msg = Message.from_bytes(d)
        print(f'ok   {d!r} -> {msg!r}')
    except Exception as e:
        print(f'VIOLATION well-formed {d!r} (all items int) -> '
              f'{type(e).__name__}: {e}   [list form gives {ref!r}]')
        violations += 1

malformed = [[0x90], [0x90, 1], [0x90, 1, 2, 3], [0x10, 1, 2], [0xf0, 1, 2],
             [0x90, 200, 1], [0xf4]]
for raw in malformed:
    try:
        Message.from_bytes(raw)
        raise SystemExit('list form unexpectedly accepted')
    except ValueError:
        pass
    d = collections.deque(raw)
    try:
        msg = Message.from_bytes(d)
        print(f'accepted?! {d!r} -> {msg!r}')
        violations += 1
    except ValueError as e:
        print(f'ok   {d!r} -> ValueError: {e}')
    except Exception as e:
        print(f'VIOLATION malformed {d!r} (all items int) -> '
              f'{type(e).__name__}: {e}   [ValueError required]')
        violations += 1

# Docstring claim "any iterable of integers" (outside the statement's
# "sequence" wording, shown for information only - not counted).
for label, it in [('generator', (b for b in [0x90, 60, 64])),
                  ('iter(list)', iter([0x90, 60, 64])),
                  ('map', map(int, ['144', '60', '64']))]:
    try:
        print('info', label, '->', Message.from_bytes(it))
    except Exception as e:
        print(f'info {label} -> {type(e).__name__}: {e}')

print('violations:', violations)
sys.exit(1 if violations else 0)
