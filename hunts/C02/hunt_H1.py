"""H1: from_bytes RETURNS A MESSAGE for input containing non-integer items.

Clause: "... or raises ValueError (TypeError for items that are not integers)"
and "returns a message whose bytes() reproduce the input exactly".

The status byte (and the sysex end byte) are never type-checked: the status is
only used as a dict key / compared with ==, so any non-integer that hashes and
compares equal to a defined status (float, Fraction, Decimal, complex) is
accepted.  Data bytes ARE type-checked (check_data), so [0x90, 1.0, 2] is
correctly a TypeError - the hole is only first/last item.
"""
import array
import sys
from decimal import Decimal
from fractions import Fraction

import mido
from mido import Message
from mido.frozen import FrozenMessage

print('mido from', mido.__file__)

inputs = [
    [248.0],                       # clock
    [246.0],                       # tune_request
    [Fraction(250)],               # start
    [Decimal(252)],                # stop
    [254 + 0j],                    # active_sensing
    [241.0, 0x35],                 # quarter_frame
    [242.0, 1, 2],                 # songpos
    [243.0, 5],                    # song_select
    [240.0, 1, 2, 247],            # sysex, float start
    [240, 1, 2, 247.0],            # sysex, float end
    [240, Fraction(247)],          # empty sysex, Fraction end
    array.array('d', [248.0]),     # a typed sequence of floats
]

violations = 0
for cls in (Message, FrozenMessage):
    for inp in inputs:
        try:
            msg = cls.from_bytes(inp)
        except TypeError as e:
            print(f'ok   {cls.__name__}.from_bytes({inp!r}) -> TypeError: {e}')
            continue
        except Exception as e:
            print(f'??   {cls.__name__}.from_bytes({inp!r}) -> '
                  f'{type(e).__name__}: {e}')
            continue
        out = msg.bytes()
        exact = (len(out) == len(inp)
                 and all(type(a) is type(b) and a == b
                         for a, b in zip(out, inp)))
        print(f'VIOLATION {cls.__name__}.from_bytes({inp!r}) returned {msg!r}; '
              f'bytes()={out!r}; reproduces input exactly: {exact}')
        violations += 1

# For contrast: the same kind of item in a data position, or as a channel
# status, is rejected with TypeError.
for inp in ([0x90, 1.0, 2], [144.0, 1, 2]):
    try:
        Message.from_bytes(inp)
        print('contrast: accepted', inp)
    except Exception as e:
        print(f'contrast: from_bytes({inp!r}) -> {type(e).__name__}: {e}')

print('violations:', violations)
sys.exit(1 if violations else 0)
