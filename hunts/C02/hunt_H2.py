"""H2: non-integer first / sysex-end item gives ValueError, not TypeError.

Clause: "raises ValueError (TypeError for items that are not integers)".

A non-integer in a DATA position gives TypeError ("data byte must be int"),
as the statement says.  The same item in the STATUS position (or as the last
item of a sysex) is reported as ValueError ("invalid status byte 'a'"),
because decode_message turns the KeyError of the status lookup into ValueError
without looking at the type.
"""
import sys

import mido
from mido import Message

print('mido from', mido.__file__)

inputs = [
    ['a'],
    [None],
    [b'\x90', 1, 2],
    ['144', 1, 2],
    [(0x90,), 1, 2],
    [143.5, 1, 2],
    [float('nan')],
    'abc',                                   # str: items are 1-char strings
    memoryview(b'\x90\x01\x02').cast('c'),   # items are bytes objects
    [0xf0, 1, 'x'],                          # sysex end item
    [0xf0, 1, None],
    [0xf0, 1, 247.5],
]

violations = 0
for inp in inputs:
    try:
        msg = Message.from_bytes(inp)
        print(f'accepted?! {inp!r} -> {msg!r}')
        violations += 1
    except TypeError as e:
        print(f'ok   from_bytes({inp!r}) -> TypeError: {e}')
    except ValueError as e:
        print(f'VIOLATION from_bytes({inp!r}) -> ValueError: {e}   '
              f'(item is not an integer: TypeError required)')
        violations += 1

# contrast
try:
    Message.from_bytes([0x90, 'a', 2])
except Exception as e:
    print(f'contrast: from_bytes([0x90, "a", 2]) -> {type(e).__name__}: {e}')

print('violations:', violations)
sys.exit(1 if violations else 0)
