"""H1: an iterator obtained from iter(parser) dies for good the first time it
is polled while the parser is empty; messages fed afterwards never come out of
it although pending() > 0.  So the sequence obtained by "iteration interleaved
with feeding" depends on how the stream was chunked.

Run: PYTHONPATH=/tmp/seed_C05 timeout 120 /venv/bin/python hunt_H1.py
"""
import sys

import mido
from mido.parser import Parser



STREAM = [0x90, 1, 2, 0x90, 3, 4, 0x90, 5, 6]


def consume(chunks):
    """One consumer, one iterator, polled to exhaustion after every feed."""
    p = Parser()
    it = iter(p)
    got = []
    for chunk in chunks:
        p.feed(chunk)
        for msg in it:          # iteration interleaved with feeding
            got.append(msg.bytes())
    return got, p.pending()


all_at_once, left_a = consume([STREAM])
per_message, left_b = consume([STREAM[0:3], STREAM[3:6], STREAM[6:9]])
mid_message, left_c = consume([STREAM[0:4], STREAM[4:9]])

print('all at once      ->', all_at_once, 'left pending:', left_a)
print('cut per message  ->', per_message, 'left pending:', left_b)
print('cut inside msg 2 ->', mid_message, 'left pending:', left_c)

# control: the very same history with get_message() is chunk independent
p = Parser()
ctl = []
for chunk in [STREAM[0:3], STREAM[3:6], STREAM[6:9]]:
    p.feed(chunk)
    while (m := p.get_message()) is not None:
        ctl.append(m.bytes())
print('control (get_message) ->', ctl)

violated = not (all_at_once == per_message == mid_message)
print('VIOLATION' if violated else 'no violation')
sys.exit(1 if violated else 0)
