"""H2: iteration over the queue-backed variant (ParserQueue.__iter__) removes
the oldest message, throws it away and raises TypeError; on an empty queue it
blocks forever.

Run: PYTHONPATH=/tmp/seed_C05 timeout 120 /venv/bin/python hunt_H2.py
"""
import sys

import mido
from mido.backends._parser_queue import ParserQueue



q = ParserQueue()
q.put_bytes([0x90, 1, 2])        # chunk 1
q.put_bytes([0x90, 3])           # chunk 2 (cut inside 2nd message)
q.put_bytes([4, 0x90, 5, 6])     # chunk 3
expected = [[0x90, 1, 2], [0x90, 3, 4], [0x90, 5, 6]]

got = []
err = None
try:
    for msg in q:                # "iteration"
        got.append(msg.bytes())
        break
except TypeError as e:
    err = e
print('iteration raised:', repr(err))
rest = [m.bytes() for m in q.iterpoll()]
print('obtained by iteration:', got)
print('still retrievable    :', rest)
print('expected in total    :', expected)
violated = (got + rest) != expected
print('VIOLATION (first message lost)' if violated else 'no violation')
sys.exit(1 if violated else 0)
