"""H3: when a feed() call ends with an exception, the messages completed by the
bytes it already consumed are kept back inside the tokenizer: pending() == 0
and get_message() is None although the same bytes fed with feed_byte() (or in
any other chunking) give pending() == 1.  They only appear at the next
feed()/feed_byte() call, whenever that is.

Run: PYTHONPATH=/tmp/seed_C05 timeout 120 /venv/bin/python hunt_H3.py
"""
import sys

import mido
from mido.parser import Parser
from mido.backends._parser_queue import ParserQueue




class Source:
    """A device/socket double: yields the bytes it has, then times out."""
    def __init__(self, data):
        self.data = list(data)

    def __iter__(self):
        while self.data:
            yield self.data.pop(0)
        raise TimeoutError('no more data right now')


BYTES = [0x90, 1, 2]            # a valid byte stream: exactly one note_on

# (a) one at a time
a = Parser()
for b in BYTES:
    a.feed_byte(b)
print('feed_byte x3     : pending =', a.pending())

# (b) one chunk whose iterable fails after the last byte was delivered
b_ = Parser()
try:
    b_.feed(Source(BYTES))
except TimeoutError as e:
    print('feed(Source)     : raised', repr(e))
pb = b_.pending()
gb = b_.get_message()
print('feed(Source)     : pending =', pb, ' get_message() =', gb,
      ' hidden in tokenizer =', len(b_._tok))

# (c) same with an invalid trailing element (not a byte stream any more,
#     shown only because it is the more common way to hit the path)
c = Parser()
try:
    c.feed(BYTES + [256])
except ValueError as e:
    print('feed([...,256])  : raised', repr(e))
print('feed([...,256])  : pending =', c.pending())

# (d) queue-backed variant
q = ParserQueue()
try:
    q.put_bytes(Source(BYTES))
except TimeoutError:
    pass
pq = q.poll()
print('ParserQueue      : poll() =', pq)

# the message shows up only with the next feeding call
b_.feed([])
print('after feed([])   : pending =', b_.pending())

violated = (a.pending() == 1) and (pb == 0 and gb is None)
print('VIOLATION' if violated else 'no violation')
sys.exit(1 if violated else 0)
