"""H1: smpte_offset hours 32..255 are documented (0..255) and accepted, but do not
survive encode -> decode: the hour bits overflow into the frame-rate bits."""
import io, struct, sys
from mido import MetaMessage, MidiFile

def via_track(bs):
    trk = b'\x00' + bytes(bs)
    f = (b'MThd' + struct.pack('>Lhhh', 6, 0, 1, 480)
         + b'MTrk' + struct.pack('>L', len(trk)) + trk)
    return MidiFile(file=io.BytesIO(f)).tracks[0][0]

wrong = crashed = 0
for rate in (24, 25, 29.97, 30):
    for hours in range(256):
        m = MetaMessage('smpte_offset', frame_rate=rate, hours=hours)  # accepted
        b = m.bytes()
        for how, dec in (('from_bytes', MetaMessage.from_bytes), ('track', via_track)):
            try:
                d = dec(b)
            except Exception as e:
                crashed += 1
                if hours in (128, 255) and rate == 24:
                    print(f'{how}: rate={rate} hours={hours} bytes={b} -> {type(e).__name__}({e})')
                continue
            if d != m:
                wrong += 1
                if hours in (32, 100) and rate in (24, 30):
                    print(f'{how}: {m!r}\n   bytes={b}\n   decoded {d!r}')
print(f'accepted smpte_offset messages decoded to a DIFFERENT message: {wrong}')
print(f'accepted smpte_offset messages whose own bytes cannot be decoded (KeyError): {crashed}')
sys.exit(1 if (wrong or crashed) else 0)
