"""H2: sequencer_specific with the documented default ([]) or any list value does not
decode to an equal message (decode yields a tuple, [] != ()); the default list is
also one shared mutable object."""
import io, struct, sys
from mido import MetaMessage, MidiFile

def via_track(bs):
    trk = b'\x00' + bytes(bs)
    f = (b'MThd' + struct.pack('>Lhhh', 6, 0, 1, 480)
         + b'MTrk' + struct.pack('>L', len(trk)) + trk)
    return MidiFile(file=io.BytesIO(f)).tracks[0][0]

fail = 0
for m in (MetaMessage('sequencer_specific'),
          MetaMessage('sequencer_specific', data=[1, 2, 3]),
          MetaMessage('sequencer_specific', data=bytes([1, 2, 3])),
          MetaMessage('sequencer_specific', data=bytearray([1, 2, 3]))):
    b = m.bytes()
    d1 = MetaMessage.from_bytes(b)
    d2 = via_track(b)
    print(f'{m!r}  bytes={b}\n   from_bytes -> {d1!r}  equal={d1 == m}\n   track      -> {d2!r}  equal={d2 == m}')
    fail += (d1 != m) + (d2 != m)

# related: the default [] is shared between all messages and the spec
a = MetaMessage('sequencer_specific')
a.data.append(999)
fresh = MetaMessage('sequencer_specific')
print('fresh default message after mutating another message in place:', fresh, fresh.bytes())
fail += fresh.data != []
a.data.clear()
sys.exit(1 if fail else 0)
