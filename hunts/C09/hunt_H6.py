"""H6: UnknownMetaMessage (MetaMessage subclass, same bytes()/from_bytes mechanism)
checks nothing: non-byte type_byte/data are accepted and emitted, and a known type_byte
encodes to bytes that decode to a different message or crash the decoder."""
import sys
from mido import MetaMessage
from mido.midifiles.meta import UnknownMetaMessage

fail = 0
for kw in (dict(type_byte=0x60, data=[300]), dict(type_byte=300), dict(type_byte=-1, data=[1.5]),
           dict(type_byte=0x58, data=[4, 2, 24, 8]), dict(type_byte=0x51, data=[1]),
           dict(type_byte=0x59, data=[9, 9])):
    u = UnknownMetaMessage(**kw)            # accepted
    b = u.bytes()
    nonbytes = [x for x in b if not (isinstance(x, int) and 0 <= x <= 255)]
    try:
        d = MetaMessage.from_bytes(b)
        res = f'decoded {d!r} equal={d == u}'
        bad = bool(nonbytes) or d != u
    except Exception as e:
        res = f'decode -> {type(e).__name__}: {e}'
        bad = True
    print(f'{u!r} bytes={b} non-byte={nonbytes}; {res}')
    fail += bad
sys.exit(1 if fail else 0)
