"""H3: sequencer_specific 'data' is not checked at all: non-byte items are accepted
and encoded verbatim, so the payload is not a sequence of bytes (or bytes() crashes)."""
import sys
from mido import MetaMessage

fail = 0
for data in ((256,), (-1,), (1.5,), 'abc', ('x',), (None,), [[1]], (2**70,)):
    m = MetaMessage('sequencer_specific', data=data)       # should be ValueError/TypeError
    b = m.bytes()
    nonbytes = [x for x in b if not (isinstance(x, int) and 0 <= x <= 255)]
    print(f'data={data!r} ACCEPTED; bytes()={b}; non-byte items={nonbytes}')
    fail += bool(nonbytes)
    try:
        bytearray(b)
    except Exception as e:
        print(f'   bytearray(bytes()) -> {type(e).__name__}: {e}')
for data in (None, 5):
    m = MetaMessage('sequencer_specific', data=data)       # accepted
    try:
        m.bytes()
    except Exception as e:
        print(f'data={data!r} ACCEPTED; bytes() -> {type(e).__name__}: {e}')
        fail += 1
# same hole through attribute assignment
m = MetaMessage('sequencer_specific', data=(1,))
m.data = (1000,)
print('assignment m.data=(1000,) accepted; bytes =', m.bytes())
fail += 1
sys.exit(1 if fail else 0)
