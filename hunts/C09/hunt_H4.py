"""H4: text/name values are documented as 'string' and any str is accepted, but a str
with a character outside the current charset (default latin1) cannot be encoded:
bytes() and MidiFile.save raise UnicodeEncodeError long after the constructor accepted it."""
import io, sys
from mido import MetaMessage, MidiFile, MidiTrack

fail = 0
for t, a in (('text', 'text'), ('copyright', 'text'), ('track_name', 'name'),
             ('instrument_name', 'name'), ('lyrics', 'text'), ('marker', 'text'),
             ('cue_marker', 'text'), ('device_name', 'name')):
    for s in ('€', 'naïve 中', 'Ā', '\udc80'):
        m = MetaMessage(t, **{a: s})            # accepted, no error
        try:
            b = m.bytes()
            print(t, repr(s), 'encoded', b)
        except Exception as e:
            fail += 1
            if t == 'text':
                print(f'{m!r} accepted; bytes() -> {type(e).__name__}: {e}')
mf = MidiFile()
mf.tracks.append(MidiTrack([MetaMessage('track_name', name='Łódź')]))
try:
    mf.save(file=io.BytesIO())
except Exception as e:
    print(f'MidiFile.save -> {type(e).__name__}: {e}')
    fail += 1
print('accepted-but-unencodable messages:', fail)
sys.exit(1 if fail else 0)
