"""H5: the text charset is a process-global (mido.midifiles.meta._charset) swapped by
MidiFile load/save through meta_charset().  (a) While another thread is inside a
MidiFile load with charset='utf-16', MetaMessage.bytes() of an unrelated message uses
utf-16.  (b) Two overlapping loads that finish in non-LIFO order leave the global stuck
on a foreign charset for good, after which bytes() of a plain latin1 text no longer
reads back equal from a track.  The interleaving is forced with events inside my own
file-object double; mido is not patched."""
import io, struct, sys, threading
from mido import MetaMessage, MidiFile
from mido.midifiles import meta

HDR = b'MThd' + struct.pack('>Lhhh', 6, 0, 1, 480)

def filebytes(bs):
    trk = b'\x00' + bytes(bs)
    return HDR + b'MTrk' + struct.pack('>L', len(trk)) + trk

class GatedFile(io.BytesIO):
    """First read() announces that the load has started, then waits for release."""
    def __init__(self, data):
        super().__init__(data)
        self.entered = threading.Event()
        self.release = threading.Event()

    def read(self, n=-1):
        if not self.entered.is_set():
            self.entered.set()
            assert self.release.wait(10)
        return super().read(n)

fail = 0
data = filebytes(MetaMessage('end_of_track').bytes())
fa, fb = GatedFile(data), GatedFile(data)
ta = threading.Thread(target=lambda: MidiFile(file=fa, charset='utf-8'))
tb = threading.Thread(target=lambda: MidiFile(file=fb, charset='utf-16'))
print('charset before            :', meta._charset)
ta.start(); assert fa.entered.wait(10)      # A is inside meta_charset('utf-8')
tb.start(); assert fb.entered.wait(10)      # B is inside meta_charset('utf-16')

m = MetaMessage('text', text='abc')
b = m.bytes()
print('(a) main thread, loads pending:', m, '->', b)
if b != [0xff, 0x01, 0x03, 0x61, 0x62, 0x63]:
    fail += 1

fa.release.set(); ta.join(10)               # A restores 'latin1'
fb.release.set(); tb.join(10)               # B restores what it saw: 'utf-8'
print('charset after both loads  :', meta._charset)

m = MetaMessage('text', text='\xe9')        # plain latin1 text
b = m.bytes()
d = MidiFile(file=io.BytesIO(filebytes(b))).tracks[0][0]
print('(b) no load in progress   :', m, '->', b, '-> read from track ->', d, 'equal:', d == m)
if d != m:
    fail += 1
sys.exit(1 if fail else 0)
