"""H3: a line with a duplicated attribute is silently accepted (last one wins)
by parse_string / parse_string_stream."""
import sys
import mido

bad = False
for text in ['note_on channel=1 channel=2', 'clock time=1 time=2',
             'sysex data=(1) data=(2,3)', 'note_on note=999 note=5']:
    try:
        m = mido.parse_string(text)
        print('%r -> accepted as %r' % (text, m))
        bad = True
    except ValueError as e:
        print('%r -> ValueError: %s' % (text, e))
res = list(mido.parse_string_stream(['note_on note=1', 'note_on note=1 note=2']))
print('stream:', res)
if res[1][1] is None:
    bad = True
sys.exit(1 if bad else 0)
