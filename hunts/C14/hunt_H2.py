"""H2: the unknown attribute 'skip_checks' is not rejected by parse_string; it is
passed to Message.__init__ as the skip_checks option, so the rest of the line
is not validated at all and an invalid message is returned."""
import sys
import mido
from mido.messages.checks import check_msgdict

bad = False
texts = [
    'note_on skip_checks=0',                     # unknown attribute, accepted
    'note_on skip_checks=1 channel=99 note=999',  # out of range values accepted
    'sysex skip_checks=1 data=(999,-5)',          # bad data bytes accepted
    'clock skip_checks=1 foo=3 velocity=7',       # unknown attributes stored
]
for text in texts:
    try:
        m = mido.parse_string(text)
    except ValueError as e:
        print('%r -> ValueError (as claimed): %s' % (text, e))
        continue
    bad = True
    try:
        check_msgdict(vars(m))
        verdict = 'attributes pass check_msgdict, but the text has an unknown attribute'
    except Exception as e:
        verdict = 'returned message is INVALID: %s' % e
    print('%r -> no ValueError; vars=%r; %s' % (text, vars(m), verdict))

res = list(mido.parse_string_stream(['note_on skip_checks=1 note=999']))
print('stream:', res)
if res and res[0][1] is None:
    bad = True
    print('stream reported the line as a good message instead of (None, "line 1: ...")')

sys.exit(1 if bad else 0)
