"""H6 (weaker): UnknownMetaMessage.__repr__ prints only type_byte, data, time.
State reachable through the public constructor / attribute assignment is lost."""
import sys
from mido.midifiles.meta import UnknownMetaMessage

bad = False
u1 = UnknownMetaMessage(0x10, [1], type='my_meta')      # constructor parameter
u2 = UnknownMetaMessage(0x10, [1]); u2.data = [1, 2]     # unchecked setattr keeps the list
for u in (u1, u2):
    r = eval(repr(u))
    print(repr(u), '| vars:', vars(u), '| eval(repr) vars:', vars(r), '| equal:', r == u)
    if not (r == u):
        bad = True
sys.exit(1 if bad else 0)
