"""H5 (weaker): messages that the constructor accepts with full checks but
whose text form does not round-trip: bool attribute values (bool is Integral
and Real) and ints with more than 4300 digits (Python 3.11+ str() limit)."""
import sys
from mido import Message

bad = False


def attempt(label, m, f):
    global bad
    try:
        r = f()
        ok = (r == m)
        print('%-28s -> %s' % (label, 'equal' if ok else 'NOT equal: %r' % (r,)))
    except Exception as e:
        ok = False
        print('%-28s -> %s: %s' % (label, type(e).__name__, str(e)[:70]))
    if not ok:
        bad = True


for m in [Message('clock', time=True), Message('note_on', channel=True),
          Message('sysex', data=[True, False])]:
    print('message:', repr(m), '| str:', str(m))
    attempt('  from_str(str(m))', m, lambda: Message.from_str(str(m)))
    attempt('  from_dict(m.dict())', m, lambda: Message.from_dict(m.dict()))
    attempt('  eval(repr(m))', m, lambda: eval(repr(m)))

m = Message('clock', time=10 ** 5000)
print('message: clock with time=10**5000 (finite, "very large")')
attempt('  from_str(str(m))', m, lambda: Message.from_str(str(m)))
attempt('  from_dict(m.dict())', m, lambda: Message.from_dict(m.dict()))
attempt('  eval(repr(m))', m, lambda: eval(repr(m)))
sys.exit(1 if bad else 0)
