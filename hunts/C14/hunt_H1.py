"""H1: parse_string raises TypeError (not ValueError) for an unknown attribute
named 'self'; parse_string_stream dies on such a line instead of reporting
(None, error) and carrying on."""
import sys
import mido

bad = False

text = 'note_on self=1'
try:
    r = mido.parse_string(text)
    print('parse_string(%r) returned %r' % (text, r))
    bad = True
except ValueError as e:
    print('parse_string(%r): ValueError (as claimed): %s' % (text, e))
except Exception as e:
    print('parse_string(%r): %s (NOT ValueError): %s' % (text, type(e).__name__, e))
    bad = True

lines = ['note_on note=1', '# comment', '', 'note_on self=1', 'note_off note=1']
got = []
gen = mido.parse_string_stream(lines)
try:
    for item in gen:
        got.append(item)
    print('stream yielded', got)
except Exception as e:
    print('stream yielded', got, 'and then ABORTED with %s: %s' % (type(e).__name__, e))
    print('items after the abort:', list(gen), '(the note_off on line 5 is lost)')
    bad = True

if len(got) != 3 or got[1][0] is not None or 'line 4' not in str(got[1][1]):
    print('expected 3 items: msg, (None, "line 4: ..."), msg')
    bad = True

sys.exit(1 if bad else 0)
