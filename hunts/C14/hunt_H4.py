"""H4: eval(repr(f)) does not equal f for whole files: MidiFile has no __eq__
(== is identity, always False), and repr drops charset/clip so the rebuilt
file is observably different (cannot even be saved)."""
import io
import sys
from mido import Message, MetaMessage, MidiFile, MidiTrack  # noqa: F401

bad = False
f = MidiFile(type=1, ticks_per_beat=96,
             tracks=[MidiTrack([Message('note_on', note=1, time=2)])])
g = eval(repr(f))
print('plain file: eval(repr(f)) == f ->', g == f,
      '| tracks equal:', g.tracks == f.tracks,
      '| type/tpb equal:', (g.type, g.ticks_per_beat) == (f.type, f.ticks_per_beat))
if not (g == f):
    bad = True

f = MidiFile(charset='utf-8',
             tracks=[MidiTrack([MetaMessage('track_name', name='日本')])])
buf = io.BytesIO()
f.save(file=buf)
print('utf-8 file saves fine: %d bytes' % len(buf.getvalue()))
print('repr:', repr(f).replace('\n', ' '))
g = eval(repr(f))
print('charset of original / rebuilt:', f.charset, '/', g.charset)
if g.charset != f.charset:
    bad = True
try:
    buf2 = io.BytesIO()
    g.save(file=buf2)
    print('rebuilt file saved; same bytes:', buf2.getvalue() == buf.getvalue())
except Exception as e:
    print('rebuilt file cannot be saved: %s: %s' % (type(e).__name__, e))
    bad = True
sys.exit(1 if bad else 0)
