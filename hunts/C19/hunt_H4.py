"""H4 (interpretation dependent): the messages returned are equal to the
written sysex messages only in `data`; `time` is reset to 0, and because
Message.__eq__ compares time, `read_back == sysex_messages_of_list` is False
for any sysex with time != 0 (typical for sysex taken from a MidiTrack)."""
import os, sys, tempfile
import mido
from mido import Message, MidiFile, MidiTrack

d = tempfile.mkdtemp()
p = os.path.join(d, 'h4.syx')
mf = MidiFile(); tr = MidiTrack(); mf.tracks.append(tr)
tr += [Message('sysex', data=[1, 2, 3], time=10), Message('note_on', time=5), Message('sysex', data=[], time=3)]
mp = os.path.join(d, 'h4.mid'); mf.save(mp)
track = MidiFile(mp).tracks[0]
expected = [m for m in track if m.type == 'sysex']
violations = 0
for plaintext in (False, True):
    mido.write_syx_file(p, track, plaintext=plaintext)
    got = mido.read_syx_file(p)
    print(f'plaintext={plaintext}\n  written sysex: {expected}\n  read back    : {got}')
    print('  data equal:', [g.data for g in got] == [e.data for e in expected], '  messages equal (==):', got == expected)
    assert [g.data for g in got] == [e.data for e in expected]
    if got != expected:
        violations += 1
print('violations (message inequality because of time):', violations)
sys.exit(1 if violations else 0)
