"""H3: write_syx_file selects messages by `m.type == 'sysex'`, not by being a
sysex Message.  UnknownMetaMessage takes `type` as a public constructor
argument (and has an unchecked __setattr__), so a meta message whose type name
is 'sysex' is NOT dropped on writing: its FF .. bytes go into the file.
Binary: the file now starts with 0xFF, so reading the file that mido itself
wrote raises ValueError and the real sysex in the list is lost.
Plain text: the meta bytes are written too (file is polluted; FF is parsed as
'reset' on reading and dropped)."""
import os, sys, tempfile
import mido
from mido import Message
from mido.midifiles.meta import UnknownMetaMessage

d = tempfile.mkdtemp()
p = os.path.join(d, 'h3.syx')
meta = UnknownMetaMessage(0x10, data=[1, 2], type='sysex')
real = Message('sysex', data=[5])
msgs = [meta, real]
print('list:', msgs, ' isinstance(meta, Message) =', isinstance(meta, Message), ' meta.is_meta =', meta.is_meta)
violations = 0
for plaintext in (False, True):
    mido.write_syx_file(p, msgs, plaintext=plaintext)
    raw = open(p, 'rb').read()
    try:
        got = mido.read_syx_file(p)
    except Exception as e:          # noqa
        got = e
    print(f'plaintext={plaintext}: file={raw!r} read -> {got!r}')
    if raw not in (bytes(real.bin()), (real.hex() + '\n').encode()):
        print('   non-sysex (meta) message was written to the file')
        violations += 1
    if got != [real]:
        print('   read back differs from [sysex data=(5,)]')
        violations += 1
print('violations:', violations)
sys.exit(1 if violations else 0)
