"""H1: a BINARY syx file in which a non-sysex message precedes the first sysex
is not read with "other messages dropped": read_syx_file raises ValueError,
because the format is detected by `data[0] == 240` only and everything else is
hex-decoded as text.  The same messages AFTER the sysex, or the same bytes in
the plain-text format, are dropped as claimed."""
import os, sys, tempfile
import mido
from mido import Message

d = tempfile.mkdtemp()
p = os.path.join(d, 'h1.syx')
sysex = Message('sysex', data=[1, 2, 3])
violations = 0

def read(raw):
    with open(p, 'wb') as f:
        f.write(raw)
    try:
        return mido.read_syx_file(p)
    except Exception as e:            # noqa
        return e

for name, other in [('clock', Message('clock')),
                    ('active_sensing', Message('active_sensing')),
                    ('note_on', Message('note_on', note=64, velocity=64)),
                    ('program_change', Message('program_change', program=5))]:
    lead = bytes(other.bin() + sysex.bin())      # other message first
    trail = bytes(sysex.bin() + other.bin())     # other message last
    text = (other.hex() + '\n' + sysex.hex() + '\n').encode()   # same, text format
    r_lead, r_trail, r_text = read(lead), read(trail), read(text)
    print(f'{name:15s} binary, other first : {lead!r:32} -> {r_lead!r}')
    print(f'{"":15s} binary, other last  : {trail!r:32} -> {r_trail!r}')
    print(f'{"":15s} text,   other first : {text!r:32} -> {r_text!r}')
    assert r_trail == [sysex] and r_text == [sysex]
    if r_lead != [sysex]:
        violations += 1

print('violations:', violations)
sys.exit(1 if violations else 0)
