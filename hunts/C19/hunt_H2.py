r"""H2: a BINARY file that contains only complete, valid NON-sysex messages and
no sysex at all is read back as a list containing a sysex message.

bytes A0 46 30 A0 46 37 = polytouch(ch0,note 0x46,value 0x30), polytouch(ch0,note 0x46,value 0x37)
First byte != 0xF0 -> treated as text; latin-1 0xA0 (NBSP) and 0x85 (NEL) match
r'\s', the rest spells "F0 F7" -> phantom Message('sysex', data=())."""
import os, sys, tempfile
import mido

d = tempfile.mkdtemp()
p = os.path.join(d, 'h2.syx')
violations = 0
cases = {
    'two polytouch':            bytes([0xA0, 0x46, 0x30, 0xA0, 0x46, 0x37]),
    'polytouch x4 (data 1,2)':  bytes([0xA0, 0x46, 0x30, 0xA0, 0x30, 0x31, 0xA0, 0x30, 0x32, 0xA0, 0x46, 0x37]),
    'two note_off ch5':         bytes([0x85, 0x46, 0x30, 0x85, 0x46, 0x37]),
}
for name, raw in cases.items():
    parsed = mido.parse_all(raw)
    assert parsed and all(m.type != 'sysex' for m in parsed)
    assert b''.join(bytes(m.bin()) for m in parsed) == raw      # the file is exactly these messages
    with open(p, 'wb') as f:
        f.write(raw)
    try:
        got = mido.read_syx_file(p)
    except Exception as e:           # noqa
        got = e
    print(f'{name}: file = {raw.hex(" ")}')
    print('   messages in file :', parsed)
    print('   read_syx_file    :', got, '(expected [])')
    if got != []:
        violations += 1
print('violations:', violations)
sys.exit(1 if violations else 0)
