"""H1: explicit api= keyword combined with a 'module/API' backend name
(given as argument or through MIDO_BACKEND) leaves the '/API' suffix glued to
the module name, so the backend can never be imported.

Run: PYTHONPATH=/tmp/seed_C20 timeout 120 /venv/bin/python hunt_H1.py
Exits 1 when the violation is observed.
"""
import os
import sys
import types

for v in ('MIDO_BACKEND', 'MIDO_DEFAULT_INPUT', 'MIDO_DEFAULT_OUTPUT',
          'MIDO_DEFAULT_IOPORT'):
    os.environ.pop(v, None)

import mido  # noqa: E402
from mido import ports  # noqa: E402
from mido.backends.backend import Backend  # noqa: E402

print('mido from', mido.__file__)

LOG = []

# A recording fake backend module (our own double, mido is untouched).
fake = types.ModuleType('hunt_fake_backend')


class Input(ports.BaseInput):
    def _open(self, **kw):
        LOG.append(('Input', self.name, kw.get('api')))


class Output(ports.BaseOutput):
    def _open(self, **kw):
        LOG.append(('Output', self.name, kw.get('api')))


def get_devices(**kw):
    LOG.append(('get_devices', kw.get('api')))
    return [{'name': 'A', 'is_input': True, 'is_output': True}]


fake.Input, fake.Output, fake.get_devices = Input, Output, get_devices
sys.modules['hunt_fake_backend'] = fake

violations = 0


def attempt(label, make_backend):
    global violations
    LOG.clear()
    try:
        b = make_backend()
        print(f'{label}: name={b.name!r} api={b.api!r}')
        b.open_input('P')
        b.get_input_names()
        print('   calls seen by the module:', LOG)
        ok = LOG == [('Input', 'P', 'JACK'), ('get_devices', 'JACK')]
        if not ok:
            violations += 1
            print('   VIOLATION: wrong api reached the module')
    except Exception as e:
        violations += 1
        print(f'   VIOLATION: {type(e).__name__}: {e}')


# control: suffix only, keyword only -> both fine
LOG.clear()
Backend('hunt_fake_backend/JACK').open_input('P')
Backend('hunt_fake_backend', api='JACK').open_input('P')
print('controls:', LOG)
assert LOG == [('Input', 'P', 'JACK')] * 2

# (a) explicit 'module/API' name + explicit api keyword
attempt("Backend('hunt_fake_backend/ALSA', api='JACK')",
        lambda: Backend('hunt_fake_backend/ALSA', api='JACK'))

# (b) MIDO_BACKEND='module/API' in the environment + explicit api keyword:
#     "an explicit ... api beats the environment"
os.environ['MIDO_BACKEND'] = 'hunt_fake_backend/ALSA'
attempt("MIDO_BACKEND='hunt_fake_backend/ALSA'; Backend(api='JACK')",
        lambda: Backend(api='JACK'))

# (c) same through the top-level functions
LOG.clear()
try:
    mido.set_backend(Backend(api='JACK'))
    mido.open_input('P')
    print('top level:', LOG)
    if LOG != [('Input', 'P', 'JACK')]:
        violations += 1
except Exception as e:
    violations += 1
    print(f'mido.open_input after set_backend: VIOLATION {type(e).__name__}: {e}')

print('violations:', violations)
sys.exit(1 if violations else 0)
