"""H2 (boundary): an explicitly given but falsy port name ('' - which is the
BaseInput/BaseOutput default value for name) is overridden by the environment
in open_ioport when the module has no native IOPort, while the very same
explicit name is honoured by open_input, open_output and by open_ioport on a
module with a native IOPort.

Run: PYTHONPATH=/tmp/seed_C20 timeout 120 /venv/bin/python hunt_H2.py
Exits 1 when the violation is observed.
"""
import os
import sys
import types

for v in ('MIDO_BACKEND', 'MIDO_DEFAULT_INPUT', 'MIDO_DEFAULT_OUTPUT',
          'MIDO_DEFAULT_IOPORT'):
    os.environ.pop(v, None)

import mido  # noqa: E402
from mido import ports  # noqa: E402
from mido.backends.backend import Backend  # noqa: E402

print('mido from', mido.__file__)
LOG = []


def make(modname, native):
    m = types.ModuleType(modname)

    class Input(ports.BaseInput):
        def _open(self, **kw):
            LOG.append(('Input', self.name))

    class Output(ports.BaseOutput):
        def _open(self, **kw):
            LOG.append(('Output', self.name))

    m.Input, m.Output = Input, Output
    if native:
        class IOPort(ports.BaseIOPort):
            def _open(self, **kw):
                LOG.append(('IOPort', self.name))
        m.IOPort = IOPort
    sys.modules[modname] = m


make('hunt_native', True)
make('hunt_wrapped', False)

os.environ['MIDO_DEFAULT_INPUT'] = 'ENV_IN'
os.environ['MIDO_DEFAULT_OUTPUT'] = 'ENV_OUT'

violations = 0
for name in ('', 0):
    print(f'--- explicit name {name!r}')
    LOG.clear()
    Backend('hunt_wrapped').open_input(name)
    Backend('hunt_wrapped').open_output(name)
    Backend('hunt_native').open_ioport(name)
    print('open_input/open_output/native open_ioport :', LOG)
    assert LOG == [('Input', name), ('Output', name), ('IOPort', name)]

    LOG.clear()
    Backend('hunt_wrapped').open_ioport(name)
    print('wrapped open_ioport                        :', LOG)
    if LOG != [('Input', name), ('Output', name)]:
        violations += 1
        print('   VIOLATION: explicit name lost to MIDO_DEFAULT_INPUT/OUTPUT')

print('violations:', violations)
sys.exit(1 if violations else 0)
