"""E5 - sequence / wire-format domain for the MIDI file code (C07, C08, C09, C17).

Abstract values for what travels through a file object:

  VLQ(v)        a variable length quantity holding v (1..n bytes)
  Field(c, v)   a struct field with format code c ('h','H','L','4s',...) holding v
  SeqVar        a symbolic run of bytes (absint)
  ints / AV     single bytes

AFile is an abstract file: in write mode it records what is written (flattened
to the items above); in read mode it serves a prepared item stream.  Summaries
replace the few functions that loop over bits or over a symbolic count
(encode_variable_int, read_variable_int, read_bytes, struct.pack/unpack,
encode_string/decode_string); each summarised function has its own rule that
checks its body (R08.1, R09.6, R17.4).
"""
from __future__ import annotations

import ast
import re

from . import reference
from .absint import (_NO, AbsInt, AbsRaise, ADict, AList, AObj, LenV, Opaque, SeqVar, VAR_MINLEN)
from .bits import AV, Sym
from .fold import ClassRef, FuncRef, Unfoldable
from .model import AnalysisError, Unsupported

META_MOD = 'mido.midifiles.meta'
MF_MOD = 'mido.midifiles.midifiles'
TR_MOD = 'mido.midifiles.tracks'

_counter = [0]


def fresh(prefix):
    _counter[0] += 1
    return f'{prefix}#{_counter[0]}'


class VLQ:
    def __init__(self, value):
        self.value = value
        self.name = fresh('vlq')
        VAR_MINLEN[self.name] = 1

    def size_var(self):
        return self.name

    def __repr__(self):
        return f'VLQ({self.value!r})'


_SIZES = {'h': 2, 'H': 2, 'l': 4, 'L': 4, 'i': 4, 'I': 4, 'b': 1, 'B': 1, 'q': 8, 'Q': 8}


class Field:
    def __init__(self, code, value, order='>'):
        self.code = code
        self.value = value
        self.order = order

    def size_var(self):
        if self.code.endswith('s'):
            return int(self.code[:-1] or 1)
        return _SIZES[self.code]

    def __repr__(self):
        return f'{self.order}{self.code}:{self.value!r}'


def parse_fmt(fmt):
    order = '@'
    if fmt and fmt[0] in '<>=!@':
        order = fmt[0]
        fmt = fmt[1:]
    codes = []
    for n, c in re.findall(r'(\d*)([a-zA-Z?])', fmt):
        if c == 's':
            codes.append(f'{n or 1}s')
        else:
            codes.extend([c] * int(n or 1))
    return order, codes


class StrSym:
    """A symbolic text string."""
    py_type = 'str'

    def __init__(self, name):
        self.name = name
        self.bytes = SeqVar(f'enc({name})', 255)
        self.bytes.text = self

    def __repr__(self):
        return f'str:{self.name}'


class AFile:
    def __init__(self, stream=None, name='file'):
        self.name = name
        self.written = []
        self.stream = list(stream or [])
        self.pos = 0
        self.reads = []
        self.bad = []

    def __repr__(self):
        return f'<AFile {self.name} written={self.written!r} pos={self.pos}/{len(self.stream)}>'

    # -- writing
    def write(self, x, node):
        for it in flatten(x):
            self.written.append(it)

    # -- reading
    def consumed_len(self):
        return size_of(self.stream[:self.pos])

    def read(self, n, node):
        if isinstance(n, AV) and n.is_const:
            n = n.const
        out = []
        if isinstance(n, int):
            need = n
            if getattr(self, 'max_per_read', None):
                need = min(need, self.max_per_read)         # a raw stream: a read may return fewer bytes than asked for
            while need > 0 and self.pos < len(self.stream):
                it = self.stream[self.pos]
                sz = item_size(it)
                if isinstance(sz, int) and sz <= need:
                    out.append(it)
                    self.pos += 1
                    need -= sz
                elif isinstance(it, SeqVar) and it.minlen >= need:
                    # take `need` anonymous elements from the run
                    for _ in range(need):
                        out.append(AV.of_sym(it.sym))
                    self.stream[self.pos] = _shrink(it, need)
                    need = 0
                else:
                    self.bad.append(f'read({n}) does not align with item {it!r}')
                    return Opaque('misaligned read')
            # short read at end of stream: returns what is there (b'' if nothing)
            if not out:
                return b''
            return AList(out, 'bytes')
        if isinstance(n, LenV):
            target = n
            acc = 0
            while self.pos < len(self.stream):
                cur = size_of(out)
                if _len_eq(cur, target):
                    break
                out.append(self.stream[self.pos])
                self.pos += 1
            if not _len_eq(size_of(out), target):
                self.bad.append(f'read({n!r}) does not match the item boundaries of the stream ({out!r})')
                return Opaque('misaligned read')
            return AList(out, 'bytes')
        self.bad.append(f'read of a symbolic amount {n!r}')
        return Opaque('read')


def _shrink(sv, k):
    nv = SeqVar(sv.name + "'" * k, sv.sym.umax, sv.minlen - k)
    nv.sym = sv.sym
    return nv


def _len_eq(a, b):
    if isinstance(a, int) and isinstance(b, int):
        return a == b
    la = a if isinstance(a, LenV) else LenV(a, ())
    lb = b if isinstance(b, LenV) else LenV(b, ())
    return la.const == lb.const and la.vars == lb.vars


def item_size(it):
    if isinstance(it, SeqVar):
        VAR_MINLEN[it.name] = it.minlen
        return it.name
    if hasattr(it, 'size_var'):
        return it.size_var()
    return 1


def size_of(items):
    c = 0
    vs = []
    for it in items:
        s = item_size(it)
        if isinstance(s, int):
            c += s
        else:
            vs.append(s)
    return LenV(c, vs) if vs else c


def flatten(x):
    """Value written to a file -> wire items."""
    if isinstance(x, bytes):
        if len(x) == 4 and x.isalpha():
            return [Field('4s', x)]
        return list(x)
    if isinstance(x, AList):
        out = []
        for it in x.items:
            out.append(it)
        return out
    if isinstance(x, (list, tuple, bytearray)):
        return list(x)
    if isinstance(x, Packed):
        return list(x.fields)
    return [Opaque(f'written {x!r}')]


class Packed(AList):
    def __init__(self, fields):
        AList.__init__(self, fields, 'bytes')

    @property
    def fields(self):
        return self.items


# ------------------------------------------------------------------ summaries
def install(ai: AbsInt, ctx, clip_model=True):
    """Install the wire summaries and the meta spec registry into an interpreter."""
    p = ctx.p

    def s_pack(interp, args, kwargs, node):
        fmt = args[0]
        if not isinstance(fmt, str):
            return Opaque('struct.pack format')
        order, codes = parse_fmt(fmt)
        vals = args[1:]
        if len(codes) != len(vals):
            raise AbsRaise('struct.error', node, implicit=True)
        if order == '@' and all(isinstance(v, int) and not isinstance(v, bool) for v in vals):
            # constant folding of a pure stdlib function on constants
            import struct as _struct
            try:
                return _struct.pack(fmt, *vals)
            except _struct.error:
                raise AbsRaise('struct.error', node)
        return Packed([Field(c, v, order) for c, v in zip(codes, vals)])

    def s_unpack(interp, args, kwargs, node):
        fmt, data = args[0], args[1]
        if not isinstance(fmt, str):
            return Opaque('struct.unpack format')
        order, codes = parse_fmt(fmt)
        if isinstance(data, (bytes, bytearray)):
            import struct as _struct
            try:
                return _struct.unpack(fmt, data)
            except _struct.error:
                raise AbsRaise('struct.error', node)
        items = data.items if isinstance(data, AList) else None
        if items is None:
            return Opaque('unpack of non-bytes')
        if len(items) != len(codes) or not all(isinstance(i, Field) for i in items):
            interp.wire_notes.append(f'struct.unpack({fmt!r}) applied to {items!r}')
            return Opaque('unpack layout mismatch')
        out = []
        for c, it in zip(codes, items):
            if it.code != c or it.order != order:
                interp.wire_notes.append(f'field written as {it.order}{it.code} is read as {order}{c}')
                out.append(Opaque(f'reinterpreted {it.code}->{c}'))
            else:
                out.append(it.value)
        return AList(out, 'tuple')
    ai.summaries['struct.pack'] = s_pack
    ai.summaries['struct.unpack'] = s_unpack
    ai.wire_notes = []

    def s_encode_vlq(interp, args, kwargs, node):
        v = args[0]
        # the real function rejects negative / non-integral values with ValueError
        if isinstance(v, (int, float)) and not isinstance(v, bool):
            if not isinstance(v, int) or v < 0:
                raise AbsRaise('ValueError', node)
        if isinstance(v, AV) and not v.is_top and v.interval()[1] < 0:
            raise AbsRaise('ValueError', node)
        return AList([VLQ(v)], 'list')
    ai.summaries['mido/midifiles/meta.py::encode_variable_int'] = s_encode_vlq

    def unwrap(interp, f):
        """A file wrapper object (class with read/tell and a `file` attribute holding the real file, e.g. DebugFileWrapper): the
        summaries below act on the wrapped file.  That the wrapper's own read()/tell() are transparent is an obligation of its
        own (C08 R08.6); the uses are recorded so that rule can see the wrapper was in play."""
        if isinstance(f, AObj) and f.cls is not None and isinstance(f.attrs.get('file'), AFile) \
                and interp.p.lookup_method(f.cls, 'read')[1] is not None:
            interp.wrapped_reads = getattr(interp, 'wrapped_reads', 0) + 1
            return f.attrs['file']
        return f

    def s_read_vlq(interp, args, kwargs, node):
        f = unwrap(interp, args[0])
        if not isinstance(f, AFile):
            return Opaque('read_variable_int on non-file')
        if f.pos >= len(f.stream):
            raise AbsRaise('EOFError', node)
        it = f.stream[f.pos]
        if isinstance(it, VLQ):
            f.pos += 1
            return it.value
        if isinstance(it, (int, AV, LenV)) and not isinstance(it, bool) and (upper_bound(it) if upper_bound(it) is not None else 999) <= 127 \
                and not (isinstance(it, int) and it < 0):
            f.pos += 1          # one byte with the top bit clear is a complete quantity: its own value
            return it
        f.bad.append(f'a variable length quantity is read where the stream has {it!r}')
        f.pos += 1
        return Opaque('misread vlq')
    ai.summaries['mido/midifiles/midifiles.py::read_variable_int'] = s_read_vlq

    def s_read_bytes(interp, args, kwargs, node):
        f, size = unwrap(interp, args[0]), args[1]
        if not isinstance(f, AFile):
            return Opaque('read_bytes on non-file')
        if isinstance(size, int) and size > reference.MAX_MESSAGE_LENGTH:
            raise AbsRaise('OSError', node)
        if isinstance(size, int):
            out = []
            for _ in range(size):
                if f.pos >= len(f.stream):
                    raise AbsRaise('EOFError', node)
                it = f.stream[f.pos]
                if isinstance(it, SeqVar) and it.minlen >= 1:
                    out.append(AV.of_sym(it.sym))
                    f.stream[f.pos] = _shrink(it, 1)
                    if f.stream[f.pos].minlen == 0 and False:
                        pass
                elif isinstance(it, (int, AV)):
                    out.append(it)
                    f.pos += 1
                else:
                    f.bad.append(f'read_bytes({size}) runs into {it!r}')
                    return Opaque('misaligned read_bytes')
            return AList(out, 'list')
        nbad = len(f.bad)
        r = f.read(size, node)
        if isinstance(r, Opaque) and f.pos >= len(f.stream):
            # the stream ended before `size` bytes were there: read_byte raises EOFError
            del f.bad[nbad:]
            raise AbsRaise('EOFError', node)
        if isinstance(r, AList):
            return AList(r.items, 'list')
        if r == b'':
            return AList([], 'list')
        return r
    ai.summaries['mido/midifiles/midifiles.py::read_bytes'] = s_read_bytes

    def current_charset(interp):
        return charset_in_force(interp, ctx)

    def s_encode_string(interp, args, kwargs, node):
        from .absint import log_event
        log_event('codec', 'encode', current_charset(interp))
        v = args[0]
        if isinstance(v, StrSym):
            return AList([v.bytes], 'list')
        if isinstance(v, str):
            return AList(list(v.encode('latin1', 'replace')), 'list')
        return Opaque('encode_string')

    def s_decode_string(interp, args, kwargs, node):
        from .absint import log_event
        log_event('codec', 'decode', current_charset(interp))
        v = args[0]
        if isinstance(v, AList) and len(v.items) == 1 and isinstance(v.items[0], SeqVar) and hasattr(v.items[0], 'text'):
            return v.items[0].text
        if isinstance(v, AList) and not v.items:
            return ''
        return Opaque('decode_string')
    ai.summaries['mido/midifiles/meta.py::encode_string'] = s_encode_string
    ai.summaries['mido/midifiles/meta.py::decode_string'] = s_decode_string

    def s_miditrack(interp, args, kwargs, node):
        r = AList(interp.iterate(args[0], node, keep_vars=True) if args else [], 'MidiTrack')
        r.cls = ctx.p.cls(TR_MOD, 'MidiTrack')
        return r
    ai.summaries['mido/midifiles/tracks.py::MidiTrack'] = s_miditrack

    def s_fix_eot(interp, args, kwargs, node):
        # a track without end_of_track messages: all messages, then one end_of_track(time=0);
        # the body of fix_end_of_track is checked by R07.5
        msgs = interp.iterate(args[0], node)
        eot = make_meta(interp, ctx, 'end_of_track', {}, time=0)
        return AList(list(msgs) + [eot], 'list')
    ai.fix_eot_summary = s_fix_eot     # not installed: fix_end_of_track is interpreted (eager generator)

    def s_sysexdata(interp, args, kwargs, node):
        src = args[0] if args else AList([], 'tuple')
        if isinstance(src, AList):
            return AList(src.items, 'tuple')
        if isinstance(src, (tuple, list)):
            return AList(list(src), 'tuple')
        return src
    ai.summaries['mido/messages/messages.py::SysexData'] = s_sysexdata

    def s_signed(interp, args, kwargs, node):
        return ('signed', args[0], args[1])
    # file methods
    def file_hook(interp, base, name, args, kwargs, node):
        if isinstance(base, AFile):
            if name == 'write':
                base.write(args[0], node)
                return None
            if name == 'read':
                r = base.read(args[0] if args else LenV(0, ()), node)
                base.reads.append(r)
                return r
            if name == 'tell':
                return base.consumed_len()
            return Opaque(f'file.{name}')
        if isinstance(base, AList) and base.kind == 'bytearray' and name == 'extend':
            base.items.extend(interp.iterate(args[0], node, keep_vars=True))
            return None
        if isinstance(base, StrSym):
            return Opaque('str method')
        return _NO
    ai.method_hooks.append(file_hook)

    # the meta spec registry (built at import time through globals().items())
    reg = meta_registry(ctx)
    by_type = {}
    both = {}
    for name, cls in reg.items():
        tb = ctx.f.try_eval(ctx.p.class_attr(cls, 'type_byte'), {}, cls.module) if ctx.p.class_attr(cls, 'type_byte') is not None else None
        attrs = ctx.f.try_eval(ctx.p.class_attr(cls, 'attributes'), {}, cls.module) if ctx.p.class_attr(cls, 'attributes') is not None else []
        spec = AObj(cls, {'type': name, 'settable_attributes': set(attrs) | {'time'}}, name=f'spec:{name}')
        by_type[name] = spec
        both[name] = spec
        if isinstance(tb, int):
            both[tb] = spec
    ai.global_overrides[(META_MOD, '_META_SPEC_BY_TYPE')] = by_type
    ai.global_overrides[(META_MOD, '_META_SPECS')] = both
    ai.meta_specs = by_type
    return ai


def meta_registry(ctx):
    """type name -> ClassInfo for every class MetaSpec_<name> of meta.py
    (what _add_builtin_meta_specs registers; its body is checked by R09.5)."""
    m = ctx.p.module(META_MOD)
    out = {}
    for cname, c in m.classes.items():
        if cname.startswith('MetaSpec_'):
            out[cname[len('MetaSpec_'):]] = c
    return out


def make_meta(ai, ctx, type_, attrs, time):
    cls = ctx.p.cls(META_MOD, 'MetaMessage')
    d = {'type': type_}
    d.update(attrs)
    d['time'] = time
    return AObj(cls, d, name=f'meta:{type_}')


class CodecProbe:
    """A text whose .encode(...) call is recorded: fed to the library's own encode_string it shows which charset is in force,
    wherever the library keeps that setting (a module global, an attribute of a private state object...)."""
    py_type = 'str'

    def __init__(self):
        self.used = []

    def absint_hasattr(self, name):
        return name == 'encode'

    def absint_getattr(self, interp, name, node):
        if name == 'encode':
            return ('mockmethod', self, 'encode')
        raise AbsRaise('AttributeError', node, implicit=True)

    def absint_method(self, interp, name, args, kwargs, node):
        self.used.append((list(args), dict(kwargs)))
        return AList([], 'bytes')


def charset_in_force(interp, ctx):
    """The charset encode_string would use right now: observed by running its real body on a probe text (no event is
    recorded for this and nothing is changed)."""
    from .absint import EVENT_LOG
    fn = ctx.p.func(META_MOD, 'encode_string')
    if fn is None:
        raise AnalysisError('encode_string not found in ' + META_MOD)
    saved = interp.summaries.pop(fn.qname, None)
    def probe_hook(i_, base, name, args, kwargs, node):
        if isinstance(base, CodecProbe):
            return base.absint_method(i_, name, args, kwargs, node)
        return _NO
    hooks, interp.method_hooks = interp.method_hooks, [probe_hook]
    log = list(EVENT_LOG)
    probe = CodecProbe()
    try:
        interp.call_function(fn, [probe], {})
    except (AbsRaise, Unsupported):
        pass
    finally:
        if saved is not None:
            interp.summaries[fn.qname] = saved
        interp.method_hooks = hooks
        EVENT_LOG[:] = log
    if len(probe.used) == 1 and len(probe.used[0][0]) >= 1:
        return probe.used[0][0][0]
    if len(probe.used) == 1 and 'encoding' in probe.used[0][1]:
        return probe.used[0][1]['encoding']
    return Opaque('charset in force')


def with_charset(interp, ctx, charset, body):
    """Run body() while `charset` is in force, put in force the way the library does it: through its own meta_charset."""
    from .model import FuncInfo as FI, add_parents
    src = "def __run_with_charset__(cs):\n    with meta_charset(cs):\n        return __charset_body__()\n"
    tree = ast.parse(src)
    add_parents(tree)
    runner = FI('__run_with_charset__', ctx.p.module(META_MOD), tree.body[0])
    saved = interp.builtin_summaries.get('__charset_body__')
    interp.builtin_summaries['__charset_body__'] = lambda i_, a_, k_, n_: body()
    try:
        return interp.call_function(runner, [charset], {})
    finally:
        if saved is None:
            interp.builtin_summaries.pop('__charset_body__', None)
        else:
            interp.builtin_summaries['__charset_body__'] = saved


def make_message(ctx, type_, attrs, time):
    cls = ctx.p.cls('mido.messages.messages', 'Message')
    d = {'type': type_}
    d.update(attrs)
    d['time'] = time
    return AObj(cls, d, name=f'msg:{type_}')


def items_equal(a, b):
    """Structural equality of two wire item lists."""
    if len(a) != len(b):
        return False
    return all(item_equal(x, y) for x, y in zip(a, b))


def upper_bound(v):
    """The largest value v can have (under the length bounds of the current path), or None."""
    if isinstance(v, bool):
        return int(v)
    if isinstance(v, int):
        return v
    if isinstance(v, AV) and not v.is_top:
        return v.interval()[1]
    if isinstance(v, LenV):
        from .absint import len_interval
        return len_interval(v)[1]
    return None


def item_equal(x, y):
    if x is y:
        return True
    if isinstance(x, VLQ) and isinstance(y, VLQ):
        return value_equal(x.value, y.value)
    if isinstance(x, VLQ) != isinstance(y, VLQ):
        # a quantity below 128 is one byte holding the quantity itself
        q, plain = (x, y) if isinstance(x, VLQ) else (y, x)
        ub = upper_bound(q.value)
        return isinstance(plain, (int, AV, LenV)) and not isinstance(plain, bool) and ub is not None and ub <= 127 \
            and (upper_bound(plain) or 0) <= 127 and value_equal(q.value, plain)
    if isinstance(x, Field) and isinstance(y, Field):
        return x.code == y.code and x.order == y.order and value_equal(x.value, y.value)
    if isinstance(x, SeqVar) or isinstance(y, SeqVar):
        return isinstance(x, SeqVar) and isinstance(y, SeqVar) and x.sym == y.sym and x.minlen == y.minlen
    return value_equal(x, y)


def value_equal(x, y):
    if x is y:
        return True
    if isinstance(x, bool) or isinstance(y, bool):
        return x == y
    if isinstance(x, AV) or isinstance(y, AV):
        xa = x if isinstance(x, AV) else AV(x) if isinstance(x, int) else None
        ya = y if isinstance(y, AV) else AV(y) if isinstance(y, int) else None
        return xa is not None and ya is not None and xa.same(ya)
    if isinstance(x, LenV) and isinstance(y, LenV):
        return x == y
    if isinstance(x, AList) and isinstance(y, AList):
        return items_equal(x.items, y.items)
    if isinstance(x, (AList, list, tuple)) and isinstance(y, (AList, list, tuple)):
        xi = x.items if isinstance(x, AList) else list(x)
        yi = y.items if isinstance(y, AList) else list(y)
        return items_equal(xi, yi)
    if isinstance(x, (Opaque, AObj, StrSym, VLQ, Field)) or isinstance(y, (Opaque, AObj, StrSym, VLQ, Field)):
        return False
    try:
        return x == y
    except Exception:
        return False
