"""midolint driver:  check <ID> [--tier quick|thorough] [--replay PATH] [--repo DIR]"""
from __future__ import annotations

import argparse
import importlib
import json
import os
import sys
import time

sys.path.insert(0, os.path.dirname(os.path.dirname(os.path.abspath(__file__))))

from midolint.fold import Folder          # noqa: E402
from midolint.model import AnalysisError, Program   # noqa: E402
from midolint.report import Ctx, finish   # noqa: E402


def run_property(prop, tier, repo, replay=None, evidence_dir=None, quiet=False):
    t0 = time.time()
    mod = importlib.import_module(f'midolint.rules.{prop.lower()}')
    try:
        program = Program(repo)
    except AnalysisError as e:
        print(f'ANALYSIS-ERROR: property={prop} {e}')
        return 2
    folder = Folder(program)
    from midolint.absint import install_fold_fallback
    install_fold_fallback(folder)
    ctx = Ctx(prop, program, folder, tier)
    for name, fn in mod.RULES:
        ctx.run_rule(name, fn)
    if tier == 'thorough':
        for name, fn in getattr(mod, 'THOROUGH_RULES', []):
            ctx.run_rule(name, fn)
    filt = None
    if replay:
        with open(replay) as f:
            r = json.load(f)
        filt = (r['rule'], r['construct'])
    rc = finish(ctx, mod.LEVEL, mod.EXPLANATION, mod.TRUSTED, mod.ASSUMPTIONS, t0,
                replay_filter=filt, evidence_dir=evidence_dir, quiet=quiet)
    if tier == 'thorough' and rc == 0 and not replay and os.environ.get('MIDOLINT_NO_SELFTEST') != '1':
        try:
            from midolint import selftest
        except ImportError:
            selftest = None
        if selftest is not None:
            rc = selftest.run(prop, repo, evidence_dir)
    return rc


def main(argv=None):
    ap = argparse.ArgumentParser()
    ap.add_argument('prop')
    ap.add_argument('--tier', default=os.environ.get('VERIF_TIER', 'quick'), choices=['quick', 'thorough'])
    ap.add_argument('--replay')
    ap.add_argument('--repo', default=os.environ.get('MIDOLINT_REPO', '/repo'))
    ap.add_argument('--evidence-dir', default=os.environ.get('MIDOLINT_EVIDENCE'))
    a = ap.parse_args(argv)
    try:
        return run_property(a.prop.upper(), a.tier, a.repo, a.replay, a.evidence_dir)
    except Exception as e:   # noqa: BLE001
        import traceback
        traceback.print_exc()
        print(f'ANALYSIS-ERROR: property={a.prop} internal error {type(e).__name__}: {e}')
        return 2


if __name__ == '__main__':
    sys.exit(main())
