"""E3 - acyclic path enumeration over a function body (syntax directed CFG).

A path is a list of events:

  ('stmt', node)            a simple statement executed completely
  ('partial', node)         a statement that raised while executing (try bodies)
  ('cond', expr, bool)      a branch condition and its outcome
  ('loop', node, how)       how in {'skip','enter','exit'} for `for`/`while`
  ('with', node) / ('endwith', node)
  ('except', handler)       control entered this handler
  ('finally', trynode)      entering a finally block
  ('return', node) / ('raise', node) / ('break', node) / ('continue', node)

Each path ends with status 'return', 'raise', 'fall' (implicit return None) or
'loop' (the back edge of a `while True`-style loop whose body was walked once;
such a path does not leave the function).  Loops are summarised as "body zero
times or once", never unrolled.
"""
from __future__ import annotations

import ast
from dataclasses import dataclass

from .model import AnalysisError, Unsupported

MAX_PATHS = 6000


@dataclass
class Ev:
    kind: str
    node: ast.AST
    val: object = None

    def __repr__(self):
        try:
            txt = ast.unparse(self.node).split('\n')[0][:60]
        except Exception:
            txt = type(self.node).__name__
        if self.kind in ('cond', 'loop'):
            return f'{self.kind}[{self.val}] {txt}'
        return f'{self.kind} {txt}'


@dataclass
class Path:
    events: list
    status: str       # 'return' | 'raise' | 'fall' | 'loop'

    def conds(self):
        return [(e.node, e.val) for e in self.events if e.kind == 'cond']

    def stmts(self):
        return [e.node for e in self.events if e.kind in ('stmt', 'return', 'raise')]

    def nodes(self, kinds=('stmt', 'return', 'raise', 'cond', 'partial')):
        return [e.node for e in self.events if e.kind in kinds]

    def index_of(self, node):
        for i, e in enumerate(self.events):
            if e.node is node:
                return i
        return -1

    def exit_node(self):
        for e in reversed(self.events):
            if e.kind in ('return', 'raise'):
                return e.node
        return None

    def describe(self):
        return ' ; '.join(repr(e) for e in self.events) + f' => {self.status}'


_SIMPLE = (ast.Assign, ast.AugAssign, ast.AnnAssign, ast.Expr, ast.Pass,
           ast.Delete, ast.Global, ast.Nonlocal, ast.Import, ast.ImportFrom,
           ast.Assert, ast.FunctionDef, ast.ClassDef)


def may_raise(node):
    """Conservative: can executing this statement/expression raise?"""
    for n in ast.walk(node):
        if isinstance(n, (ast.Call, ast.Subscript, ast.Attribute, ast.BinOp,
                          ast.Raise, ast.Yield, ast.YieldFrom, ast.Starred,
                          ast.Assert, ast.Await)):
            return True
        if isinstance(n, ast.Assign) and any(isinstance(t, (ast.Tuple, ast.List)) for t in n.targets):
            return True
    return False


def _const_truth(test):
    if isinstance(test, ast.Constant):
        return bool(test.value)
    return None


class _Enum:
    def __init__(self, fn_node):
        self.count = 0
        self.fn = fn_node

    def block(self, stmts, prefix):
        """-> list of (events, status) with status in next/return/raise/break/continue/loop"""
        states = [(prefix, 'next')]
        for st in stmts:
            new = []
            for ev, status in states:
                if status != 'next':
                    new.append((ev, status))
                    continue
                new.extend(self.stmt(st, ev))
            states = new
            self.count = max(self.count, len(states))
            if len(states) > MAX_PATHS:
                raise Unsupported(f'too many paths in {getattr(self.fn, "name", "?")}')
        return states

    def stmt(self, st, ev):
        if isinstance(st, ast.Return):
            return [(ev + [Ev('return', st)], 'return')]
        if isinstance(st, ast.Raise):
            return [(ev + [Ev('raise', st)], 'raise')]
        if isinstance(st, ast.Break):
            return [(ev + [Ev('break', st)], 'break')]
        if isinstance(st, ast.Continue):
            return [(ev + [Ev('continue', st)], 'continue')]
        if isinstance(st, ast.If):
            t = _const_truth(st.test)
            out = []
            if t is not False:
                out += self.block(st.body, ev + [Ev('cond', st.test, True)])
            if t is not True:
                out += self.block(st.orelse, ev + [Ev('cond', st.test, False)])
            return out
        if isinstance(st, (ast.For, ast.AsyncFor)):
            out = []
            # zero iterations
            out += self.block(st.orelse, ev + [Ev('loop', st, 'skip')])
            # one (summarising one-or-more) iteration
            for ev2, status in self.block(st.body, ev + [Ev('loop', st, 'enter')]):
                if status in ('next', 'continue'):
                    out += self.block(st.orelse, ev2 + [Ev('loop', st, 'exit')])
                elif status == 'break':
                    out.append((ev2, 'next'))
                else:
                    out.append((ev2, status))
            return out
        if isinstance(st, ast.While):
            t = _const_truth(st.test)
            out = []
            if t is not True:
                out += self.block(st.orelse, ev + [Ev('cond', st.test, False), Ev('loop', st, 'skip')])
            if t is not False:
                for ev2, status in self.block(st.body, ev + [Ev('cond', st.test, True), Ev('loop', st, 'enter')]):
                    if status in ('next', 'continue'):
                        if t is True:
                            out.append((ev2 + [Ev('loop', st, 'again')], 'loop'))
                        else:
                            out += self.block(st.orelse, ev2 + [Ev('loop', st, 'exit'), Ev('cond', st.test, False)])
                    elif status == 'break':
                        out.append((ev2, 'next'))
                    else:
                        out.append((ev2, status))
            return out
        if isinstance(st, (ast.With, ast.AsyncWith)):
            out = []
            for ev2, status in self.block(st.body, ev + [Ev('with', st)]):
                out.append((ev2 + [Ev('endwith', st)], status))
            return out
        if isinstance(st, ast.Try) or type(st).__name__ == 'TryStar':
            return self.try_(st, ev)
        if isinstance(st, ast.Match):
            raise Unsupported('match statement is not supported')
        if isinstance(st, _SIMPLE):
            return [(ev + [Ev('stmt', st)], 'next')]
        raise Unsupported(f'unsupported statement {type(st).__name__}')

    def try_(self, st, ev):
        n0 = len(ev)
        body = self.block(st.body, ev)
        results = []       # before finally
        # normal completion / propagating statuses
        raise_prefixes = []
        seen = set()
        for ev2, status in body:
            if status == 'next':
                results += self.block(st.orelse, ev2)
            elif status == 'raise':
                raise_prefixes.append((ev2, True))
            else:
                results.append((ev2, status))
            # implicit raise points inside the try body
            for i in range(n0, len(ev2)):
                e = ev2[i]
                if e.kind in ('stmt', 'cond', 'return') and may_raise(e.node) or e.kind == 'loop' and e.val == 'enter':
                    key = (id(e.node), tuple(id(x.node) for x in ev2[n0:i] if x.kind == 'cond'),
                           tuple(x.val for x in ev2[n0:i] if x.kind == 'cond'))
                    if key in seen:
                        continue
                    seen.add(key)
                    raise_prefixes.append((ev2[:i] + [Ev('partial', e.node)], False))
        if st.handlers:
            for pre, explicit in raise_prefixes:
                for h in st.handlers:
                    results += self.block(h.body, pre + [Ev('except', h)])
                # the exception may also be one that no handler catches
                if not _catches_all(st.handlers):
                    if explicit:
                        results.append((pre, 'raise'))
                    else:
                        results.append((pre + [Ev('raise', pre[-1].node, 'implicit')], 'raise'))
        else:
            for pre, explicit in raise_prefixes:
                if explicit:
                    results.append((pre, 'raise'))
                else:
                    results.append((pre + [Ev('raise', pre[-1].node, 'implicit')], 'raise'))
        if st.finalbody:
            out = []
            for ev2, status in results:
                for ev3, s3 in self.block(st.finalbody, ev2 + [Ev('finally', st)]):
                    out.append((ev3, status if s3 == 'next' else s3))
            return out
        return results


def _catches_all(handlers):
    for h in handlers:
        if h.type is None:
            return True
        if isinstance(h.type, ast.Name) and h.type.id in ('BaseException', 'Exception'):
            return True
    return False


_cache = {}


def enumerate_paths(fn_node) -> list:
    key = id(fn_node)
    if key in _cache:
        return _cache[key]
    en = _Enum(fn_node)
    out = []
    for ev, status in en.block(fn_node.body, []):
        if status == 'next':
            status = 'fall'
        elif status in ('break', 'continue'):
            raise Unsupported('break/continue outside loop')
        out.append(Path(ev, status))
    _cache[key] = out
    return out


def paths_through(paths, node):
    return [p for p in paths if p.index_of(node) >= 0]


def always_before(paths, first_pred, then_node):
    """On every path containing then_node, some event satisfying first_pred
    occurs earlier."""
    for p in paths:
        i = p.index_of(then_node)
        if i < 0:
            continue
        if not any(first_pred(e) for e in p.events[:i]):
            return False, p
    return True, None
