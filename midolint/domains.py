"""Accepted integer domain of a check function, from its paths and guards."""
from __future__ import annotations

import ast

from . import astq
from .fold import UNKNOWN
from .intset import IntSet, Undecidable, truth_set
from .model import FuncInfo
from .paths import enumerate_paths


class DomainResult:
    def __init__(self):
        self.rejected = {}        # exc name -> IntSet (for integer inputs)
        self.accepted = IntSet.all()
        self.type_test = None     # 'Integral' / 'Real' / ... if non-instances raise TypeError
        self.type_test_first = False
        self.paths = 0
        self.notes = []


def _is_type_test(test, var):
    """(kind, polarity): cond is [not] isinstance(var, T)."""
    pol = True
    e = test
    while isinstance(e, ast.UnaryOp) and isinstance(e.op, ast.Not):
        pol = not pol
        e = e.operand
    if isinstance(e, ast.Call) and isinstance(e.func, ast.Name) and e.func.id == 'isinstance' \
            and len(e.args) == 2 and isinstance(e.args[0], ast.Name) and e.args[0].id == var:
        return ast.unparse(e.args[1]), pol
    return None, None


def check_domain(p, folder, fn: FuncInfo, var: str, env=None, depth=0, free_guards=False) -> DomainResult:
    """Which integers does fn accept for parameter `var` (other parameters
    bound to constants in env)?  With free_guards a test that does not mention `var` and cannot be folded is taken to go
    either way (it depends on the other inputs): a value is then rejected when some such choice rejects it."""
    env = dict(env or {})
    if fn.cls is not None:
        sn = astq.self_name(fn)
        if sn:
            for k in p.mro(fn.cls):
                for an, av in k.attrs.items():
                    key = f'{sn}.{an}'
                    if key not in env:
                        v = folder.try_eval(av, {}, k.module)
                        if v is not UNKNOWN:
                            env[key] = v
    res = DomainResult()
    paths = enumerate_paths(fn.node)
    res.paths = len(paths)
    rejected_total = IntSet.empty()
    for path in paths:
        cur = IntSet.all()       # ints for which this path is taken so far
        feasible = True
        first_cond_seen = False
        for ev in path.events:
            if ev.kind == 'cond':
                kind, pol = _is_type_test(ev.node, var)
                if kind is not None:
                    # for ints isinstance is true
                    if not first_cond_seen:
                        if (not pol) == ev.val and path.status == 'raise':
                            pass
                    first_cond_seen = True
                    if (pol and not ev.val) or (not pol and ev.val):
                        # "not an instance" branch: infeasible for ints; record the type test
                        exn = path.exit_node()
                        if path.status == 'raise' and exn is not None and astq.exc_name_of(exn) == 'TypeError':
                            res.type_test = kind
                            # is it the first condition on the path?
                            conds = [e for e in path.events if e.kind == 'cond']
                            if conds and conds[0] is ev:
                                res.type_test_first = True
                        feasible = False
                        break
                    continue
                first_cond_seen = True
                mentions = any(isinstance(n, ast.Name) and n.id == var for n in ast.walk(ev.node))
                if mentions:
                    s = truth_set(ev.node, var, folder, env, fn.module)
                    cur = cur.intersect(s if ev.val else s.complement())
                else:
                    v = folder.try_eval(ev.node, env, fn.module)
                    if v is UNKNOWN:
                        if free_guards:
                            continue
                        raise Undecidable(f'{fn.qname}: cannot fold guard {ast.unparse(ev.node)}')
                    if bool(v) != ev.val:
                        feasible = False
                        break
            elif ev.kind == 'stmt' and isinstance(ev.node, ast.Expr) and isinstance(ev.node.value, ast.Call):
                call = ev.node.value
                callee = astq.resolve_callee(p, fn, call)
                if isinstance(callee, FuncInfo) and depth < 3:
                    # bind arguments
                    params = callee.params()
                    if callee.cls is not None:
                        params = params[1:] if astq.self_name(callee) else params
                    sub_env = {}
                    sub_var = None
                    ok = True
                    for i, a in enumerate(call.args):
                        if i >= len(params):
                            ok = False
                            break
                        if isinstance(a, ast.Name) and a.id == var:
                            sub_var = params[i]
                        else:
                            v = folder.try_eval(a, env, fn.module)
                            if v is UNKNOWN:
                                ok = False
                                break
                            sub_env[params[i]] = v
                    for kw in call.keywords:
                        if kw.arg is None or kw.arg not in params:
                            ok = False
                            break
                        if isinstance(kw.value, ast.Name) and kw.value.id == var:
                            sub_var = kw.arg
                        else:
                            v = folder.try_eval(kw.value, env, fn.module)
                            if v is UNKNOWN:
                                ok = False
                                break
                            sub_env[kw.arg] = v
                    if ok:
                        # parameters not given take their defaults
                        a_ = callee.node.args
                        pos = a_.posonlyargs + a_.args
                        for pi, d in zip(pos[len(pos) - len(a_.defaults):], a_.defaults):
                            if pi.arg not in sub_env and pi.arg != sub_var:
                                v = folder.try_eval(d, {}, callee.module)
                                if v is not UNKNOWN:
                                    sub_env[pi.arg] = v
                    if ok and sub_var is not None:
                        sub = check_domain(p, folder, callee, sub_var, sub_env, depth + 1)
                        for exc, s in sub.rejected.items():
                            hit = cur.intersect(s)
                            if not hit.is_empty():
                                res.rejected[exc] = res.rejected.get(exc, IntSet.empty()).union(hit)
                                rejected_total = rejected_total.union(hit)
                        if sub.type_test and res.type_test is None:
                            res.type_test = sub.type_test
                            conds = [e for e in path.events if e.kind == 'cond'
                                     and any(isinstance(n, ast.Name) and n.id == var for n in ast.walk(e.node))]
                            res.type_test_first = sub.type_test_first and not conds
                        cur = cur.intersect(sub.accepted)
                        res.paths += sub.paths
                    elif sub_var is not None:
                        raise Undecidable(f'{fn.qname}: cannot bind call {ast.unparse(call)}')
            elif ev.kind == 'stmt' and isinstance(ev.node, (ast.Assign, ast.AugAssign)):
                # a local derived from var makes later guards undecidable: detect use
                tnames = {t.id for t, _ in astq.stores_in(ev.node) if isinstance(t, ast.Name)}
                if var in tnames:
                    raise Undecidable(f'{fn.qname}: parameter {var} is reassigned')
                for tn in tnames:
                    env.pop(tn, None)
        if not feasible or cur.is_empty():
            continue
        if path.status == 'raise':
            exn = path.exit_node()
            name = astq.exc_name_of(exn) if exn is not None else '?'
            res.rejected[name] = res.rejected.get(name, IntSet.empty()).union(cur)
            rejected_total = rejected_total.union(cur)
    res.accepted = rejected_total.complement()
    return res


# ---------------------------------------------------------------------------------------------------------------------------
# The same question decided on abstract executions, for check functions whose tests are reached through objects, tables or
# helpers the path reduction above does not follow (a range object with a .check method, a per-width field helper...).
#
# A check function touches its argument only through isinstance() and comparisons with constants, so its outcome is constant
# between two consecutive thresholds.  The thresholds used: every integer literal of the package modules that hold checks and
# specs (and each +-1), the powers of two up to 2**32 (+-1), the limits of the documented domain when given.  The function is
# interpreted on each of them with a concrete argument; a non-integral number, a string and None decide the type test.

_NON_INTS = (1.5, 'x', None, 64.0, 0.0)        # (a float that equals an integer is still not an integer)


def package_int_literals(p, prefixes=('mido.messages', 'mido.midifiles')):
    cache = getattr(p, '_int_literals', None)
    if cache is None:
        vals = set()
        for m in p.modules.values():
            if m.name.startswith(prefixes):
                for n in ast.walk(m.tree):
                    if isinstance(n, ast.Constant) and type(n.value) is int and abs(n.value) < 2 ** 40:
                        vals.add(n.value)
        cache = p._int_literals = frozenset(vals)
    return cache


def probe_points(p, extra=()):
    pts = {-(2 ** 33), 2 ** 33}
    for c in list(package_int_literals(p)) + [2 ** k for k in range(0, 33)] + [-(2 ** k) for k in range(0, 33)] + list(extra):
        pts.update((c - 1, c, c + 1, -c - 1, -c, -c + 1))
    return sorted(pts)


def semantic_domain(ctx, call, extra=()):
    """DomainResult of a check, `call(interp, value)` applying it abstractly to one concrete value."""
    from .absint import AbsInt
    res = DomainResult()
    pts = probe_points(ctx.p, extra)
    kinds = []
    for v in pts:
        ai = AbsInt(ctx.f)
        outs = ai.explore(lambda: call(ai, v))
        if len(outs) != 1:
            raise Undecidable(f'the check has {len(outs)} outcomes for the value {v}')
        o = outs[0]
        kinds.append('return' if o.kind == 'return' else o.exc)
        for q in ai.inlined:
            ctx.functions.add(q)
    acc = IntSet.empty()
    rej = {}
    for i, (v, k) in enumerate(zip(pts, kinds)):
        lo = float('-inf') if i == 0 else v
        hi = float('inf') if i == len(pts) - 1 else pts[i + 1] - 1
        piece = IntSet([(lo, hi)])
        if k == 'return':
            acc = acc.union(piece)
        else:
            rej[k] = rej.get(k, IntSet.empty()).union(piece)
    res.accepted = acc
    res.rejected = rej
    res.paths = len(pts)
    bad = []
    for v in _NON_INTS:
        ai = AbsInt(ctx.f)
        outs = ai.explore(lambda: call(ai, v))
        bad.append([('return' if o.kind == 'return' else o.exc) for o in outs])
    if all(b == ['TypeError'] for b in bad):
        res.type_test = 'Integral'
        ai = AbsInt(ctx.f)
        far = ai.explore(lambda: call(ai, 1e12))      # far outside every range and not an integer: which complaint comes first?
        res.type_test_first = [('return' if o.kind == 'return' else o.exc) for o in far] == ['TypeError']
    res.notes.append(f'decided on {len(pts)} threshold values by abstract execution')
    return res


def looks_undecided(r):
    """The path reduction found no test at all: the tests sit somewhere it did not look."""
    return r is None or (r.accepted == IntSet.all() and not r.rejected and r.type_test is None)
