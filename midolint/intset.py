"""Sets of integers as unions of intervals, and the set of integer values of one
variable for which a boolean condition (comparisons against constants combined
with and/or/not) is true.  Used to recover the accepted domain of the check_*
functions and to fold dispatch thresholds without running anything."""
from __future__ import annotations

import ast
import math

from .fold import UNKNOWN, Unfoldable

INF = math.inf


class IntSet:
    def __init__(self, ivs=()):
        self.ivs = self._norm(ivs)

    @staticmethod
    def _norm(ivs):
        ivs = sorted((lo, hi) for lo, hi in ivs if lo <= hi)
        out = []
        for lo, hi in ivs:
            if out and lo <= out[-1][1] + 1:
                out[-1] = (out[-1][0], max(out[-1][1], hi))
            else:
                out.append((lo, hi))
        return tuple(out)

    @staticmethod
    def all():
        return IntSet([(-INF, INF)])

    @staticmethod
    def empty():
        return IntSet([])

    @staticmethod
    def range(lo, hi):
        return IntSet([(lo, hi)])

    def union(self, o):
        return IntSet(self.ivs + o.ivs)

    def complement(self):
        out = []
        cur = -INF
        closed = False
        for lo, hi in self.ivs:
            if lo > cur:
                out.append((cur, lo - 1))
            if hi == INF:
                closed = True
            cur = hi + 1
        if not closed:
            out.append((cur, INF))
        return IntSet([(lo, hi) for lo, hi in out if lo <= hi])

    def intersect(self, o):
        return self.complement().union(o.complement()).complement()

    def minus(self, o):
        return self.intersect(o.complement())

    def __eq__(self, o):
        return isinstance(o, IntSet) and self.ivs == o.ivs

    def __hash__(self):
        return hash(self.ivs)

    def is_empty(self):
        return not self.ivs

    def contains(self, x):
        return any(lo <= x <= hi for lo, hi in self.ivs)

    def __repr__(self):
        if not self.ivs:
            return '{}'
        def b(x):
            return '-inf' if x == -INF else 'inf' if x == INF else str(int(x))
        return ' u '.join(f'[{b(lo)},{b(hi)}]' for lo, hi in self.ivs)


class Undecidable(Exception):
    pass


def _floor_c(c):
    return math.floor(c) if c not in (INF, -INF) else c


def _ceil_c(c):
    return math.ceil(c) if c not in (INF, -INF) else c


def cmp_set(op, c, var_left=True):
    """{x int | x op c} (var_left) or {x | c op x}."""
    t = type(op)
    if not var_left:
        t = {ast.Lt: ast.Gt, ast.LtE: ast.GtE, ast.Gt: ast.Lt, ast.GtE: ast.LtE}.get(t, t)
    if isinstance(c, bool):
        c = int(c)
    if not isinstance(c, (int, float)):
        raise Undecidable('comparison with a non-number')
    if t is ast.Lt:
        return IntSet.range(-INF, _ceil_c(c) - 1)
    if t is ast.LtE:
        return IntSet.range(-INF, _floor_c(c))
    if t is ast.Gt:
        return IntSet.range(_floor_c(c) + 1, INF)
    if t is ast.GtE:
        return IntSet.range(_ceil_c(c), INF)
    if t is ast.Eq:
        return IntSet.range(c, c) if c == int(c) else IntSet.empty()
    if t is ast.NotEq:
        return (IntSet.range(c, c) if c == int(c) else IntSet.empty()).complement()
    raise Undecidable(f'operator {t.__name__}')


def truth_set(test, var, folder, env=None, module=None, is_var=None, type_tests_true=True):
    """IntSet of integer values of `var` for which `test` is true.

    is_var(expr) -> bool recognises the variable (default: Name == var).
    isinstance(var, ...) tests are taken as true for integers."""
    env = env or {}
    if is_var is None:
        def is_var(e):
            return isinstance(e, ast.Name) and e.id == var

    def const(e):
        v = folder.try_eval(e, env, module)
        if v is UNKNOWN:
            raise Undecidable(f'cannot fold {ast.unparse(e)}')
        return v

    def mentions(e):
        return any(is_var(n) for n in ast.walk(e))

    def go(e):
        if isinstance(e, ast.BoolOp):
            sets = [go(v) for v in e.values]
            out = sets[0]
            for s in sets[1:]:
                out = out.intersect(s) if isinstance(e.op, ast.And) else out.union(s)
            return out
        if isinstance(e, ast.UnaryOp) and isinstance(e.op, ast.Not):
            return go(e.operand).complement()
        if isinstance(e, ast.Compare):
            if not mentions(e):
                return IntSet.all() if const(e) else IntSet.empty()
            out = IntSet.all()
            left = e.left
            for op, right in zip(e.ops, e.comparators):
                lv, rv = is_var(left), is_var(right)
                if lv and rv:
                    s = IntSet.all() if isinstance(op, (ast.Eq, ast.LtE, ast.GtE)) else IntSet.empty()
                elif lv:
                    if isinstance(op, (ast.In, ast.NotIn)):
                        coll = const(right)
                        s = IntSet([(x, x) for x in coll if isinstance(x, int)])
                        if isinstance(op, ast.NotIn):
                            s = s.complement()
                    else:
                        s = cmp_set(op, const(right), True)
                elif rv:
                    s = cmp_set(op, const(left), False)
                elif mentions(left) or mentions(right):
                    raise Undecidable(f'unsupported comparison {ast.unparse(e)}')
                else:
                    a, b = const(left), const(right)
                    from .fold import _CMPOPS
                    s = IntSet.all() if _CMPOPS[type(op)](a, b) else IntSet.empty()
                out = out.intersect(s)
                left = right
            return out
        if isinstance(e, ast.Call) and isinstance(e.func, ast.Name) and e.func.id == 'isinstance' \
                and e.args and is_var(e.args[0]):
            return IntSet.all() if type_tests_true else IntSet.empty()
        if is_var(e):
            return IntSet.range(0, 0).complement()
        if not mentions(e):
            return IntSet.all() if const(e) else IntSet.empty()
        raise Undecidable(f'unsupported condition {ast.unparse(e)}')

    return go(test)
