"""Thorough tier: run the mutant catalogue of one property against a scratch copy of the
tree as it is now.  'caught' mutants must make the check exit 1, 'silent' ones (behaviour
preserving rewrites / equivalent mutants) must leave it at exit 0.  A mutant whose anchor
text is no longer present is skipped and counted.  A disagreement means the CHECKER is
broken: the run ends with ANALYSIS-ERROR (exit 2), never with a VIOLATION about /repo.
"""
from __future__ import annotations

import json
import os
import shutil
import subprocess
import sys
import tempfile
import time
from concurrent.futures import ThreadPoolExecutor

HERE = os.path.dirname(os.path.dirname(os.path.abspath(__file__)))

MSGS = 'mido/messages/messages.py'
CHK = 'mido/messages/checks.py'
ENC = 'mido/messages/encode.py'
DEC = 'mido/messages/decode.py'
SPECS = 'mido/messages/specs.py'
STRS = 'mido/messages/strings.py'
TOK = 'mido/tokenizer.py'
PAR = 'mido/parser.py'
MF = 'mido/midifiles/midifiles.py'
META = 'mido/midifiles/meta.py'
TRK = 'mido/midifiles/tracks.py'
UNITS = 'mido/midifiles/units.py'
PORTS = 'mido/ports.py'
SOCK = 'mido/sockets.py'
FRZ = 'mido/frozen.py'
SYX = 'mido/syx.py'
BK = 'mido/backends/backend.py'
PQ = 'mido/backends/_parser_queue.py'
INIT = 'mido/__init__.py'

C = 'caught'
S = 'silent'

CATALOGUE = {
 'C01': [
  (ENC, "pitch >> 7]", "pitch >> 6]", C),
  (ENC, "msg['frame_type'] << 4", "msg['frame_type'] << 3", C),
  (DEC, "data[0] & 15", "data[0] & 7", C),
  (CHK, "0 <= value <= 127", "0 <= value <= 128", C),
  (DEC, "(data[1] << 7) + MIN_PITCHWHEEL", "(data[1] << 7) - 8191", C),
  (ENC, "return [0xe0 | msg['channel'], pitch & 0x7f, pitch >> 7]",
        "lo, hi = pitch % 128, pitch // 128\n    return [0xe0 | msg['channel'], lo, hi]", S),
  (MSGS, "return 2 + len(self.data)", "return 1 + len(self.data)", C),
  (MSGS, "msgdict = decode_message(data, time=time)", "msgdict = decode_message(data)", C),
  (SPECS, "_defmsg(0xd0, 'aftertouch', ('channel', 'value',), 2)", "_defmsg(0xd0, 'aftertouch', ('channel', 'value',), 3)", C),
  (ENC, "return [0x90 | msg['channel'], msg['note'], msg['velocity']]", "return [0x90 | msg['channel'], msg['velocity'], msg['note']]", C),
  (ENC, "return [0xf2, pos & 0x7f, pos >> 7]", "return [0xf2, pos >> 7, pos & 0x7f]", C),
  (MSGS, "f'{byte:02X}'", "f'{byte:X}'", C),
  (MSGS, "f'{byte:02X}'", "'%2X' % byte", C),
  (MSGS, "f'{byte:02X}'", "'%02x' % byte", S),
  (MSGS, "f'{byte:02X}'", "'{:02X}'.format(byte)", S),
  (MSGS, "def hex(self, sep=' '):", "def hex(self, sep=''):", S),
  (MSGS, "return cl.from_bytes(bytearray.fromhex(text), time=time)", "return cl.from_bytes(bytearray.fromhex(text))", C),
  (MSGS, "return cl.from_bytes(bytearray.fromhex(text), time=time)", "return cl.from_bytes(list(bytearray.fromhex(text)), time)", S),
  (MSGS, "        return bytearray(self.bytes())", "        return bytearray(self.bytes()[:3])", C),
  (MSGS, "        return bytearray(self.bytes())", "        return bytearray(encode_message(self.__dict__))", S),
  (DEC, "msg['channel'] = status_byte & 0x0f", "msg['channel'] = status_byte & 0x07", C),
  (MSGS, "            text = text.replace(sep, ' ' * len(sep))", "            text = re.sub(r'\\s', ' ', text).replace(sep, ' ' * len(sep))", C),   # D21 again
 ],
 'C02': [
  (DEC, "    elif len(data) != spec['length'] - 1:", "    elif len(data) < spec['length'] - 1:", C),
  (MSGS, "return cl.from_bytes(bytearray.fromhex(text), time=time)", "return cl(**decode_message(bytearray.fromhex(text), time=time, check=False))", C),
  (MSGS, "        text = re.sub(r'\\s', ' ', text)\n", "        text = text.replace(' ', '')\n", C),   # NOT equivalent: with a separator (turned into spaces just before) 'F-8' becomes 'F8' and is accepted
  (DEC, "    if check:\n        check_data(data)", "    if check and status_byte != 0xf1:\n        check_data(data)", C),
  (DEC, "        if end != SYSEX_END:", "        if end != SYSEX_END and end < 128:", C),
  (DEC, "    except KeyError as ke:", "    except IndexError as ke:", C),
  (MSGS, "msgdict = decode_message(data, time=time)", "msgdict = decode_message(data, time=time, check=False)", C),
  (DEC, "    if len(msg_bytes) == 0:\n        raise ValueError('message is 0 bytes long')\n", "", C),
  (CHK, "    elif not 0 <= value <= 127:\n        raise ValueError('data byte must be in range 0..127')",
        "    elif not 0 <= value <= 255:\n        raise ValueError('data byte must be in range 0..127')", C),
  (DEC, "    if check and not isinstance(status_byte, Integral):", "    if False:", C),   # D22 again
  (DEC, "        if check and not isinstance(end, Integral):", "        if False:", C),
  (DEC, "    msg_bytes = list(msg_bytes)\n", "", C),   # D23 again
 ],
 'C03': [
  (MSGS, "            check_value(name, value)\n            vars(self)[name] = value",
         "            vars(self)[name] = value\n            check_value(name, value)", C),
  (MSGS, "        msgdict = vars(self).copy()\n        msgdict.update(overrides)", "        msgdict = vars(self)\n        msgdict.update(overrides)", C),
  (CHK, "        check_value(name, value)", "        if name != 'time':\n            check_value(name, value)", C),
  (MSGS, "        elif name not in vars(self):", "        elif name not in vars(self) and name.startswith('_'):", C),
  (CHK, "elif not 0 <= channel <= 15:", "elif not 0 <= channel <= 16:", C),
  (CHK, "    if not isinstance(pos, Integral):\n        raise TypeError('song pos must be int')\n    elif not", "    if not", C),
  (MSGS, "        if not skip_checks:\n            check_msgdict(msgdict)\n\n        vars(self).update(msgdict)",
         "        if not skip_checks and args:\n            check_msgdict(msgdict)\n\n        vars(self).update(msgdict)", S),
  (MSGS, "        return cls(**data)", "        return cls(skip_checks=True, **data)", C),
  (PAR, "            self.messages.append(Message.from_bytes(midi_bytes))",
        "            m = Message.from_bytes(midi_bytes); vars(m)['time'] = None\n            self.messages.append(m)", C),
  (MSGS, "    def __delattr__(self, name):\n        raise AttributeError('attribute cannot be deleted')",
         "    def __delattr__(self, name):\n        if name == 'type':\n            raise AttributeError('attribute cannot be deleted')\n        object.__delattr__(self, name)", C),
  (MSGS, "            overrides['data'] = SysexData(overrides['data'])", "            overrides['data'] = bytearray(overrides['data'])", C),   # D26 again
  (MSGS, "                value = SysexData(value)\n            check_value(name, value)\n            vars(self)[name] = value",
         "                check_value(name, value)\n                value = SysexData(value)\n            else:\n                check_value(name, value)\n            vars(self)[name] = value", C),   # D25 again
 ],
 'C04': [
  (TOK, "            if byte <= 127:", "            if byte <= 128:", C),
  (TOK, "            if status in SPEC_BY_STATUS:\n                self._messages.append([status])\n\n        elif", "            self._messages.append([status])\n\n        elif", C),
  (TOK, "                self._messages.append(self._bytes)\n                self._status = 0\n        else:\n            # Ignore",
        "                self._messages.append(self._bytes)\n        else:\n            # Ignore", C),
  (TOK, "        elif status in SPEC_BY_STATUS:\n            # New message.", "        elif True:\n            # New message.", C),
  (TOK, "                self._len = spec['length']", "                self._len = 3", C),
  (TOK, "yield self._messages.popleft()", "yield self._messages.pop()", C),
  (PAR, "Message.from_bytes(midi_bytes)", "Message.from_bytes(midi_bytes[:3])", C),
  (TOK, "                self._bytes = [status]", "                self._bytes[:] = [status]", C),
 ],
 'C05': [
  (TOK, "        for byte in data:\n            self.feed_byte(byte)", "        self._status = 0\n        for byte in data:\n            self.feed_byte(byte)", C),
  (PAR, "        self._tok.feed_byte(byte)\n        self._decode()", "        self._tok.feed_byte(byte)", C),
  (PAR, "            yield self.messages.popleft()", "            yield self.messages.pop()", C),
  (PAR, "        return len(self.messages)", "        return len(self._tok)", C),
  (TOK, "                self._messages.append([status])\n                self._status = 0", "                self._messages.appendleft([status])\n                self._status = 0", C),
  (PQ, "        with self._parser_lock:\n            self._parser.feed(msg_bytes)\n            for msg in self._parser:\n                self.put(msg)",
       "        with self._parser_lock:\n            self._parser.feed(msg_bytes)\n        for msg in self._parser:\n            self.put(msg)", C),
  (PQ, "            for msg in self._parser:\n                self.put(msg)", "            for msg in reversed(list(self._parser)):\n                self.put(msg)", C),
  (PQ, "            for msg in self._parser:\n                self.put(msg)", "            msg = self._parser.get_message()\n            if msg is not None:\n                self.put(msg)", C),
  (PQ, "        with self._parser_lock:\n            self._parser.feed(msg_bytes)", "        with RLock():\n            self._parser.feed(msg_bytes)", C),
  (PQ, "            self._parser.feed(msg_bytes)\n            for msg in self._parser:\n                self.put(msg)",
       "            parser = self._parser\n            parser.feed(msg_bytes)\n            while parser.pending():\n                self.put(parser.get_message())", S),
  (TOK, "        if 0 <= byte <= 255:\n            if byte <= 127:\n                return self._feed_data_byte(byte)\n            else:\n                return self._feed_status_byte(byte)\n        else:\n            raise ValueError(f'invalid byte value {byte!r}')",
        "        if not 0 <= byte <= 255:\n            raise ValueError(f'invalid byte value {byte!r}')\n        handler = self._feed_data_byte if byte <= 127 else self._feed_status_byte\n        return handler(byte)", S),
  (PAR, "        for msg in self:\n            return msg\n        else:\n            return None", "        if not self.messages:\n            return None\n        return self.messages.popleft()", S),
  (PAR, "        for msg in self:\n            return msg\n        else:\n            return None", "        if len(self.messages) > 1:\n            return self.messages.popleft()\n        return None", C),
  (PQ, "            yield self.get()", "            return self.get()", C),   # D27 again
 ],
 'C06': [
  (TOK, "            if self._status != SYSEX_START:\n                # Realtime messages are only allowed inside sysex\n                # messages. Reset parser.\n                self._status = 0",
        "            self._status = 0", C),
  (TOK, "            if self._status == SYSEX_START:\n                self._bytes.append(SYSEX_END)\n                self._messages.append(self._bytes)",
        "            if self._status == SYSEX_START and len(self._bytes) > 1:\n                self._bytes.append(SYSEX_END)\n                self._messages.append(self._bytes)", C),
  (TOK, "                self._status = status\n                self._bytes = [status]", "                self._status = status\n                self._bytes.append(status)", C),
 ],
 'C07': [
  (MF, "data.extend(encode_variable_int(len(msg.data) + 1))", "data.extend(encode_variable_int(len(msg.data)))", C),
  (MF, "            data.extend(msg.bytes())\n            running_status_byte = None", "            data.extend(msg.bytes())", C),
  (MF, "            if status_byte < 0xf0:\n                running_status_byte = status_byte\n            else:\n                running_status_byte = None",
       "            running_status_byte = status_byte", C),
  (MF, "    if msg.time < 0:", "    if msg.time < 0 and not msg.is_meta:", C),   # (no longer equivalent since D28: a negative meta time behind a mid-track end_of_track)
  (TRK, "                yield msg.copy(skip_checks=skip_checks, time=delta)\n                accum = 0", "                yield msg.copy(skip_checks=skip_checks, time=delta)", C),
  (MF, "    return struct.unpack('>hhh', data[:6])", "    t, n, d = struct.unpack('>hhh', data[:6])\n    return t, d, n", C),
  (MF, "            peek_data = [status_byte]\n            status_byte = last_status", "            peek_data = []\n            status_byte = last_status", C),
  (MF, "    if data and data[-1] == 0xf7:\n        data = data[:-1]", "    if data and data[-1] == 0xf7:\n        data = data[:-2]", C),
  (MF, "            if status_byte != 0xff:\n                # Meta messages don't set running status.\n                last_status = status_byte", "            last_status = status_byte", S),
  (META, "        return [message.number >> 8, message.number & 0xff]", "        return [message.number & 0xff, message.number >> 8]", C),
  (META, "        return UnknownMetaMessage(meta_type, data, time=delta)", "        return UnknownMetaMessage(meta_type, data)", C),
  (SPECS, "REALTIME_TYPES = {'clock', 'start', 'continue', 'stop',\n                  'active_sensing', 'reset'}", "REALTIME_TYPES = {'clock', 'start', 'continue', 'stop',\n                  'active_sensing'}", C),
  (MF, "        if self.type == 0 and len(self.tracks) != 1:", "        if self.type == 0 and len(self.tracks) > 1:", C),
  (MF, "    for msg in fix_end_of_track(_checked_times(track)):", "    for msg in fix_end_of_track(track):", C),   # D28 again
 ],
 'C08': [
  (META, "        bytes.append(value & 0x7f)\n        value >>= 7", "        bytes.append(value & 0xff)\n        value >>= 8", C),
  (META, "        for i in range(len(bytes) - 1):\n            bytes[i] |= 0x80", "        for i in range(len(bytes)):\n            bytes[i] |= 0x80", C),
  (META, "        bytes.reverse()\n\n", "\n", C),
  (MF, "        delta = (delta << 7) | (byte & 0x7f)\n        if byte < 0x80:", "        delta = (delta << 7) | (byte & 0x7f)\n        if byte <= 0x80:", C),
  (MF, "        data_bytes = [byte if byte < 127 else 127 for byte in data_bytes]", "        data_bytes = [byte if byte < 128 else 128 for byte in data_bytes]", C),
  (MF, "            msg = read_sysex(infile, delta, clip)", "            msg = read_sysex(infile, delta)", C),
  (MF, "        return struct.unpack('>hhh', data[:6])", "        return struct.unpack('>hhh', data[-6:])", C),
  (MF, "    outfile.write(struct.pack('>L', len(data)))", "    outfile.write(struct.pack('<L', len(data)))", C),
  (MF, "        if infile.tell() - start == size:", "        if infile.tell() - start >= size - 2:", C),
  (MF, "        if infile.tell() - start == size:", "        if infile.tell() - start >= size - 1:", S),
  (MF, "        data = self.file.read(size)\n\n        for byte in data:", "        data = self.file.read(size)\n        self.file.read(0)\n        for byte in data[:1]:", C),
  (MF, "        data = self.file.read(size)\n", "        data = self.file.read(size)[:2]\n", C),
  (MF, "                                              clip=self.clip))", "                                              clip=False))", C),
  (MF, "        self.clip = clip", "        self.clip = bool(debug)", C),
  (MF, "        data = self.file.read(size)\n\n        for byte in data:\n            print_byte(byte, self.file.tell())\n\n        return data",
       "        chunk = self.file.read(size)\n        pos = self.file.tell()\n        for value in chunk:\n            print_byte(value, pos)\n        return chunk", S),
 ],
 'C09': [
  # the payload of a meta event from a stream that returns short reads
  (MF, "    data = read_bytes(infile, length)\n    return build_meta_message(meta_type, data, delta)",
       "    data = list(infile.read(length))\n    if len(data) < length:\n        raise EOFError\n    return build_meta_message(meta_type, data, delta)", C),
  (META, "        check_int(value, 0, 0xffffff)", "        check_int(value, 0, 0xfffffff)", C),
  (META, "        return [tempo >> 16, tempo >> 8 & 0xff, tempo & 0xff]", "        return [tempo >> 16, tempo >> 8, tempo & 0xff]", C),
  (META, "                         (3, 1): 'F#m',", "                         (3, 1): 'Fm',", C),
  (META, "        message.hours = (data[0] & 0b0001_1111)", "        message.hours = (data[0] & 0b0000_1111)", C),
  (META, "            if value & (value - 1):", "            if value & (value - 1) and value < 2 ** 64:", C),
  (META, "    elif not low <= value <= high:", "    elif not low <= value < high:", C),
  (META, "        return ([0xff, spec.type_byte] + encode_variable_int(len(data)) + data)", "        return ([0xff, spec.type_byte] + encode_variable_int(len(data) & 0x7f) + data)", C),
  (META, "            if name == 'time':\n                check_time(value)\n            else:\n                spec.check(name, value)\n            self_vars[name] = value",
         "            self_vars[name] = value\n            if name == 'time':\n                check_time(value)\n            else:\n                spec.check(name, value)", C),
  (META, "    _META_SPECS[spec.type_byte] = spec\n", "    _META_SPECS.setdefault(spec.type_byte & 0x7e, spec)\n", C),
  (MF, "    if size > MAX_MESSAGE_LENGTH:", "    if size >= MAX_MESSAGE_LENGTH // 16:", C),
  (META, "        while scan_end < len(msg_bytes) and msg_bytes[scan_end] & 0x80:", "        while scan_end < len(msg_bytes) - 1 and msg_bytes[scan_end] & 0x40:", C),
 ],
 'C10': [
  # the socket under the port: blocking, no timeout
  (SOCK, "            self._socket.setblocking(True)\n", "            self._socket.settimeout(5)\n", C),
  (SOCK, "            self._socket.setblocking(True)\n", "            self._socket.settimeout(None)\n", S),
  (PORTS, "        with self._lock:\n            if self._messages:\n                return self._messages.popleft()\n\n        if self.closed:",
          "        if self._messages:\n            with self._lock:\n                return self._messages.popleft()\n\n        if self.closed:", C),
  (PORTS, "        with self._lock:\n            self._send(msg.copy())", "        self._send(msg.copy())", C),
  (PORTS, "                elif self.closed:\n                    raise OSError('port closed during receive()')\n\n            sleep()",
          "                elif self.closed:\n                    raise OSError('port closed during receive()')\n\n                sleep()", C),
  (PORTS, "    def receive(self, block=True):\n        # The message queue belongs", "    def receive_(self, block=True):\n        # The message queue belongs", C),
  (PORTS, "class EchoPort(BaseIOPort):\n    def _send(self, message):\n        self._messages.append(message)",
          "class EchoPort(BaseIOPort):\n    _locking = False\n\n    def _send(self, message):\n        self._messages.append(message)", C),
  (PORTS, "            self._send(msg.copy())", "            self._send(msg)", C),
  (PORTS, "        with self._lock:\n            if self._messages:\n                return self._messages.popleft()\n\n        if self.closed:",
          "        q = self._messages\n        with self._lock:\n            pending = bool(q)\n        if pending:\n            return q.popleft()\n\n        if self.closed:", C),
  (PORTS, "        with self._lock:\n            if self._messages:\n                return self._messages.popleft()\n\n        if self.closed:",
          "        with self._lock:\n            pending = bool(self._messages)\n        with self._lock:\n            if pending:\n                return self._messages.popleft()\n\n        if self.closed:", C),
  (PORTS, "        with self._lock:\n            if self._messages:\n                return self._messages.popleft()\n\n        if self.closed:",
          "        lock, queue = self._lock, self._messages\n        with lock:\n            if len(queue) != 0:\n                return queue.popleft()\n\n        if self.closed:", S),
  (PORTS, "        if self._locking:\n            self._lock = threading.RLock()\n        else:\n            self._lock = DummyLock()", "        self._lock = threading.RLock() if self._locking else DummyLock()", S),
  (PORTS, "        if self._locking:\n            self._lock = threading.RLock()\n        else:\n            self._lock = DummyLock()", "        self._lock = DummyLock() if self._locking else threading.RLock()", C),
  (PQ, "        with self._parser_lock:\n            self._parser.feed(msg_bytes)", "        with RLock():\n            self._parser.feed(msg_bytes)", C),
 ],
 'C11': [
  (PORTS, "                    self._close()\n                    self.closed = True", "                    self._close()", C),
  (PORTS, "                    self._close()\n                    self.closed = True", "                    self.closed = True\n                    self._close()", S),
  (PORTS, "        elif self.closed:\n            raise ValueError('send() called on closed port')", "        elif self.closed and False:\n            raise ValueError('send() called on closed port')", C),
  (PORTS, "        # If there is a message pending, return it right away.\n        with self._lock:\n            if self._messages:\n                return self._messages.popleft()\n\n        if self.closed:",
          "        if self.closed:", C),
  (PORTS, "                elif not block:\n                    return None", "                elif not block:\n                    sleep()\n                    return None", C),
  (PORTS, "                        try:\n                            self.reset()\n                        except OSError:\n                            pass", "                        self.reset()", C),
  (PORTS, "        if self.closed:\n            return\n\n        for msg in reset_messages():", "        for msg in reset_messages():", C),
  (PORTS, "                                            block=False))", "                                            block=block))", C),
  (PORTS, "            except (OSError, ValueError):", "            except OSError:", C),
  (PORTS, "            if not self.closed and not getattr(self, '_closing', False):", "            if not self.closed:", C),   # D20 again
  (PORTS, "    def __iter__(self):\n        # Iteration ends when the input port closes", "    def _iter_unused(self):\n        # Iteration ends when the input port closes", C),   # D30 again
  (PORTS, "            for message in port.iter_pending():\n                if yield_ports:", "            for message in (port.iter_pending() if not port.closed else ()):\n                if yield_ports:", C),   # D31 again
 ],
 'C12': [
  (TRK, "    messages.sort(key=lambda msg: msg.time)", "    messages.sort(key=lambda msg: msg.time, reverse=True)", C),
  (TRK, "    messages.sort(key=lambda msg: msg.time)", "    messages.sort(key=lambda msg: (msg.time, msg.type))", C),
  (TRK, "        delta = msg.time - now\n        yield msg.copy(skip_checks=skip_checks, time=delta)\n        now = msg.time",
        "        now = msg.time\n        delta = msg.time - now\n        yield msg.copy(skip_checks=skip_checks, time=delta)", C),
  (TRK, "        now += msg.time\n        yield msg.copy(skip_checks=skip_checks, time=now)", "        now += msg.time\n        msg.time = now\n        yield msg", C),
  (TRK, "    yield MetaMessage('end_of_track', time=accum)", "    yield MetaMessage('end_of_track', time=0)", C),
  (TRK, "    messages.sort(key=lambda msg: msg.time)", "    messages = sorted(messages, key=lambda m: m.time)", S),
 ],
 'C13': [
  (MF, "            if duration_to_next_event > 0.0:", "            if duration_to_next_event > 0.0005:", C),
  (MF, "            if duration_to_next_event > 0.0:", "            if duration_to_next_event > 0:", S),
  (MF, "            if msg.time > 0:\n                delta = tick2second(msg.time, self.ticks_per_beat, tempo)\n            else:\n                delta = 0\n\n            yield",
       "            if msg.type == 'set_tempo':\n                tempo = msg.tempo\n            if msg.time > 0:\n                delta = tick2second(msg.time, self.ticks_per_beat, tempo)\n            else:\n                delta = 0\n\n            yield", C),
  (MF, "DEFAULT_TEMPO = 500000", "DEFAULT_TEMPO = 600000", C),
  (UNITS, "    scale = tempo * 1e-6 / ticks_per_beat\n    return tick * scale", "    scale = tempo * 1e-3 / ticks_per_beat\n    return tick * scale", C),
  (UNITS, "    return int(round(second / scale))", "    return int(second / scale)", C),
  (MF, "delta = tick2second(msg.time, self.ticks_per_beat, tempo)", "delta = tick2second(msg.time, tempo, self.ticks_per_beat)", C),
  (MF, "            playback_time = now() - start_time", "            playback_time = now() - start_time\n            start_time = now()", C),
  (MF, "            if duration_to_next_event > 0.0:\n                time.sleep(duration_to_next_event)", "            if msg.time > 0.0:\n                time.sleep(msg.time)", C),
  (MF, "            if isinstance(msg, MetaMessage) and not meta_messages:\n                continue\n            else:\n                yield msg", "            yield msg", C),
  (MF, "            yield msg.copy(skip_checks=True, time=delta)\n\n            if msg.type == 'set_tempo':\n                tempo = msg.tempo",
       "            if msg.type == 'set_tempo':\n                tempo = msg.tempo\n\n            yield msg.copy(skip_checks=True, time=delta)", S),
  # the clock is not looked at for messages that are passed over: same schedule for everything that is handed out
  (MF, "            input_time += msg.time\n\n            playback_time = now() - start_time\n            duration_to_next_event = input_time - playback_time\n\n            if duration_to_next_event > 0.0:\n                time.sleep(duration_to_next_event)\n\n            if isinstance(msg, MetaMessage) and not meta_messages:\n                continue\n            else:\n                yield msg",
       "            input_time += msg.time\n\n            if isinstance(msg, MetaMessage) and not meta_messages:\n                continue\n\n            playback_time = now() - start_time\n            duration_to_next_event = input_time - playback_time\n\n            if duration_to_next_event > 0.0:\n                time.sleep(duration_to_next_event)\n\n            yield msg", S),
  # ... but the ticks of a message that is passed over count for what follows it
  (MF, "            input_time += msg.time\n\n            playback_time = now() - start_time", "            if isinstance(msg, MetaMessage) and not meta_messages:\n                continue\n\n            input_time += msg.time\n\n            playback_time = now() - start_time", C),
 ],
 'C14': [
  (STRS, "    if not (value.startswith('(') and value.endswith(')')):", "    if not value.startswith('(') and value.endswith(')'):", C),
  (STRS, "    value = value[1:-1]\n    if not value:\n        # Empty data: ''.split(',') would give [''].\n        return []\n", "    value = value[1:-1]\n", C),
  (MSGS, "        except LookupError as le:", "        except KeyError as le:", C),
  (TRK, "messages = f'[{self[0]!r}]'", "messages = f'[{self[0]}]'", C),
  (MSGS, "            items.append(f'{name}={getattr(self, name)!r}')", "            items.append(f'{name}={getattr(self, name)}')", C),
  (STRS, "        name, value = arg.split('=', 1)", "        name, value = arg.split('=')", S),
  (MSGS, "        line_number += 1", "            line_number += 1", C),
  (STRS, "        words.append('time={}'.format(msg['time']))", "        words.append('time={:d}'.format(msg['time']))", C),
  (MSGS, "        check_msgdict(msgdict)\n        return cl(**msgdict)", "        return cl(**msgdict)", C),   # D24 again
 ],
 'C15': [
  (FRZ, "    elif isinstance(msg, UnknownMetaMessage):\n        class_ = FrozenUnknownMetaMessage\n    elif isinstance(msg, MetaMessage):\n        class_ = FrozenMetaMessage",
        "    elif isinstance(msg, MetaMessage):\n        class_ = FrozenMetaMessage\n    elif isinstance(msg, UnknownMetaMessage):\n        class_ = FrozenUnknownMetaMessage", C),
  (FRZ, "class FrozenMetaMessage(Frozen, MetaMessage):", "class FrozenMetaMessage(MetaMessage, Frozen):", C),
  (FRZ, "    frozen = class_.__new__(class_)\n    vars(frozen).update(vars(msg))\n    return frozen", "    frozen = class_.__new__(class_)\n    frozen.__dict__ = vars(msg)\n    return frozen", C),
  (FRZ, "        return hash(tuple(sorted(vars(self).items())))", "        return hash(tuple(vars(self).items()))", C),
  (FRZ, "        return hash(tuple(sorted(vars(self).items())))", "        return hash((id(self), tuple(sorted(vars(self).items()))))", C),
  (FRZ, "        return hash(tuple(sorted(vars(self).items())))", "        return hash(frozenset(self.__dict__.items()))", S),
  (MSGS, "        return vars(self) == vars(other)", "        return self.__dict__ == other.__dict__", S),
  (MSGS, "        return vars(self) == vars(other)", "        a = dict(vars(self)); b = dict(vars(other))\n        a.pop('time'); b.pop('time')\n        return a == b", C),
  (FRZ, "        return hash(tuple(sorted(vars(self).items())))", "        return hash((self.type, self.time))", S),   # weaker hash, but equal messages still hash equal: the property holds
  (FRZ, "    if isinstance(msg, Frozen):\n        # Already frozen.\n        return msg", "    if isinstance(msg, Frozen):\n        # Already frozen.\n        return msg.copy()", C),
  (FRZ, "    if msg is None:\n        return None\n    elif not isinstance(msg, Frozen):", "    if not isinstance(msg, Frozen):", C),
 ],
 'C16': [
  # save(filename): the file of that name, opened from scratch
  (MF, "            with open(filename, 'wb') as file:\n                self._save(file)",
       "            import os\n            with open(os.open(filename, os.O_WRONLY | os.O_CREAT, 0o644), 'wb') as file:\n                self._save(file)", C),
  (MF, "            with open(filename, 'wb') as file:\n                self._save(file)",
       "            import os\n            with open(os.open(filename, os.O_WRONLY | os.O_CREAT | os.O_TRUNC, 0o644), 'wb') as file:\n                self._save(file)", S),
  (MF, "            with open(filename, 'wb') as file:\n                self._save(file)",
       "            with open(filename, 'r+b') as file:\n                self._save(file)", C),
  (MF, "        return merge_tracks(self.tracks, skip_checks=True)\n",
       "        if getattr(self, '_mt', None) is None:\n            self._mt = merge_tracks(self.tracks, skip_checks=True)\n        return self._mt\n", C),
  (MF, "    @property\n    def length(self):", "    @functools.cached_property\n    def length(self):", C),
 ],
 'C17': [
  (META, "    try:\n        yield\n    finally:\n        _charset = old", "    yield\n    _charset = old", C),
  (META, "    try:\n        yield\n    finally:\n        _charset = old", "    try:\n        yield\n    except ValueError:\n        _charset = old\n        raise\n    _charset = old", C),
  (META, "def encode_string(string):\n    return list(bytearray(string.encode(_charset)))", "def encode_string(string, charset=_charset):\n    return list(bytearray(string.encode(charset)))", C),
  (META, "    def decode(self, message, data):\n        message.name = decode_string(data)", "    def decode(self, message, data):\n        message.name = bytearray(data).decode('latin1')", C),
  (MF, "        with meta_charset(self.charset):\n            if self.debug:\n                _dbg('Header:')", "        with meta_charset('latin1'):\n            if self.debug:\n                _dbg('Header:')", C),
  (META, "    return bytearray(data).decode(_charset)", "    return bytearray(data).decode(_charset, 'replace')", C),
 ],
 'C18': [
  (SOCK, "                self.close()\n                break", "                break", C),
  (SOCK, "    timeout = 0", "    timeout = None", C),
  (SOCK, "        while _is_readable(self._socket):\n            try:\n                byte = self._rfile.read(1)", "        while True:\n            try:\n                byte = self._rfile.read(1)", C),
  (SOCK, "    if not 0 < port < (2**16):", "    if not 0 <= port < (2**16):", C),
  (SOCK, "    return f'{host}:{portno:d}'", "    return f'{host}{portno:d}'", C),
  (SOCK, "        for file in [self._rfile, self._wfile]:", "        for file in [self._rfile]:", C),
  (SOCK, "        return MultiPort._receive(self)", "        return MultiPort._receive(self, block)", S),
  (SOCK, "                if err.errno in _DISCONNECT_ERRNOS:", "                if False:", C),   # D35 again
 ],
 'C19': [
  (SYX, "    messages = [m for m in messages if m.type == 'sysex']", "    messages = list(messages)", C),
  (SYX, "    return [msg for msg in parser if msg.type == 'sysex']", "    return list(parser)", C),
  (SYX, "    if data[0] >= 0x80:", "    if data[0] == 0xf7:", C),
  (SYX, "    if len(data) == 0:\n        # Empty file.\n        return []", "", C),
  (SYX, "                outfile.write(message.hex())\n                outfile.write('\\n')", "                outfile.write(message.hex())", S),
  (SYX, "    if data[0] >= 0x80:", "    if data[0] == 240:", C),   # D33 again
 ],
 'C20': [
  (BK, "        if name is None:\n            name = self._env('MIDO_DEFAULT_INPUT')\n\n        return self.module.Input", "        name = self._env('MIDO_DEFAULT_INPUT') or name\n\n        return self.module.Input", C),
  (BK, "        if name is None:\n            name = self._env('MIDO_DEFAULT_OUTPUT')", "        if name is None:\n            name = self._env('MIDO_DEFAULT_INPUT')", C),
  (BK, "        return self.module.Output(name, **self._add_api(kwargs))", "        return self.module.Output(name, **kwargs)", C),
  (BK, "        if self.use_environ:\n            return os.environ.get(name)", "        if self.use_environ or name == 'MIDO_DEFAULT_IOPORT':\n            return os.environ.get(name)", C),
  (BK, "        if load:\n            self.load()", "        self.load()", C),
  (BK, "names = [device['name'] for device in devices if device['is_output']]", "names = [device['name'] for device in devices if device['is_input']]", C),
  (BK, "        if self.api and 'api' not in kwargs:", "        if self.api:", C),
  (INIT, "        if name.split('_')[0] in ['open', 'get']:", "        if name.split('_')[0] in ['open']:", C),
  (BK, "        if self.name and '/' in self.name:\n            self.name, name_api = self.name.split('/', 1)", "        if not api and self.name and '/' in self.name:\n            self.name, name_api = self.name.split('/', 1)", C),   # D34 again
 ],
}


def _run_one(args):
    prop, repo, idx, rel, old, new, expect = args
    src_path = os.path.join(repo, rel)
    try:
        with open(src_path, encoding='utf-8') as f:
            src = f.read()
    except OSError:
        return idx, 'skipped', 'file missing'
    if old not in src:
        return idx, 'skipped', 'anchor text not present'
    d = tempfile.mkdtemp(prefix=f'midolint_{prop}_')
    try:
        shutil.copytree(os.path.join(repo, 'mido'), os.path.join(d, 'mido'),
                        ignore=shutil.ignore_patterns('__pycache__'))
        with open(os.path.join(d, rel), 'w', encoding='utf-8') as f:
            f.write(src.replace(old, new, 1))
        try:
            compile(src.replace(old, new, 1), rel, 'exec')
        except SyntaxError as e:
            return idx, 'skipped', f'mutant does not compile: {e}'
        env = dict(os.environ)
        env['MIDOLINT_NO_SELFTEST'] = '1'
        r = subprocess.run([sys.executable, os.path.join(HERE, 'midolint', 'main.py'), prop, '--repo', d,
                            '--evidence-dir', os.path.join(d, 'ev')], capture_output=True, text=True, env=env, timeout=600)
        got = {0: 'silent', 1: 'caught'}.get(r.returncode, f'exit {r.returncode}')
        first = next((ln for ln in r.stdout.splitlines() if ' - R' in ln), '')
        return idx, ('ok' if got == expect else 'MISMATCH'), f'expected {expect}, got {got}; {first[:160]}'
    finally:
        shutil.rmtree(d, ignore_errors=True)


def apply_unified(diff_text, root):
    """Apply a git-style unified diff below `root` (pure Python: no patch/git needed).  Returns None on success, else the reason."""
    import re
    files = re.split(r'^diff --git .*$', diff_text, flags=re.M)[1:]
    if not files:
        return 'no file sections'
    for sec in files:
        m = re.search(r'^\+\+\+ b/(.+)$', sec, flags=re.M)
        if not m:
            return 'no target file'
        rel = m.group(1).strip()
        path = os.path.join(root, rel)
        m0 = re.search(r'^--- (.+)$', sec, flags=re.M)
        creating = bool(m0 and m0.group(1).strip() == '/dev/null')
        try:
            lines = [] if creating else open(path, encoding='utf-8').read().split('\n')
        except OSError:
            return f'{rel} missing'
        hunks = re.split(r'^@@ -(\d+)(?:,(\d+))? \+(\d+)(?:,(\d+))? @@.*$', sec, flags=re.M)
        out_shift = 0
        for i in range(1, len(hunks), 5):
            start = int(hunks[i])
            body = hunks[i + 4].split('\n')
            if body and body[0] == '':
                body = body[1:]
            if body and body[-1] == '':
                body = body[:-1]        # artefact of splitting the text after the last line of the hunk
            oldl, newl = [], []
            for ln in body:
                if ln.startswith('\\'):
                    continue
                if ln.startswith('+'):
                    newl.append(ln[1:])
                elif ln.startswith('-'):
                    oldl.append(ln[1:])
                elif ln.startswith(' ') or ln == '':
                    if ln == '' and not (oldl or newl):
                        continue
                    oldl.append(ln[1:])
                    newl.append(ln[1:])
            while oldl and newl and oldl[-1] == '' and newl[-1] == '' and (start - 1 + out_shift + len(oldl)) > len(lines):
                oldl.pop()
                newl.pop()
            pos = None
            guess = start - 1 + out_shift
            for off in sorted(range(-60, 61), key=abs):
                p0 = guess + off
                if p0 >= 0 and lines[p0:p0 + len(oldl)] == oldl:
                    pos = p0
                    break
            if pos is None:
                return f'hunk at line {start} of {rel} does not apply'
            lines[pos:pos + len(oldl)] = newl
            out_shift += len(newl) - len(oldl) + (pos - guess)
        os.makedirs(os.path.dirname(path), exist_ok=True)
        with open(path, 'w', encoding='utf-8') as f:
            f.write('\n'.join(lines))
    return None


def _run_patch(args):
    """A recorded change (seeded breaking change or behaviour-preserving refactoring) applied to a scratch copy of the tree."""
    prop, repo, name, kind, expect = args
    diff_path = os.path.join(HERE, kind, name, 'patch.diff')
    try:
        diff = open(diff_path, encoding='utf-8').read()
    except OSError:
        return name, 'skipped', 'patch file missing'
    d = tempfile.mkdtemp(prefix=f'midolint_{prop}_')
    try:
        shutil.copytree(os.path.join(repo, 'mido'), os.path.join(d, 'mido'), ignore=shutil.ignore_patterns('__pycache__'))
        why = apply_unified(diff, d)
        if why:
            return name, 'skipped', f'recorded patch no longer applies ({why})'
        env = dict(os.environ)
        env['MIDOLINT_NO_SELFTEST'] = '1'
        r = subprocess.run([sys.executable, os.path.join(HERE, 'midolint', 'main.py'), prop, '--repo', d,
                            '--evidence-dir', os.path.join(d, 'ev')], capture_output=True, text=True, env=env, timeout=900)
        got = {0: 'silent', 1: 'caught'}.get(r.returncode, f'exit {r.returncode}')
        first = next((ln for ln in r.stdout.splitlines() if ' - R' in ln or 'ANALYSIS-ERROR' in ln), '')
        return name, ('ok' if got == expect else 'MISMATCH'), f'expected {expect}, got {got}; {first[:160]}'
    finally:
        shutil.rmtree(d, ignore_errors=True)


def recorded(prop):
    """(name, kind, expectation) of the recorded sub-agent changes for this property."""
    out = []
    for kind, expect in (('seeded', 'caught'), ('refactors', 'silent')):
        base = os.path.join(HERE, kind)
        if os.path.isdir(base):
            for name in sorted(os.listdir(base)):
                if name.startswith(prop + '-') and os.path.isfile(os.path.join(base, name, 'patch.diff')):
                    out.append((name, kind, expect))
    return out


def run(prop, repo, evidence_dir=None):
    t0 = time.time()
    cat = CATALOGUE.get(prop, [])
    jobs = [(prop, repo, i, rel, old, new, expect) for i, (rel, old, new, expect) in enumerate(cat)]
    results = []
    with ThreadPoolExecutor(max_workers=min(16, max(1, len(jobs)))) as ex:
        for r in ex.map(_run_one, jobs):
            results.append(r)
    ok = sum(1 for r in results if r[1] == 'ok')
    skipped = [r for r in results if r[1] == 'skipped']
    bad = [r for r in results if r[1] == 'MISMATCH']
    print(f'[{prop}] self-test: {len(cat)} mutants ({sum(1 for c in cat if c[3] == "caught")} must be caught, '
          f'{sum(1 for c in cat if c[3] == "silent")} must stay silent): {ok} as expected, {len(skipped)} skipped, {len(bad)} mismatches '
          f'in {time.time() - t0:.1f}s')
    for idx, st, why in bad:
        rel, old, new, expect = cat[idx]
        print(f'ANALYSIS-ERROR: property={prop} self-test mutant #{idx} in {rel} ({old.strip().splitlines()[0][:50]!r} -> '
              f'{new.strip().splitlines()[0][:50] if new.strip() else "<deleted>"!r}): {why}')
    # recorded changes from the sub-agent rounds: breaking ones must be reported, refactorings must stay silent
    rec = recorded(prop)
    rec_results = []
    with ThreadPoolExecutor(max_workers=min(16, max(1, len(rec)))) as ex:
        for r in ex.map(_run_patch, [(prop, repo, name, kind, expect) for name, kind, expect in rec]):
            rec_results.append(r)
    rbad = [r for r in rec_results if r[1] == 'MISMATCH']
    print(f'[{prop}] recorded changes: {sum(1 for r in rec if r[2] == "caught")} breaking (must be caught), '
          f'{sum(1 for r in rec if r[2] == "silent")} refactorings (must stay silent): {sum(1 for r in rec_results if r[1] == "ok")} as expected, '
          f'{sum(1 for r in rec_results if r[1] == "skipped")} skipped, {len(rbad)} mismatches in {time.time() - t0:.1f}s total')
    for name, st, why in rbad:
        print(f'ANALYSIS-ERROR: property={prop} recorded change {name}: {why}')
    # record in the evidence file
    ev_dir = evidence_dir or os.path.join(HERE, 'evidence')
    p = os.path.join(ev_dir, f'{prop}.json')
    try:
        with open(p) as f:
            ev = json.load(f)
        ev['tier'] = 'thorough'
        ev['coverage']['selftest'] = {
            'mutants': len(cat), 'as_expected': ok, 'skipped': len(skipped), 'mismatches': len(bad),
            'details': [{'file': cat[i][0], 'expect': cat[i][3], 'result': st, 'note': why} for i, st, why in results],
            'recorded_changes': [{'change': name, 'result': st, 'note': why} for name, st, why in rec_results],
        }
        ev['wall_s'] = round(ev.get('wall_s', 0) + time.time() - t0, 3)
        with open(p, 'w') as f:
            json.dump(ev, f, indent=1, default=str)
    except OSError:
        pass
    return 2 if (bad or rbad) else 0
