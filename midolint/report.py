"""E9 - obligations, findings, known findings, evidence, exit codes."""
from __future__ import annotations

import json
import os
import time

from .model import AnalysisError, Unsupported

VERIF = os.path.dirname(os.path.dirname(os.path.abspath(__file__)))
KNOWN = os.path.join(VERIF, 'known_findings.json')


class Obligation:
    __slots__ = ('rule', 'instance', 'where', 'ok', 'why', 'construct', 'detail')

    def __init__(self, rule, instance, where, ok, why='', construct=None, detail=''):
        self.rule = rule
        self.instance = instance
        self.where = where
        self.ok = ok
        self.why = why
        self.construct = construct or f'{where.split(":")[0]}::{instance}'
        self.detail = detail

    def text(self):
        s = f'{self.where} - {self.rule} - {self.instance}'
        if self.why:
            s += f' - {self.why}'
        return s


class Ctx:
    def __init__(self, prop, program, folder, tier='quick'):
        self.prop = prop
        self.p = program
        self.f = folder
        self.tier = tier
        self.obligations: list[Obligation] = []
        self.errors: list[str] = []
        self.functions = set()
        self.paths = 0
        self.call_sites = 0
        self.floors = {}
        self.notes = []
        self.extra = {}
        self.cache = {}

    # -- recording --------------------------------------------------------
    def ok(self, rule, instance, where, detail=''):
        self.obligations.append(Obligation(rule, instance, where, True, detail=detail))
        return True

    def fail(self, rule, instance, where, why, construct=None):
        self.obligations.append(Obligation(rule, instance, where, False, why, construct))
        return False

    def require(self, cond, rule, instance, where, why='', construct=None, detail=''):
        if cond:
            return self.ok(rule, instance, where, detail)
        return self.fail(rule, instance, where, why, construct)

    def borrow(self, fn, rule):
        """Run a rule function of another property and file its obligations under `rule` of this one (shared mechanism)."""
        before = len(self.obligations)
        fn(self)
        for o in self.obligations[before:]:
            o.rule = rule

    def error(self, msg):
        self.errors.append(msg)

    def floor(self, rule, count, minimum):
        self.floors[rule] = {'found': count, 'floor': minimum}
        if count < minimum:
            self.error(f'{rule}: only {count} instances found, floor is {minimum} '
                       f'(anchor renamed or rewritten?)')

    def fn(self, info):
        self.functions.add(info.qname)
        self.p.consulted.add(info.module.relpath)
        return info

    def where(self, info_or_module, node=None):
        if info_or_module is None:
            return f'mido:{getattr(node, "lineno", 0)}'
        m = getattr(info_or_module, 'module', info_or_module)
        line = getattr(node, 'lineno', None) or getattr(getattr(info_or_module, 'node', None), 'lineno', 0)
        name = getattr(info_or_module, 'qname', None)
        if name:
            return f'{m.relpath}:{line} {name.split("::")[1]}'
        return f'{m.relpath}:{line}'

    def run_rule(self, name, fn):
        try:
            fn(self)
        except Unsupported as e:
            if os.environ.get('MIDOLINT_DEBUG'):
                import traceback
                traceback.print_exc()
            self.fail(name, 'analysable', f'mido: {name}',
                      f'cannot establish the obligations of {name}: {e}', construct=f'{name}::unsupported')
        except AnalysisError as e:
            self.error(f'{name}: {e}')
        except RecursionError as e:      # pragma: no cover
            self.error(f'{name}: recursion: {e}')
        except Exception as e:           # noqa: BLE001  - reported as analysis error
            import traceback
            tb = traceback.extract_tb(e.__traceback__)[-1]
            self.error(f'{name}: internal {type(e).__name__}: {e} ({os.path.basename(tb.filename)}:{tb.lineno})')


def load_known():
    if not os.path.exists(KNOWN):
        return []
    with open(KNOWN) as f:
        return json.load(f).get('findings', [])


def finish(ctx: Ctx, level, explanation, trusted_base, assumptions, t0, replay_filter=None,
           evidence_dir=None, quiet=False):
    known = [k for k in load_known() if k.get('property') == ctx.prop and k.get('status') == 'open']
    fails = [o for o in ctx.obligations if not o.ok]
    # de-duplicate by (rule, construct)
    seen = {}
    for o in fails:
        seen.setdefault((o.rule, o.construct), o)
    fails = list(seen.values())
    matched, viol = [], []
    for o in fails:
        k = next((k for k in known if k['rule'] == o.rule and k['construct'] == o.construct), None)
        if k is not None:
            matched.append((o, k))
        else:
            viol.append(o)
    if replay_filter is not None:
        viol = [o for o in viol if (o.rule, o.construct) == replay_filter]
    evidence_dir = evidence_dir or os.path.join(VERIF, 'evidence')
    replay_dir = os.path.join(evidence_dir, 'replay')
    lines = []
    for o, k in matched:
        lines.append(f'KNOWN-FINDING: property={ctx.prop} {o.rule} {o.construct} - {k.get("what", o.why)}')
    for i, o in enumerate(viol):
        os.makedirs(replay_dir, exist_ok=True)
        rp = os.path.join(replay_dir, f'{ctx.prop}-{i}.json')
        with open(rp, 'w') as f:
            json.dump({'property': ctx.prop, 'rule': o.rule, 'instance': o.instance,
                       'construct': o.construct, 'where': o.where, 'why': o.why}, f, indent=1)
        lines.append(o.text())
        lines.append(f'VIOLATION property={ctx.prop} replay={rp}')
    for e in ctx.errors:
        lines.append(f'ANALYSIS-ERROR: property={ctx.prop} {e}')
    n_ob = len(ctx.obligations)
    n_ok = sum(1 for o in ctx.obligations if o.ok)
    distinct = len({(o.rule, o.instance) for o in ctx.obligations})
    samples = [o.text() + (f' [{o.detail}]' if o.detail else '') for o in ctx.obligations[:12]]
    # a few from each rule
    byrule = {}
    for o in ctx.obligations:
        byrule.setdefault(o.rule, []).append(o)
    rules = {r: {'obligations': len(v), 'discharged': sum(1 for o in v if o.ok)} for r, v in sorted(byrule.items())}
    cov = {
        'obligations': n_ob,
        'discharged': n_ok + len(matched),
        'checker_cmd': f'./check {ctx.prop} --tier {ctx.tier}',
        'trusted_base': trusted_base,
        'explanation': explanation,
        'evaluations': n_ob,
        'distinct_nontrivial': distinct,
        'rule': ('one evaluation = one rule instance (obligation) checked on a resolved construct of '
                 '/repo/mido; distinct = distinct (rule, instance) pairs; every obligation inspects at '
                 'least one parsed construct, rules with no construct to inspect fail their floor instead'),
        'samples': samples,
        'rules': rules,
        'functions_analysed': sorted(ctx.functions),
        'paths_enumerated': ctx.paths,
        'call_sites': ctx.call_sites,
        'tables_folded': sorted(ctx.f.tables_folded),
        'floors': ctx.floors,
        'known_findings_matched': [f'{o.rule} {o.construct}' for o, _ in matched],
        'violating_constructs': [o.text() for o in viol],
        'analysis_errors': ctx.errors,
        'source_digest': ctx.p.digest(ctx.p.consulted),
        'modules_consulted': sorted(ctx.p.consulted),
        'exhaustive': False,
    }
    cov.update(ctx.extra)
    ev = {
        'property_id': ctx.prop,
        'tier': ctx.tier,
        'seed': int(os.environ.get('VERIF_SEED', '0') or 0),
        'level': level,
        'coverage': cov,
        'assumptions': assumptions,
        'wall_s': round(time.time() - t0, 3),
        'violations': len(viol),
    }
    if replay_filter is None:
        os.makedirs(evidence_dir, exist_ok=True)
        with open(os.path.join(evidence_dir, f'{ctx.prop}.json'), 'w') as f:
            json.dump(ev, f, indent=1, default=str)
    if not quiet:
        print(f'[{ctx.prop}] {n_ob} obligations, {n_ok} discharged, {len(matched)} known findings, '
              f'{len(viol)} violations, {len(ctx.errors)} analysis errors; '
              f'{len(ctx.functions)} functions, {ctx.paths} paths, {ctx.call_sites} call sites')
        for ln in lines:
            print(ln)
    if viol:
        return 1
    if ctx.errors:
        return 2
    return 0
