"""Polynomial (sum of monomials) domain over strictly positive real symbols -
used for the tick/second conversions and the playback scheduler (C13).

Poly = {monomial: coefficient}, monomial = sorted tuple of (symbol, exponent).
All symbols are assumed > 0, so a polynomial whose coefficients all have one
sign has that sign; anything else is undecided.
"""
from __future__ import annotations

import math


class Poly:
    __slots__ = ('terms',)

    def __init__(self, terms=None):
        self.terms = {k: v for k, v in (terms or {}).items() if v != 0}

    @staticmethod
    def const(c):
        return Poly({(): c})

    @staticmethod
    def sym(name):
        return Poly({((name, 1),): 1})

    def is_const(self):
        return all(k == () for k in self.terms)

    def const_value(self):
        return self.terms.get((), 0)

    def add(self, o):
        t = dict(self.terms)
        for k, v in o.terms.items():
            t[k] = t.get(k, 0) + v
        return Poly(t)

    def neg(self):
        return Poly({k: -v for k, v in self.terms.items()})

    def sub(self, o):
        return self.add(o.neg())

    def mul(self, o):
        t = {}
        for k1, v1 in self.terms.items():
            for k2, v2 in o.terms.items():
                k = _mono_mul(k1, k2)
                t[k] = t.get(k, 0) + v1 * v2
        return Poly(t)

    def div(self, o):
        if len(o.terms) != 1:
            return None
        (k2, v2), = o.terms.items()
        inv = tuple((s, -e) for s, e in k2)
        t = {}
        for k1, v1 in self.terms.items():
            t[_mono_mul(k1, inv)] = v1 / v2
        return Poly(t)

    def sign(self):
        """+1 / -1 / 0 when definite, None otherwise."""
        if not self.terms:
            return 0
        vs = list(self.terms.values())
        if all(v > 0 for v in vs):
            return 1
        if all(v < 0 for v in vs):
            return -1
        return None

    def close_to(self, o, rel=1e-9):
        ks = set(self.terms) | set(o.terms)
        for k in ks:
            a, b = self.terms.get(k, 0), o.terms.get(k, 0)
            if not math.isclose(a, b, rel_tol=rel, abs_tol=1e-300):
                return False
        return True

    def __repr__(self):
        if not self.terms:
            return '0'
        parts = []
        for k, v in sorted(self.terms.items(), key=lambda kv: repr(kv[0])):
            m = '*'.join(f'{s}' if e == 1 else f'{s}^{e}' for s, e in k)
            parts.append(f'{v:g}' + (f'*{m}' if m else ''))
        return ' + '.join(parts)


def _mono_mul(a, b):
    d = dict(a)
    for s, e in b:
        d[s] = d.get(s, 0) + e
    return tuple(sorted((s, e) for s, e in d.items() if e != 0))


def to_poly(x):
    if isinstance(x, Poly):
        return x
    if isinstance(x, bool):
        return None
    if isinstance(x, (int, float)):
        return Poly.const(x)
    return None


class Wrapped:
    """int(round(p)) etc. kept symbolic."""
    def __init__(self, fn, arg):
        self.fn = fn
        self.arg = arg

    def __repr__(self):
        return f'{self.fn}({self.arg!r})'
