"""E8 - reference tables (the oracles that are NOT read from the repository).

MIDI 1.0 Detailed Specification 4.2 (status bytes, data byte counts, bit layout),
Standard MIDI Files 1.0 (meta event types and payload layouts, VLQ, running
status) and mido's documented attribute domains (docs/message_types.rst,
docs/meta_message_types.rst).
"""

# MIDI 1.0, table 1 "Summary of MIDI messages": (status, type, value names, length)
MIDI_SPECS = [
    (0x80, 'note_off', ('channel', 'note', 'velocity'), 3),
    (0x90, 'note_on', ('channel', 'note', 'velocity'), 3),
    (0xa0, 'polytouch', ('channel', 'note', 'value'), 3),
    (0xb0, 'control_change', ('channel', 'control', 'value'), 3),
    (0xc0, 'program_change', ('channel', 'program'), 2),
    (0xd0, 'aftertouch', ('channel', 'value'), 2),
    (0xe0, 'pitchwheel', ('channel', 'pitch'), 3),
    (0xf0, 'sysex', ('data',), float('inf')),
    (0xf1, 'quarter_frame', ('frame_type', 'frame_value'), 2),
    (0xf2, 'songpos', ('pos',), 3),
    (0xf3, 'song_select', ('song',), 2),
    (0xf6, 'tune_request', (), 1),
    (0xf8, 'clock', (), 1),
    (0xfa, 'start', (), 1),
    (0xfb, 'continue', (), 1),
    (0xfc, 'stop', (), 1),
    (0xfe, 'active_sensing', (), 1),
    (0xff, 'reset', (), 1),
]
UNDEFINED_STATUS = {0xf4, 0xf5, 0xf7, 0xf9, 0xfd}
REALTIME_TYPE_NAMES = {'clock', 'start', 'continue', 'stop', 'active_sensing', 'reset'}

# docs/message_types.rst "Parameter Types"
ATTR_DOMAINS = {
    'channel': (0, 15), 'frame_type': (0, 7), 'frame_value': (0, 15),
    'control': (0, 127), 'note': (0, 127), 'program': (0, 127), 'song': (0, 127),
    'value': (0, 127), 'velocity': (0, 127), 'pitch': (-8192, 8191), 'pos': (0, 16383),
}

# MIDI 1.0 data byte layout: per type, one list per data byte; each field is
# (attribute, first source bit of the unsigned-normalised attribute, width, target bit)
DATA_LAYOUT = {
    'note_off': [[('note', 0, 7, 0)], [('velocity', 0, 7, 0)]],
    'note_on': [[('note', 0, 7, 0)], [('velocity', 0, 7, 0)]],
    'polytouch': [[('note', 0, 7, 0)], [('value', 0, 7, 0)]],
    'control_change': [[('control', 0, 7, 0)], [('value', 0, 7, 0)]],
    'program_change': [[('program', 0, 7, 0)]],
    'aftertouch': [[('value', 0, 7, 0)]],
    # 14 bit, least significant 7 bits first; pitch is offset binary (8192 = centre)
    'pitchwheel': [[('pitch', 0, 7, 0)], [('pitch', 7, 7, 0)]],
    # 0nnndddd : nnn message type, dddd values
    'quarter_frame': [[('frame_type', 0, 3, 4), ('frame_value', 0, 4, 0)]],
    'songpos': [[('pos', 0, 7, 0)], [('pos', 7, 7, 0)]],
    'song_select': [[('song', 0, 7, 0)]],
    'tune_request': [], 'clock': [], 'start': [], 'continue': [], 'stop': [],
    'active_sensing': [], 'reset': [],
}

# SMF 1.0 meta events: name -> (type byte, attributes, payload length or None=variable)
META_SPECS = {
    'sequence_number': (0x00, ['number'], 2),
    'text': (0x01, ['text'], None),
    'copyright': (0x02, ['text'], None),
    'track_name': (0x03, ['name'], None),
    'instrument_name': (0x04, ['name'], None),
    'lyrics': (0x05, ['text'], None),
    'marker': (0x06, ['text'], None),
    'cue_marker': (0x07, ['text'], None),
    'device_name': (0x09, ['name'], None),
    'channel_prefix': (0x20, ['channel'], 1),
    'midi_port': (0x21, ['port'], 1),
    'end_of_track': (0x2f, [], 0),
    'set_tempo': (0x51, ['tempo'], 3),
    'smpte_offset': (0x54, ['frame_rate', 'hours', 'minutes', 'seconds', 'frames', 'sub_frames'], 5),
    'time_signature': (0x58, ['numerator', 'denominator', 'clocks_per_click',
                              'notated_32nd_notes_per_beat'], 4),
    'key_signature': (0x59, ['key'], 2),
    'sequencer_specific': (0x7f, ['data'], None),
}
TEXT_META = ['text', 'copyright', 'track_name', 'instrument_name', 'lyrics', 'marker',
             'cue_marker', 'device_name']

# docs/meta_message_types.rst
META_DOMAINS = {
    ('sequence_number', 'number'): (0, 65535),
    ('channel_prefix', 'channel'): (0, 255),
    ('midi_port', 'port'): (0, 255),
    ('set_tempo', 'tempo'): (0, 16777215),
    ('smpte_offset', 'hours'): (0, 255),
    ('smpte_offset', 'minutes'): (0, 59),
    ('smpte_offset', 'seconds'): (0, 59),
    ('smpte_offset', 'frames'): (0, 255),
    ('smpte_offset', 'sub_frames'): (0, 99),
    ('time_signature', 'numerator'): (0, 255),
    ('time_signature', 'denominator'): (1, 2 ** 255),
    ('time_signature', 'clocks_per_click'): (0, 255),
    ('time_signature', 'notated_32nd_notes_per_beat'): (0, 255),
}
# payload layout (big endian), fields as in DATA_LAYOUT but bytes are 8 bit
META_LAYOUT = {
    'sequence_number': [[('number', 8, 8, 0)], [('number', 0, 8, 0)]],
    'channel_prefix': [[('channel', 0, 8, 0)]],
    'midi_port': [[('port', 0, 8, 0)]],
    'set_tempo': [[('tempo', 16, 8, 0)], [('tempo', 8, 8, 0)], [('tempo', 0, 8, 0)]],
    # hr byte: 0rrhhhhh
    'smpte_offset': [[('frame_rate_code', 0, 2, 5), ('hours', 0, 5, 0)], [('minutes', 0, 8, 0)],
                     [('seconds', 0, 8, 0)], [('frames', 0, 8, 0)], [('sub_frames', 0, 8, 0)]],
}
SMPTE_RATES = {0: 24, 1: 25, 2: 29.97, 3: 30}
# circle of fifths: (sharps(+)/flats(-), minor) -> name
KEY_SIGNATURES = {
    (-7, 0): 'Cb', (-6, 0): 'Gb', (-5, 0): 'Db', (-4, 0): 'Ab', (-3, 0): 'Eb', (-2, 0): 'Bb',
    (-1, 0): 'F', (0, 0): 'C', (1, 0): 'G', (2, 0): 'D', (3, 0): 'A', (4, 0): 'E', (5, 0): 'B',
    (6, 0): 'F#', (7, 0): 'C#',
    (-7, 1): 'Abm', (-6, 1): 'Ebm', (-5, 1): 'Bbm', (-4, 1): 'Fm', (-3, 1): 'Cm', (-2, 1): 'Gm',
    (-1, 1): 'Dm', (0, 1): 'Am', (1, 1): 'Em', (2, 1): 'Bm', (3, 1): 'F#m', (4, 1): 'C#m',
    (5, 1): 'G#m', (6, 1): 'D#m', (7, 1): 'A#m',
}
SMF_DEFAULT_TEMPO = 500000
MAX_MESSAGE_LENGTH = 1000000
