"""AST query helpers shared by the rules."""
from __future__ import annotations

import ast

from .model import ClassInfo, FuncInfo, Program, call_name, dotted, unparse


def walk_shallow(node):
    """ast.walk that does not descend into nested function/class definitions
    or lambdas (their bodies do not run as part of the enclosing flow)."""
    todo = [node]
    first = True
    while todo:
        n = todo.pop()
        if not first and isinstance(n, (ast.FunctionDef, ast.AsyncFunctionDef, ast.ClassDef, ast.Lambda)):
            continue
        first = False
        yield n
        todo.extend(ast.iter_child_nodes(n))


def calls(node, shallow=True):
    it = walk_shallow(node) if shallow else ast.walk(node)
    return [n for n in it if isinstance(n, ast.Call)]


def self_name(fn: FuncInfo):
    ps = fn.params()
    return ps[0] if fn.cls is not None and ps and not is_static(fn.node) else None


def is_static(fn_node):
    return any(isinstance(d, ast.Name) and d.id == 'staticmethod' for d in fn_node.decorator_list)


def has_decorator(fn_node, name):
    for d in fn_node.decorator_list:
        if isinstance(d, ast.Name) and d.id == name:
            return True
        if isinstance(d, ast.Attribute) and d.attr == name:
            return True
        if isinstance(d, ast.Call) and (dotted(d.func) or '').split('.')[-1] == name:
            return True
    return False


def resolve_callee(p: Program, fn: FuncInfo, call: ast.Call):
    """-> FuncInfo | ClassInfo | str (dotted external / unknown) | None"""
    f = call.func
    m = fn.module
    if isinstance(f, ast.Name):
        # local alias?  (not tracked) -> global
        d = p.resolve(m, f.id)
        if d.kind in ('function', 'class'):
            return d.obj
        if d.kind == 'external':
            return str(d.obj)
        return f.id
    if isinstance(f, ast.Attribute):
        sn = self_name(fn)
        if isinstance(f.value, ast.Name) and sn and f.value.id == sn and fn.cls is not None:
            o, mm = p.lookup_method(fn.cls, f.attr)
            if mm is not None:
                return mm
            return f'self.{f.attr}'
        if isinstance(f.value, ast.Call) and isinstance(f.value.func, ast.Name) and f.value.func.id == 'super' \
                and fn.cls is not None:
            mro = p.mro(fn.cls)
            for k in mro[1:]:
                if f.attr in k.methods:
                    return k.methods[f.attr]
            return f'super().{f.attr}'
        d = p.resolve_expr(m, f)
        if d is not None and d.kind in ('function', 'class'):
            return d.obj
        if d is not None and d.kind == 'external':
            return str(d.obj)
        return call_name(call)
    return None


def callee_qname(p, fn, call):
    r = resolve_callee(p, fn, call)
    if isinstance(r, (FuncInfo, ClassInfo)):
        return r.qname
    return r


def is_self_attr(expr, selfname='self', attr=None):
    return (isinstance(expr, ast.Attribute) and isinstance(expr.value, ast.Name)
            and expr.value.id == selfname and (attr is None or expr.attr == attr))


def names_in(node):
    return {n.id for n in ast.walk(node) if isinstance(n, ast.Name)}


def raises_of(stmts):
    """Exception class names raised directly (not nested in defs) in stmts."""
    out = []
    for st in stmts:
        for n in walk_shallow(st):
            if isinstance(n, ast.Raise):
                out.append((exc_name_of(n), n))
    return out


def exc_name_of(r: ast.Raise):
    if r.exc is None:
        return 'reraise'
    e = r.exc
    if isinstance(e, ast.Call):
        e = e.func
    return unparse(e)


def stores_in(node, shallow=True):
    """(target expr, statement) for every assignment-like store."""
    out = []
    it = walk_shallow(node) if shallow else ast.walk(node)
    for n in it:
        if isinstance(n, ast.Assign):
            for t in n.targets:
                for x in _flatten(t):
                    out.append((x, n))
        elif isinstance(n, (ast.AugAssign, ast.AnnAssign)):
            out.append((n.target, n))
        elif isinstance(n, (ast.For, ast.AsyncFor)):
            for x in _flatten(n.target):
                out.append((x, n))
        elif isinstance(n, ast.NamedExpr):
            out.append((n.target, n))
        elif isinstance(n, (ast.With, ast.AsyncWith)):
            for it_ in n.items:
                if it_.optional_vars is not None:
                    for x in _flatten(it_.optional_vars):
                        out.append((x, n))
    return out


def _flatten(t):
    if isinstance(t, (ast.Tuple, ast.List)):
        for e in t.elts:
            yield from _flatten(e)
    elif isinstance(t, ast.Starred):
        yield from _flatten(t.value)
    else:
        yield t


def kwarg(call: ast.Call, name):
    for k in call.keywords:
        if k.arg == name:
            return k.value
    return None


def arg_or_kw(call, pos, name):
    if len(call.args) > pos and not any(isinstance(a, ast.Starred) for a in call.args[:pos + 1]):
        return call.args[pos]
    return kwarg(call, name)


def same_expr(a, b):
    return a is not None and b is not None and ast.dump(a) == ast.dump(b)


def const_value(e):
    return e.value if isinstance(e, ast.Constant) else None


def contains_node(root, node):
    return any(n is node for n in ast.walk(root))


def enclosing_stmt_chain(node):
    from .model import parent
    out = []
    p = parent(node)
    while p is not None:
        out.append(p)
        p = parent(p)
    return out


def mutator_calls(node, receiver_pred, shallow=True):
    """Calls x.meth(...) where receiver_pred(x) -> [(meth, call)]"""
    out = []
    for c in calls(node, shallow):
        if isinstance(c.func, ast.Attribute) and receiver_pred(c.func.value):
            out.append((c.func.attr, c))
    return out


_ONE_SHOT_CALLS = {'map', 'filter', 'zip', 'iter', 'enumerate', 'reversed'}


def one_shot_globals(p, prefix='mido'):
    """Module-level names bound to a one-shot iterator (a generator expression, map(), filter(), zip()...): the first code that
    iterates or tests membership uses it up, every later use sees it empty - behaviour then depends on what ran before.
    -> [(module, name, node)]"""
    out = []
    for m in p.modules.values():
        if not m.name.startswith(prefix):
            continue
        for st in m.tree.body:
            if isinstance(st, (ast.Assign, ast.AnnAssign)) and st.value is not None:
                v = st.value
                one = isinstance(v, ast.GeneratorExp) or (isinstance(v, ast.Call) and isinstance(v.func, ast.Name) and v.func.id in _ONE_SHOT_CALLS
                                                           and v.func.id not in m.functions and v.func.id not in m.assigns)
                if one:
                    tg = st.targets if isinstance(st, ast.Assign) else [st.target]
                    for t in tg:
                        for x in _flatten(t):
                            if isinstance(x, ast.Name):
                                out.append((m, x.id, st))
    return out
