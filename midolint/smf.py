"""Abstract save/load of MIDI tracks and files (C07, C08, C09, C17).

write_track / read_track / MidiFile._save / _load are abstractly interpreted on
small tracks whose messages have symbolic attributes; what the writer emits is
compared item by item with a reference SMF 1.0 encoder (this module, from the
tables in midolint.reference) and then served to the reader, whose result is
compared with the original messages.
"""
from __future__ import annotations

from . import codec, reference, wire
from .absint import AbsInt, AList, AObj, LenV, Opaque, SeqVar, Outcome, _Brk, _Cont, assuming, only_length_splits
from .bits import AV, Sym
from .model import AnalysisError, Unsupported
from .wire import AFile, Field, StrSym, VLQ

MF = wire.MF_MOD
TMAX = 2 ** 28 - 1


def sym(name, umax, lo=0):
    return AV.of_sym(Sym(name, umax), lo)


def tsym(name):
    return sym(name, TMAX)


CH_TYPES = ['note_off', 'note_on', 'polytouch', 'control_change', 'program_change', 'aftertouch', 'pitchwheel']
COMMON_TYPES = ['quarter_frame', 'songpos', 'song_select', 'tune_request']
REALTIME_TYPES = ['clock', 'start', 'continue', 'stop', 'active_sensing', 'reset']


def msg_attrs(type_, tag='', channel=None):
    row = next(r for r in reference.MIDI_SPECS if r[1] == type_)
    out = {}
    for n in row[2]:
        if n == 'channel':
            out[n] = channel if channel is not None else sym(f'ch{tag}', 15)
        elif n == 'data':
            out[n] = AList([SeqVar(f'D{tag}', 127)], 'tuple')
        else:
            lo, hi = reference.ATTR_DOMAINS[n]
            out[n] = sym(f'{n}{tag}', hi - lo, lo)
    return out


def attr_syms_of(attrs):
    """attr -> (Sym, lo) for ref_byte."""
    out = {}
    for k, v in attrs.items():
        if isinstance(v, AV) and v.terms:
            out[k] = (v.terms[0][0], v.const)
    return out


def ref_message_bytes(type_, attrs):
    row = next(r for r in reference.MIDI_SPECS if r[1] == type_)
    status = row[0]
    if status < 0xf0:
        ch = attrs['channel']
        st = AV(status).add(ch) if isinstance(ch, AV) else status | ch
    else:
        st = status
    syms = attr_syms_of(attrs)
    data = [codec.ref_byte(f, syms) for f in reference.DATA_LAYOUT[type_]]
    return st, data


def ref_meta_payload(type_, attrs):
    if type_ in reference.TEXT_META:
        name = reference.META_SPECS[type_][1][0]
        t = attrs[name]
        return [t.bytes] if isinstance(t, StrSym) else list(t.encode('latin1'))
    if type_ == 'end_of_track':
        return []
    if type_ == 'sequencer_specific':
        d = attrs['data']
        return list(d.items) if isinstance(d, AList) else list(d)
    if type_ == 'key_signature':
        inv = {v: k for k, v in reference.KEY_SIGNATURES.items()}
        k, mode = inv[attrs['key']]
        return [k & 0xff, mode]
    if type_ == 'time_signature':
        return [attrs['numerator'], attrs['denominator'].bit_length() - 1 if isinstance(attrs['denominator'], int) else Opaque('den'),
                attrs['clocks_per_click'], attrs['notated_32nd_notes_per_beat']]
    if type_ == 'smpte_offset':
        code = {v: k for k, v in reference.SMPTE_RATES.items()}[attrs['frame_rate']]
        syms = attr_syms_of(attrs)
        out = []
        for fields in reference.META_LAYOUT[type_]:
            av = AV(0)
            for attr, src, width, tgt in fields:
                if attr == 'frame_rate_code':
                    av = av.add(AV(code << tgt))
                else:
                    v = attrs[attr]
                    if isinstance(v, int):
                        av = av.add(AV(((v >> src) & ((1 << width) - 1)) << tgt))
                    else:
                        s, lo = syms[attr]
                        av = av.add(AV(0, [(s, src + i, tgt + i) for i in range(min(width, s.nbits - src))]))
            out.append(av)
        return out
    syms = attr_syms_of(attrs)
    out = []
    for fields in reference.META_LAYOUT[type_]:
        av = AV(0)
        for attr, src, width, tgt in fields:
            v = attrs[attr]
            if isinstance(v, int):
                av = av.add(AV(((v >> src) & ((1 << width) - 1)) << tgt))
            else:
                s, lo = syms[attr]
                av = av.add(AV(0, [(s, src + i, tgt + i) for i in range(width) if src + i < s.nbits]))
        out.append(av)
    return out


class Ev:
    """One event of a scenario: kind in message/meta/unknown_meta."""
    def __init__(self, kind, type_, attrs, time, type_byte=None):
        self.kind = kind
        self.type = type_
        self.attrs = attrs
        self.time = time
        self.type_byte = type_byte

    def build(self, ai, ctx):
        if self.kind == 'message':
            return wire.make_message(ctx, self.type, dict(self.attrs), self.time)
        if self.kind == 'meta':
            return wire.make_meta(ai, ctx, self.type, dict(self.attrs), self.time)
        cls = ctx.p.cls(wire.META_MOD, 'UnknownMetaMessage')
        return AObj(cls, {'type': 'unknown_meta', 'type_byte': self.type_byte, 'data': self.attrs['data'], 'time': self.time})

    def __repr__(self):
        return f'{self.type}@{self.time!r}'


def _tadd(a, b):
    if isinstance(a, int) and isinstance(b, int):
        return a + b
    aa = a if isinstance(a, AV) else AV(a)
    bb = b if isinstance(b, AV) else AV(b)
    r = aa.add(bb)
    return r.const if r.is_const else r


def fold_eot(events):
    """What a stored track must contain: end_of_track messages removed, their
    delta times carried to the next message, exactly one end_of_track at the
    end carrying the trailing delta."""
    out = []
    accum = 0
    for e in events:
        if e.kind == 'meta' and e.type == 'end_of_track':
            accum = _tadd(accum, e.time)
        else:
            if isinstance(accum, int) and accum == 0:
                out.append(e)
            else:
                out.append(Ev(e.kind, e.type, e.attrs, _tadd(accum, e.time), e.type_byte))
            accum = 0
    out.append(Ev('meta', 'end_of_track', {}, accum))
    return out


def ref_track_items(events, with_eot=True):
    """Reference SMF encoding of the event list (without the chunk header)."""
    out = []
    running = None
    evs = fold_eot(events) if with_eot else list(events)
    for e in evs:
        out.append(VLQ(e.time))
        if e.kind == 'meta':
            tb = reference.META_SPECS[e.type][0]
            P = ref_meta_payload(e.type, e.attrs)
            out += [0xff, tb, VLQ(wire.size_of(P))] + P
            running = None
        elif e.kind == 'unknown_meta':
            P = list(e.attrs['data'].items) if isinstance(e.attrs['data'], AList) else list(e.attrs['data'])
            out += [0xff, e.type_byte, VLQ(wire.size_of(P))] + P
            running = None
        elif e.type == 'sysex':
            D = list(e.attrs['data'].items) if isinstance(e.attrs['data'], AList) else list(e.attrs['data'])
            out += [0xf0, VLQ(_plus1(wire.size_of(D)))] + D + [0xf7]
            running = None
        else:
            st, data = ref_message_bytes(e.type, e.attrs)
            if running is not None and wire.value_equal(st, running):
                out += data
            else:
                out += [st] + data
            stv = st if isinstance(st, int) else None
            base = next(r for r in reference.MIDI_SPECS if r[1] == e.type)[0]
            running = st if base < 0xf0 else None
    return out


def _plus1(n):
    if isinstance(n, LenV):
        return LenV(n.const + 1, n.vars)
    return n + 1


def make_interp(ctx):
    ai = codec.make_interp(ctx)
    wire.install(ai, ctx)

    def s_log(interp, args, kwargs, node):
        import math
        try:
            if all(isinstance(a, (int, float)) for a in args):
                return math.log(*args)
        except Exception:
            pass
        return Opaque('math.log')
    ai.summaries['math.log'] = s_log
    ai.summaries['math.log2'] = lambda interp, args, kw, node: (__import__('math').log2(args[0]) if isinstance(args[0], (int, float)) and args[0] > 0 else Opaque('log2'))
    return ai


class RoundTrip:
    def __init__(self):
        self.write_outs = None
        self.written = None
        self.read_outs = None
        self.track = None
        self.infile = None
        self.notes = []


def write_track_abs(ctx, ai, events):
    wt = ctx.fn(ctx.p.func(MF, 'write_track'))

    files = []

    def thunk():
        out = AFile(name='out')
        files.append(out)
        msgs = [e.build(ai, ctx) for e in events]
        ai.call_function(wt, [out, AList(msgs, 'MidiTrack')], {})
        return out
    outs = ai.explore(thunk, limit=32)
    for o, f in zip(outs, files):
        o.file = f          # also for runs that raised: what had reached the file by then
    for q in ai.inlined:
        ctx.functions.add(q)
    return wt, outs


def read_track_abs(ctx, ai, stream, clip=False, debug=False):
    rt = ctx.fn(ctx.p.func(MF, 'read_track'))

    def thunk():
        inf = AFile(stream=list(stream), name='in')
        tr = ai.call_function(rt, [inf], {'clip': clip, 'debug': debug})
        return tr, inf
    ai.wire_notes = []
    outs = ai.explore(thunk, limit=32)
    for q in ai.inlined:
        ctx.functions.add(q)
    return rt, outs


def same_message(ev: Ev, obj, ctx):
    """Does the message object read back equal the scenario event?"""
    if not isinstance(obj, AObj):
        return False, f'not a message: {obj!r}'
    want_cls = {'message': 'Message', 'meta': 'MetaMessage', 'unknown_meta': 'UnknownMetaMessage'}[ev.kind]
    if obj.cls is None or obj.cls.name != want_cls:
        return False, f'class {obj.cls.name if obj.cls else None} instead of {want_cls}'
    want = dict(ev.attrs)
    want['type'] = ev.type if ev.kind != 'unknown_meta' else 'unknown_meta'
    want['time'] = ev.time
    if ev.kind == 'unknown_meta':
        want['type_byte'] = ev.type_byte
    got = obj.attrs
    if set(got) != set(want):
        return False, f'attributes {sorted(got)} instead of {sorted(want)}'
    for k, v in want.items():
        if not wire.value_equal(got[k], v):
            return False, f'{k} = {got[k]!r} instead of {v!r}'
    return True, ''


def describe(items, limit=40):
    return '[' + ', '.join(repr(x) for x in items[:limit]) + (', ...' if len(items) > limit else '') + ']'


def check_scenario(ctx, ai, name, events, rules, expect_write_error=None, conformance=True, roundtrip=True):
    """rules: dict with keys 'write', 'conform', 'size', 'read', 'equal' -> rule ids."""
    wt, outs = write_track_abs(ctx, ai, events)
    w = ctx.where(wt)
    inst = f'track[{name}]'
    cons = f'{wt.qname}::{name}'
    if expect_write_error:
        ok = bool(outs) and all(o.kind == 'raise' and o.exc == expect_write_error for o in outs)
        ctx.require(ok, rules['write'], f'{inst}.rejected', w,
                    f'saving {events!r} must raise {expect_write_error}; outcomes: {outs}', construct=cons + '::rejected')
        partial = [o for o in outs if o.kind == 'raise' and getattr(o, 'file', None) is not None and o.file.written]
        ctx.require(not partial, rules['write'], f'{inst}.nothing-written', w,
                    f'the rejected track had already reached the file: {describe(partial[0].file.written) if partial else ""} '
                    '(a rejected message leaves a partial track behind)', construct=f'{wt.qname}::writes-before-validation')
        return None
    if not only_length_splits(outs):
        why = f'writing {events!r} does not complete on exactly one path: {outs}'
        if any(o.decisions for o in outs):
            why += ' (undecided: ' + '; '.join(d[2] for o in outs for d in o.decisions)[:200] + ')'
        ctx.fail(rules['write'], f'{inst}.write', w, why, construct=cons + '::write')
        return None
    ctx.ok(rules['write'], f'{inst}.write', w)
    first = None
    for o_w in outs:
        # (several outcomes: short payload / long payload, each judged under the bounds of its path)
        with assuming(o_w):
            r_ = _judge_written(ctx, ai, name, events, rules, o_w, wt, w, inst, cons, conformance, roundtrip)
        if first is None:
            first = r_
    return first


def _judge_written(ctx, ai, name, events, rules, o_w, wt, w, inst, cons, conformance, roundtrip):
    written = o_w.value.written
    if len(written) < 2 or not isinstance(written[0], Field) or written[0].value != b'MTrk' \
            or not isinstance(written[1], Field) or written[1].code != 'L' or written[1].order != '>':
        ctx.fail(rules['size'], f'{inst}.chunk-header', w, f'track does not start with MTrk + big endian 32 bit length: {describe(written[:3])}',
                 construct=cons + '::chunk-header')
        return None
    body = written[2:]
    ctx.require(wire.value_equal(written[1].value, wire.size_of(body)), rules['size'], f'{inst}.chunk-length', w,
                f'chunk length field is {written[1].value!r}, {wire.size_of(body)!r} bytes follow', construct=cons + '::chunk-length')
    if conformance:
        ref = ref_track_items(events)
        ctx.require(wire.items_equal(body, ref), rules['conform'], f'{inst}.bytes', w,
                    f'written {describe(body)} ; SMF 1.0 encoding is {describe(ref)}', construct=cons + '::bytes')
    if not roundtrip:
        return written
    rt, routs = read_track_abs(ctx, ai, written)
    wr = ctx.where(rt)
    rcons = f'{rt.qname}::{name}'
    if len(routs) != 1 or routs[0].kind != 'return':
        why = f'reading back what was written does not complete on exactly one path: {routs}'
        if any(o.decisions for o in routs):
            why += ' (undecided: ' + '; '.join(d[2] for o in routs for d in o.decisions)[:200] + ')'
        ctx.fail(rules['read'], f'{inst}.read', wr, why, construct=rcons + '::read')
        return written
    tr, inf = routs[0].value
    ctx.require(not inf.bad and inf.pos == len(inf.stream), rules['read'], f'{inst}.consumed', wr,
                f'the reader does not consume the track exactly: {inf.bad} (stopped at item {inf.pos} of {len(inf.stream)})',
                construct=rcons + '::consumed')
    items = tr.items if isinstance(tr, AList) else None
    if items is None:
        ctx.fail(rules['equal'], f'{inst}.track', wr, f'read_track returned {tr!r}', construct=rcons + '::track')
        return written
    want = fold_eot(events)
    if len(items) != len(want):
        ctx.fail(rules['equal'], f'{inst}.count', wr, f'{len(items)} messages read, {len(want)} written', construct=rcons + '::count')
        return written
    for i, (e, o) in enumerate(zip(want, items)):
        ok, why = same_message(e, o, ctx)
        ctx.require(ok, rules['equal'], f'{inst}.msg{i}({e.type})', wr, f'message {i} ({e.type}) comes back different: {why}',
                    construct=rcons + f'::{e.type}')
    return written


# ---------------------------------------------------------------- scenarios
def standard_scenarios():
    """name -> list of Ev.  Channel numbers are concrete where running status
    must be decidable."""
    sc = {}
    for t in CH_TYPES + COMMON_TYPES:
        sc[f'single:{t}'] = [Ev('message', t, msg_attrs(t), tsym('t0'))]
    sc['running:same-status'] = [Ev('message', 'note_on', msg_attrs('note_on', '1', 3), tsym('t1')),
                                 Ev('message', 'note_on', msg_attrs('note_on', '2', 3), tsym('t2')),
                                 Ev('message', 'note_on', msg_attrs('note_on', '3', 3), 0)]
    sc['running:other-channel'] = [Ev('message', 'note_on', msg_attrs('note_on', '1', 3), tsym('t1')),
                                   Ev('message', 'note_on', msg_attrs('note_on', '2', 4), tsym('t2')),
                                   Ev('message', 'note_off', msg_attrs('note_off', '3', 4), tsym('t3')),
                                   Ev('message', 'note_off', msg_attrs('note_off', '4', 4), tsym('t4'))]
    sc['running:across-meta'] = [Ev('message', 'control_change', msg_attrs('control_change', '1', 0), tsym('t1')),
                                 Ev('meta', 'marker', {'text': StrSym('T')}, tsym('t2')),
                                 Ev('message', 'control_change', msg_attrs('control_change', '3', 0), tsym('t3'))]
    sc['running:across-sysex'] = [Ev('message', 'program_change', msg_attrs('program_change', '1', 15), tsym('t1')),
                                  Ev('message', 'sysex', {'data': AList([sym('x0', 127), SeqVar('X', 127)], 'tuple')}, tsym('t2')),
                                  Ev('message', 'program_change', msg_attrs('program_change', '3', 15), tsym('t3'))]
    sc['running:across-common'] = [Ev('message', 'pitchwheel', msg_attrs('pitchwheel', '1', 9), tsym('t1')),
                                   Ev('message', 'song_select', msg_attrs('song_select', '2'), tsym('t2')),
                                   Ev('message', 'pitchwheel', msg_attrs('pitchwheel', '3', 9), tsym('t3'))]
    sc['running:common-repeated'] = [Ev('message', 'songpos', msg_attrs('songpos', '1'), tsym('t1')),
                                     Ev('message', 'songpos', msg_attrs('songpos', '2'), tsym('t2')),
                                     Ev('message', 'tune_request', {}, tsym('t3')),
                                     Ev('message', 'tune_request', {}, tsym('t4'))]
    sc['sysex:empty'] = [Ev('message', 'sysex', {'data': AList([], 'tuple')}, tsym('t1'))]
    sc['sysex:nonempty'] = [Ev('message', 'sysex', {'data': AList([sym('x0', 127), SeqVar('X', 127)], 'tuple')}, tsym('t1'))]
    sc['time:zero'] = [Ev('message', 'note_on', msg_attrs('note_on', '1'), 0),
                       Ev('meta', 'text', {'text': StrSym('T')}, 0)]
    sc['empty-track'] = []
    return sc


def eot_scenarios():
    sc = {}
    sc['eot:middle'] = [Ev('message', 'note_on', msg_attrs('note_on', '1'), tsym('t1')),
                        Ev('meta', 'end_of_track', {}, 5),
                        Ev('message', 'note_off', msg_attrs('note_off', '2'), tsym('t2')),
                        Ev('meta', 'end_of_track', {}, tsym('t3'))]
    sc['eot:repeated-at-end'] = [Ev('message', 'note_on', msg_attrs('note_on', '1'), tsym('t1')),
                                 Ev('meta', 'end_of_track', {}, 0),
                                 Ev('meta', 'end_of_track', {}, tsym('t3'))]
    sc['eot:only'] = [Ev('meta', 'end_of_track', {}, tsym('t1'))]
    sc['eot:zero-then-message'] = [Ev('meta', 'end_of_track', {}, 0),
                                   Ev('message', 'aftertouch', msg_attrs('aftertouch', '2'), tsym('t2'))]
    sc['eot:two-before-message'] = [Ev('meta', 'end_of_track', {}, 3), Ev('meta', 'end_of_track', {}, 4),
                                    Ev('meta', 'set_tempo', {'tempo': sym('tempo', 0xffffff)}, tsym('t2'))]
    sc['eot:missing'] = [Ev('message', 'note_on', msg_attrs('note_on', '1'), tsym('t1'))]
    return sc


def meta_scenarios():
    sc = {}
    for t in reference.TEXT_META:
        name = reference.META_SPECS[t][1][0]
        sc[f'meta:{t}'] = [Ev('meta', t, {name: StrSym('T')}, tsym('t1'))]
    sc['meta:sequence_number'] = [Ev('meta', 'sequence_number', {'number': sym('number', 65535)}, tsym('t1'))]
    sc['meta:channel_prefix'] = [Ev('meta', 'channel_prefix', {'channel': sym('channel', 255)}, tsym('t1'))]
    sc['meta:midi_port'] = [Ev('meta', 'midi_port', {'port': sym('port', 255)}, tsym('t1'))]
    sc['meta:set_tempo'] = [Ev('meta', 'set_tempo', {'tempo': sym('tempo', 0xffffff)}, tsym('t1'))]
    sc['meta:end_of_track-only'] = []
    # sharps are positive, flats negative (a signed byte), minor keys have mode 1
    for key in ('C', 'F#', 'Bb', 'Ebm'):
        sc[f'meta:key_signature({key})'] = [Ev('meta', 'key_signature', {'key': key}, tsym('t1'))]
    for rate in (24, 25, 29.97, 30):
        sc[f'meta:smpte_offset({rate})'] = [Ev('meta', 'smpte_offset', {
            'frame_rate': rate, 'hours': sym('hours', 31), 'minutes': sym('minutes', 59), 'seconds': sym('seconds', 59),
            'frames': sym('frames', 255), 'sub_frames': sym('sub_frames', 99)}, tsym('t1'))]
    sc['meta:sequencer_specific'] = [Ev('meta', 'sequencer_specific', {'data': AList([SeqVar('S', 255)], 'tuple')}, tsym('t1'))]
    sc['meta:unknown'] = [Ev('unknown_meta', 'unknown_meta', {'data': AList([SeqVar('U', 255)], 'tuple')}, tsym('t1'), type_byte=0x60)]
    sc['meta:unknown-empty'] = [Ev('unknown_meta', 'unknown_meta', {'data': ()}, tsym('t1'), type_byte=0x0a)]
    # a meta type is any byte: the reader takes types above 0x7f, so the writer has to give them back as they are
    for tb in (0x80, 0x90, 0xd1, 0xff):
        sc[f'meta:unknown({tb:#04x})'] = [Ev('unknown_meta', 'unknown_meta', {'data': AList([SeqVar('U', 255)], 'tuple')}, tsym('t1'), type_byte=tb)]
    return sc


# --------------------------------------------------------------------------- one-step (inductive) agreement
class ShapeNotApplicable(Unsupported):
    """The one-iteration rules isolate the body of the event loop of write_track / read_track.  A function written
    differently (state in a helper object, no loop of its own) has no such body: the step rules do not apply to it and the
    whole-track scenarios alone decide (they cover every event kind with running status kept and broken)."""


def _first_loop(fn_node, kinds):
    import ast
    for st in fn_node.body:
        if isinstance(st, kinds):
            return st
    for st in ast.walk(fn_node):
        if isinstance(st, kinds):
            return st
    return None


def _bind_hoisted(ai, fn, loop, env):
    """Names bound in front of the loop to an attribute of something the step already knows (read = infile.read,
    append = track.append) or to another such name: the step sees them as the loop body does."""
    import ast
    for st in fn.node.body:
        if st is loop:
            break
        if isinstance(st, ast.Assign) and len(st.targets) == 1 and isinstance(st.targets[0], ast.Name) and st.targets[0].id not in env:
            v = st.value
            root = v
            while isinstance(root, ast.Attribute):
                root = root.value
            if isinstance(v, (ast.Attribute, ast.Name)) and isinstance(root, ast.Name) and (root.id in env or isinstance(v, ast.Attribute)):
                try:
                    env[st.targets[0].id] = ai.ev(v, env, fn.module)
                except Exception:       # noqa: BLE001 - not a plain alias after all: the loop body will say so
                    pass


def writer_step(ctx, ai, ev, running):
    """Interpret ONE iteration of write_track's message loop: -> list of (emitted items, running status afterwards) outcomes."""
    import ast
    wt = ctx.fn(ctx.p.func(MF, 'write_track'))
    loop = _first_loop(wt.node, (ast.For,))
    if loop is None or not isinstance(loop.target, ast.Name):
        raise ShapeNotApplicable('write_track has no message loop of its own')
    names = {n.id for n in ast.walk(loop) if isinstance(n, ast.Name)}
    data_names = [t.id for st in wt.node.body if isinstance(st, ast.Assign) for t in st.targets
                  if isinstance(t, ast.Name) and isinstance(st.value, ast.Call) and getattr(st.value.func, 'id', '') == 'bytearray']
    rs_names = [t.id for st in wt.node.body if isinstance(st, ast.Assign) for t in st.targets
                if isinstance(t, ast.Name) and isinstance(st.value, ast.Constant) and st.value.value is None]
    if len(data_names) != 1 or len(rs_names) != 1:
        raise ShapeNotApplicable('write_track: cannot identify the byte buffer and the running status variable')
    dn, rn = data_names[0], rs_names[0]
    holder = {}

    def thunk():
        env = {loop.target.id: ev.build(ai, ctx), dn: AList([], 'bytearray'), rn: running, wt.params()[0]: AFile(name='out'), wt.params()[1]: AList([], 'MidiTrack')}
        _bind_hoisted(ai, wt, loop, env)
        try:
            ai.ex_block(loop.body, env, wt.module)
        except (_Cont, _Brk):
            pass            # `continue` / `break` end this iteration
        return list(env[dn].items), env[rn]
    return wt, ai.explore(thunk, limit=16)


def reader_step(ctx, ai, items, last_status):
    """Interpret ONE iteration of read_track's event loop on the given wire items."""
    import ast
    rt = ctx.fn(ctx.p.func(MF, 'read_track'))
    loop = _first_loop(rt.node, (ast.While,))
    if loop is None:
        raise ShapeNotApplicable('read_track has no event loop of its own')
    ls_names = [t.id for st in rt.node.body if isinstance(st, ast.Assign) for t in st.targets
                if isinstance(t, ast.Name) and isinstance(st.value, ast.Constant) and st.value.value is None]
    tr_names = [t.id for st in rt.node.body if isinstance(st, ast.Assign) for t in st.targets
                if isinstance(t, ast.Name) and isinstance(st.value, ast.Call) and getattr(st.value.func, 'id', '') == 'MidiTrack']
    if len(ls_names) != 1 or len(tr_names) != 1:
        raise ShapeNotApplicable('read_track: cannot identify the running status variable and the track')
    ln, tn = ls_names[0], tr_names[0]

    def thunk():
        f = AFile(stream=list(items) + [0x7e, 0x7e, 0x7e], name='in')
        env = {rt.params()[0]: f, ln: last_status, tn: AList([], 'MidiTrack'), 'start': 0, 'size': 10 ** 9, 'debug': False, 'clip': False, 'name': b'MTrk'}
        for p_, d_ in zip(rt.params()[1:], (False, False)):
            env[p_] = d_
        _bind_hoisted(ai, rt, loop, env)
        try:
            ai.ex_block(loop.body, env, rt.module)
        except (_Cont, _Brk):
            pass
        return env[tn], env[ln], f
    return rt, ai.explore(thunk, limit=16)


def step_events():
    """(label, Ev, status value or None for non-channel) for the inductive step."""
    out = []
    for t in CH_TYPES:
        a = msg_attrs(t, 's')
        st, _ = ref_message_bytes(t, a)
        out.append((t, Ev('message', t, a, tsym('ts')), st))
    for t in COMMON_TYPES:
        a = msg_attrs(t, 's')
        out.append((t, Ev('message', t, a, tsym('ts')), None))
    out.append(('sysex-empty', Ev('message', 'sysex', {'data': AList([], 'tuple')}, tsym('ts')), None))
    out.append(('sysex', Ev('message', 'sysex', {'data': AList([sym('x0', 127), SeqVar('X', 127)], 'tuple')}, tsym('ts')), None))
    out.append(('meta-text', Ev('meta', 'lyrics', {'text': StrSym('T')}, tsym('ts')), None))
    out.append(('meta-tempo', Ev('meta', 'set_tempo', {'tempo': sym('tempo', 0xffffff)}, tsym('ts')), None))
    out.append(('meta-eot', Ev('meta', 'end_of_track', {}, tsym('ts')), None))
    out.append(('meta-unknown', Ev('unknown_meta', 'unknown_meta', {'data': AList([SeqVar('U', 255)], 'tuple')}, tsym('ts'), type_byte=0x60), None))
    out.append(('meta-unknown-high', Ev('unknown_meta', 'unknown_meta', {'data': AList([SeqVar('U', 255)], 'tuple')}, tsym('ts'), type_byte=0xaf), None))
    return out


def inductive_agreement(ctx, ai, rule_w, rule_r):
    """For every event kind and every writer pre-state (running status None / equal / different) the step emits the
    reference bytes and the right post-state; for every reader pre-state consistent with the invariant
    `writer.running == S  =>  reader.last_status == S` the reader step returns the event and re-establishes it."""
    n = 0
    skipped = {'writer': None, 'reader': None}
    for label, ev, st in step_events():
        other = 0xb5 if label != 'control_change' else 0x95           # an unrelated channel status (different type nibble)
        pres = [('none', None), ('other', other)]
        if st is not None:
            pres.append(('same', st))
        for pname, running in pres:
            n += 1
            if skipped['writer']:
                break
            try:
                wt, outs = writer_step(ctx, ai, ev, running)
            except ShapeNotApplicable as e:
                skipped['writer'] = str(e)
                ctx.notes.append(f'{rule_w}: one-step rule not applicable ({e}); decided by the whole-track scenarios only')
                break
            w = ctx.where(wt)
            inst = f'step[{label}, running={pname}]'
            cons = f'{wt.qname}::step::{label if st is None else "channel"}::{pname}'
            if not only_length_splits(outs):
                ctx.fail(rule_w, inst + '.write', w, f'one writer step does not complete on one path: {outs}', construct=cons + '::outcomes')
                continue
            for o_w in outs:
              with assuming(o_w):
                items, post = o_w.value
                # reference
                want = [VLQ(ev.time)]
                if ev.kind == 'meta':
                    P = ref_meta_payload(ev.type, ev.attrs)
                    want += [0xff, reference.META_SPECS[ev.type][0], VLQ(wire.size_of(P))] + P
                    wpost = None
                elif ev.kind == 'unknown_meta':
                    P = list(ev.attrs['data'].items)
                    want += [0xff, ev.type_byte, VLQ(wire.size_of(P))] + P
                    wpost = None
                elif ev.type == 'sysex':
                    D = list(ev.attrs['data'].items)
                    want += [0xf0, VLQ(_plus1(wire.size_of(D)))] + D + [0xf7]
                    wpost = None
                else:
                    s2, data = ref_message_bytes(ev.type, ev.attrs)
                    omit = running is not None and wire.value_equal(s2, running)
                    want += ([] if omit else [s2]) + data
                    wpost = s2 if st is not None else None
                ctx.require(wire.items_equal(items, want), rule_w, inst + '.bytes', w,
                            f'writes {describe(items)}; SMF: {describe(want)}', construct=cons + '::bytes')
                ctx.require((post is None and wpost is None) or (post is not None and wpost is not None and wire.value_equal(post, wpost)), rule_w,
                            inst + '.running-status', w, f'running status afterwards is {post!r}, must be {wpost!r}', construct=cons + '::post')
                # reader pre-states consistent with the invariant
                if pname == 'same':
                    rpres = [('same', running)]
                else:
                    rpres = [('none', None), ('other', other), ('sysex', 0xf0), ('common', 0xf3)] if pname == 'none' else [('other', other)]
                for rname, last in rpres:
                    if skipped['reader']:
                        break
                    try:
                        rt, routs = reader_step(ctx, ai, want, last)
                    except ShapeNotApplicable as e:
                        skipped['reader'] = str(e)
                        ctx.notes.append(f'{rule_r}: one-step rule not applicable ({e}); decided by the whole-track scenarios only')
                        break
                    wr = ctx.where(rt)
                    rinst = f'step[{label}, running={pname}, reader last_status={rname}]'
                    rcons = f'{rt.qname}::step::{label if st is None else "channel"}::{pname}/{rname}'
                    if len(routs) != 1 or routs[0].kind != 'return':
                        ctx.fail(rule_r, rinst + '.read', wr, f'one reader step does not complete on one path: {routs}', construct=rcons + '::outcomes')
                        continue
                    tr, rpost, f = routs[0].value
                    ok = isinstance(tr, AList) and len(tr.items) == 1
                    why = f'reader step produced {tr!r}'
                    if ok:
                        ok, why = same_message(ev, tr.items[0], ctx)
                    ctx.require(ok and f.pos == len(want) and not f.bad, rule_r, rinst + '.event', wr,
                                f'{why}; consumed {f.pos} of {len(want)} items {f.bad}', construct=rcons + '::event')
                    if wpost is not None:
                        ctx.require(rpost is not None and wire.value_equal(rpost, wpost), rule_r, rinst + '.invariant', wr,
                                    f'writer keeps running status {wpost!r} but the reader remembers {rpost!r}', construct=rcons + '::invariant')
    if not skipped['writer']:
        ctx.floor(rule_w + '-steps', n, 40)
    ctx.extra.setdefault('one_step_rules', {}).update({rule_w: skipped['writer'] or 'applied', rule_r: skipped['reader'] or 'applied'})
