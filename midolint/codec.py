"""Shared machinery for the message byte codec (C01, C02, C04): attribute
domains from the check table, abstract evaluation of the encoder and decoder."""
from __future__ import annotations

import ast

from . import astq, reference
from .absint import (AbsInt, AbsRaise, ADict, AList, AObj, LenV, Opaque, Outcome, SeqVar)
from .bits import AV, Sym
from .domains import check_domain, looks_undecided, semantic_domain
from .fold import ClassRef, FuncRef
from .intset import IntSet, Undecidable
from .model import AnalysisError, Unsupported

CHECKS_MOD = 'mido.messages.checks'
SPECS_MOD = 'mido.messages.specs'
ENC_MOD = 'mido.messages.encode'
DEC_MOD = 'mido.messages.decode'
MSG_MOD = 'mido.messages.messages'


def specs(ctx):
    return ctx.f.table(SPECS_MOD, 'SPECS')


def spec_by_status(ctx):
    return ctx.f.table(SPECS_MOD, 'SPEC_BY_STATUS')


def spec_by_type(ctx):
    return ctx.f.table(SPECS_MOD, 'SPEC_BY_TYPE')


def checks_table(ctx):
    """attribute name -> the check callable check_value(name, value) applies to the value.  Found by running check_value on a
    marker value for every attribute name of the message table (plus type and time) and taking the first function that is
    entered with the marker as its argument - wherever the module keeps the association (one dictionary, two, a set of names
    sharing a check, an if-chain)."""
    cached = getattr(ctx, '_checks_table', None)
    if cached is not None:
        return cached
    try:
        cv_ref = ctx.f.global_value(ctx.p.module(CHECKS_MOD), 'check_value')
    except Exception as e:       # noqa: BLE001
        raise AnalysisError(f'check_value not found in {CHECKS_MOD}: {e}')
    names = ['type', 'time']
    for row in specs(ctx):
        for nm in row['value_names']:
            if nm not in names:
                names.append(nm)
    ai = AbsInt(ctx.f)
    ai.no_probe = True
    table = {}
    real_apply = ai.apply
    for name in sorted(names):
        probe = Opaque(f'value of {name}')
        found = []

        def spy(f, args, kwargs, node, found=found, probe=probe):
            # the first callable of the program that is applied to the marker itself (below check_value): the check of this name
            if not found and args and args[0] is probe and f is not cv_ref and \
                    (isinstance(f, FuncRef) or (isinstance(f, tuple) and len(f) == 3 and f[0] in ('closure', 'bound'))):
                if not (isinstance(f, tuple) and f[0] == 'bound' and isinstance(cv_ref, tuple) and cv_ref[0] == 'bound' and f[2] is cv_ref[2]):
                    found.append(f)
            return real_apply(f, args, kwargs, node)
        ai.apply = spy
        try:
            ai.explore(lambda: real_apply(cv_ref, [name, probe], {}, None), limit=256)
        except (Unsupported, AnalysisError):
            pass
        finally:
            ai.apply = real_apply
        if found:
            f = found[0]
            table[name] = FuncRef(f[2]) if isinstance(f, tuple) and f[0] == 'bound' and not isinstance(f[1], AObj) else f
    cvq = getattr(getattr(cv_ref, 'info', None), 'qname', 'check_value')

    class _CV:
        qname = cvq
    cv = _CV
    if not table:
        raise AnalysisError(f'{cv.qname} applies no check function to the value for any attribute name')
    ctx._checks_table = table
    return table


def callable_info(ref):
    """(FuncInfo, captured constants) of a table entry: a module-level function or a closure made by a factory."""
    if isinstance(ref, FuncRef):
        return ref.info, {}
    if isinstance(ref, tuple) and len(ref) == 3 and ref[0] == 'closure':
        env = {k: (v.const if isinstance(v, AV) and v.is_const else v) for k, v in ref[2].items()
               if isinstance(v, (int, float, str, bool, type(None))) or (isinstance(v, AV) and v.is_const)}
        return ref[1], env
    return None, None


def check_key(ref):
    """Identity of a check callable in event logs (closures of one factory share their qname)."""
    if isinstance(ref, FuncRef):
        return ref.info.qname
    if isinstance(ref, tuple) and len(ref) == 3 and ref[0] == 'closure':
        return f'{ref[1].qname}#{id(ref)}'
    return None


def attr_domains(ctx, report_rule=None):
    """attr -> DomainResult for the integer valued attributes, from _CHECKS."""
    table = checks_table(ctx)
    out = {}
    for name, ref in table.items():
        if name in ('data', 'type', 'time'):
            continue
        info, cenv = callable_info(ref)
        if info is None:
            raise AnalysisError(f'_CHECKS[{name!r}] is not a function')
        fn = ctx.fn(info)
        params = fn.params()
        if not params:
            raise AnalysisError(f'{fn.qname} has no parameter')
        try:
            r = check_domain(ctx.p, ctx.f, fn, params[0], cenv)
        except (Undecidable, Unsupported) as e:
            r, err = None, e
        if looks_undecided(r):
            try:
                r = semantic_domain(ctx, lambda ai, v, ref=ref: ai.apply(ref, [v], {}, None))
            except (Undecidable, AnalysisError) as e:
                r = None
                if report_rule:
                    ctx.fail(report_rule, f'domain({name})', ctx.where(fn), f'cannot derive the accepted domain: {e}',
                             construct=f'{fn.qname}::domain')
        if r is not None:
            ctx.paths += r.paths
        out[name] = (fn, r)
    return out


def interval_of(intset: IntSet):
    if len(intset.ivs) == 1 and intset.ivs[0][0] != float('-inf') and intset.ivs[0][1] != float('inf'):
        return int(intset.ivs[0][0]), int(intset.ivs[0][1])
    return None


def attr_syms(domains):
    """attr -> (Sym (unsigned normalised), lo)"""
    out = {}
    for name, (fn, r) in domains.items():
        iv = interval_of(r.accepted) if r is not None else None
        if iv is None:
            continue
        lo, hi = iv
        out[name] = (Sym(name, hi - lo), lo)
    return out


def data_byte_domain(ctx):
    """(check_data FuncInfo, item check FuncInfo, DomainResult of the item check).  Which function check_data applies to the items
    is found by abstractly interpreting it on three symbolic bytes: exactly one callable must be entered once per item, in order,
    with the item as its argument (a module-level function or a closure made by a factory); its accepted set is then derived."""
    from .absint import EVENT_LOG
    table = checks_table(ctx)
    ref = table.get('data')
    info, cenv = callable_info(ref)
    if info is None:
        raise AnalysisError("_CHECKS['data'] is not a function")
    fn = ctx.fn(info)
    ai = AbsInt(ctx.f)
    xs = [AV.of_sym(Sym(f'item{i}', 127)) for i in range(3)]
    holder = {}

    def thunk():
        r = ai.apply(ref, [AList(list(xs), 'list')], {}, None)
        holder['log'] = list(EVENT_LOG)
        return r
    ai.no_probe = True          # every path of check_data itself is wanted here: a shortcut in front of the loop is a path
    try:
        outs = ai.explore(thunk, merge=False)
    except Unsupported:
        outs = []
    if len(outs) != 1 or outs[0].kind != 'return':
        return fn, fn, _data_domain_by_execution(ctx, ref)
    def item_of(e):
        # the item is the first argument of a function / closure, or the second of a method bound to a helper object
        for x in xs:
            if e[2] is x or (len(e) > 6 and e[6] is x):
                return x
        return None
    calls = [e for e in holder['log'] if e[0] == 'enter' and item_of(e) is not None]
    if calls:
        top = min(e[5] for e in calls)          # the callable check_data itself applies (it may delegate further down)
        calls = [e for e in calls if e[5] == top]
    seen = [next(i for i, x in enumerate(xs) if item_of(e) is x) for e in calls]
    infos = {(e[3].qname, id(e[4]) if e[4] is not None else None, id(e[2]) if len(e) > 6 and item_of(e) is e[6] else None) for e in calls}
    if seen != [0, 1, 2] or len(infos) != 1:
        # no single callable applied to every item (the test may be written out in the loop, or sit behind a shortcut for
        # the common case): decide what check_data accepts by executing it on lists, one value and one position at a time
        return fn, fn, _data_domain_by_execution(ctx, ref)
    item_fn, closure = calls[0][3], calls[0][4]
    receiver = calls[0][2] if len(calls[0]) > 6 and item_of(calls[0]) is calls[0][6] else None
    ctx.fn(item_fn)
    ienv = {}
    if closure is not None:
        ienv = {k: (v.const if isinstance(v, AV) and v.is_const else v) for k, v in closure.items()
                if isinstance(v, (int, float, str, bool, type(None))) or (isinstance(v, AV) and v.is_const)}
    try:
        r = None if receiver is not None else check_domain(ctx.p, ctx.f, item_fn, item_fn.params()[0], ienv)
    except (Undecidable, Unsupported):
        r = None
    if looks_undecided(r):
        item_ref = ('bound', receiver, item_fn) if receiver is not None else ('closure', item_fn, closure) if closure is not None else FuncRef(item_fn)
        try:
            r = semantic_domain(ctx, lambda ai_, v: ai_.apply(item_ref, [v], {}, None))
        except (Undecidable, AnalysisError) as e:
            ctx.fail('R02.3', 'item-range', ctx.where(item_fn), f'cannot derive the set of data byte values accepted by {item_fn.name}: {e}',
                     construct=f'{item_fn.qname}::domain(data)')
            return fn, item_fn, None
    ctx.paths += r.paths
    return fn, item_fn, r


def _data_domain_by_execution(ctx, ref):
    try:
        r = semantic_domain(ctx, lambda ai_, v: ai_.apply(ref, [AList([v], 'list')], {}, None))
    except (Undecidable, Unsupported, AnalysisError):
        return None
    if looks_undecided(r):
        return None
    # every position is checked: one bad item (out of range, or not an integer) anywhere in a longer list is refused, and
    # the good items around it do not matter
    bads = []
    for k, st in r.rejected.items():
        for lo, hi in st.ivs:
            bads.append(int(hi) if lo == float('-inf') else int(lo))
    good = next((int(lo) if lo != float('-inf') else int(hi) for lo, hi in r.accepted.ivs if (lo, hi) != (float('-inf'), float('inf'))), None)
    # (a float that equals an accepted integer is still not an integer)
    bads = sorted(set(bads))[:4] + ['x', 1.5] + ([float(good)] if good is not None else [])
    if good is None:
        return r
    for n in (2, 3, 5):
        for pos in range(n):
            for bad in bads:
                ai = AbsInt(ctx.f)
                items = [good] * n
                items[pos] = bad
                outs = ai.explore(lambda: ai.apply(ref, [AList(list(items), 'list')], {}, None))
                if not outs or any(o.kind == 'return' for o in outs):
                    return None
    ai = AbsInt(ctx.f)
    outs = ai.explore(lambda: ai.apply(ref, [AList([], 'list')], {}, None))
    if len(outs) != 1 or outs[0].kind != 'return':
        return None
    r.notes.append('check_data executed on lists of 0..5 items with one bad item at every position')
    return r


def make_interp(ctx, data_checked=True, extra=None):
    """Abstract interpreter with summaries for check_data (validated
    separately by R01.1/R02.3), vars(), SysexData."""
    ai = AbsInt(ctx.f)

    def s_check_data(interp, args, kwargs, node):
        interp.check_data_calls.append((node, args[0] if args else None))
        return None
    ai.check_data_calls = []
    ai.summaries[f'mido/messages/checks.py::check_data'] = s_check_data

    def s_sysexdata(interp, args, kwargs, node):
        src = args[0] if args else AList([], 'tuple')
        if isinstance(src, AList):
            return AList(interp.iterate(src, node, keep_vars=True), 'tuple')
        if isinstance(src, (tuple, list)):
            return AList(list(src), 'tuple')
        if isinstance(src, (bytes, bytearray, range)):
            return AList(list(src), 'tuple')
        if src is None or isinstance(src, (int, float, bool)) or isinstance(src, AV):
            raise AbsRaise('TypeError', node, implicit=True, msg='SysexData() of something that is not iterable')
        return src
    ai.summaries['mido/messages/messages.py::SysexData'] = s_sysexdata

    def s_deque(interp, args, kwargs, node):
        r = AList(list(interp.iterate(args[0], node)) if args else [], 'deque')
        r.maxlen = kwargs.get('maxlen', args[1] if len(args) > 1 else None)
        return r
    ai.summaries['collections.deque'] = s_deque

    def deque_hook(interp, base, name, args, kwargs, node):
        from .absint import _NO
        if isinstance(base, AList) and base.kind == 'deque':
            if name == 'popleft':
                if not base.items:
                    raise AbsRaise('IndexError', node, implicit=True)
                return base.items.pop(0)
            if name == 'pop':
                if not base.items:
                    raise AbsRaise('IndexError', node, implicit=True)
                return base.items.pop()
            if name == 'appendleft':
                base.items.insert(0, args[0])
                return None
            if name == 'clear':
                base.items.clear()
                return None
        return _NO
    ai.method_hooks.append(deque_hook)
    if extra:
        ai.summaries.update(extra)
    return ai


def msg_dict(type_, value_names, syms, time=None, data=None):
    d = {'type': type_, 'time': time if time is not None else Opaque('time')}
    for n in value_names:
        if n == 'data':
            d[n] = data if data is not None else AList([SeqVar('D', 127)], 'tuple')
        else:
            s, lo = syms[n]
            d[n] = AV.of_sym(s, lo)
    return ADict(d)


def encode_outcomes(ctx, ai, type_, value_names, syms):
    enc = ctx.fn(ctx.p.func(ENC_MOD, 'encode_message'))
    msg = msg_dict(type_, value_names, syms)
    outs = ai.explore(lambda: ai.call_function(enc, [msg], {}))
    for q in ai.inlined:
        ctx.functions.add(q)
    return outs


def ref_byte(fields, syms):
    av = AV(0)
    for attr, src, width, tgt in fields:
        s, lo = syms[attr]
        av = av.add(AV(0, [(s, src + i, tgt + i) for i in range(width)]))
    return av


def decode_outcomes(ctx, ai, msg_bytes: AList, time):
    dec = ctx.fn(ctx.p.func(DEC_MOD, 'decode_message'))
    ai.check_data_calls = []
    outs = ai.explore(lambda: ai.call_function(dec, [AList(list(msg_bytes.items), msg_bytes.kind)], {'time': time}))
    for q in ai.inlined:
        ctx.functions.add(q)
    return outs
