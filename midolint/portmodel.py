"""Abstract port objects and device doubles for C10, C11, C18.

Ports are built by abstractly interpreting their real constructors; the device
specific hooks (_open/_close/_send/_receive of the base classes, sockets,
select, sleep) are summaries that log what happens and follow a small script.
Each scenario sets up an abstract pre-state and interprets ONE API call
(close / send / receive / iteration step), i.e. a typestate obligation - the
interleavings of threads are the business of the lockset rules in c10.py.
"""
from __future__ import annotations

from . import codec
from .absint import (_NO, AbsInt, AbsRaise, ADict, AList, AObj, Opaque, log_event, EVENT_LOG)
from .fold import ClassRef
from .model import AnalysisError

PORTS = 'mido.ports'
SOCKETS = 'mido.sockets'


class AMock:
    """A scripted external object (socket, file object, lock...)."""
    def __init__(self, name, script=None):
        self.name = name
        self.script = script or {}
        self.calls = []

    def __repr__(self):
        return f'<mock {self.name}>'

    # protocol used by the abstract interpreter
    def absint_hasattr(self, name):
        like = self.script.get('like')
        if like is not None and name not in self.script and ('attr:' + name) not in self.script:
            return hasattr(like, name)
        return name in self.script or ('attr:' + name) in self.script

    def absint_getattr(self, interp, name, node):
        if ('attr:' + name) in self.script:
            return self.script['attr:' + name]
        like = self.script.get('like')
        if like is not None and name not in self.script and not hasattr(like, name):
            # the double stands for an object of a known library type: it has the attributes that type has, no others
            raise AbsRaise('AttributeError', node, implicit=True, msg=f'{like.__name__!r} object has no attribute {name!r}')
        if name in self.script or not self.script.get('strict'):
            return ('mockmethod', self, name)
        raise AbsRaise('AttributeError', node, implicit=True)


def _cover(interp, node):
    """Remember that this call site was reached by an abstract execution (rules that fall back on a syntactic argument
    for code the executions do not reach ask for this)."""
    cov = getattr(interp, 'covered', None)
    if cov is not None and node is not None:
        cov.add(id(node))


def make_interp(ctx):
    ai = codec.make_interp(ctx)

    def s_deque(interp, args, kwargs, node):
        r = AList(list(interp.iterate(args[0], node)) if args else [], 'deque')
        r.maxlen = kwargs.get('maxlen', args[1] if len(args) > 1 else None)
        return r
    ai.summaries['collections.deque'] = s_deque
    ai.summaries['threading.RLock'] = lambda i, a, k, n: AMock('RLock')
    ai.summaries['threading.Lock'] = lambda i, a, k, n: AMock('Lock')
    def s_shuffle(interp, args, kwargs, node):
        log_event('shuffle', args[0] if args else None, node)      # order is not modelled; that the object is permuted in place is
        return None
    ai.summaries['random.shuffle'] = s_shuffle

    def s_sleep(interp, args, kwargs, node):
        log_event('sleep')
        _cover(interp, node)
        interp.sleeps = getattr(interp, 'sleeps', 0) + 1
        if interp.sleeps > 40:
            raise AbsRaise('NonTermination', node)
        hook = getattr(interp, 'on_sleep', None)
        if hook:
            hook(interp)
        return None
    ai.summaries['time.sleep'] = s_sleep

    def mock_hook(interp, base, name, args, kwargs, node):
        if isinstance(base, AMock):
            if base.script.get('strict') and name not in base.script:
                raise AbsRaise('AttributeError', node, implicit=True)
            base.calls.append((name, list(args), dict(kwargs)))
            log_event('mock', base.name, name, args, dict(kwargs))
            if base.name in ('RLock', 'Lock') and name in ('acquire', '__enter__'):
                log_event('with-enter', base)       # explicit acquire()/release() count like the with statement
                return True
            if base.name in ('RLock', 'Lock') and name in ('release', '__exit__'):
                log_event('with-exit', base)
                return None
            f = base.script.get(name)
            if f is not None:
                return f(interp, base, args, kwargs, node)
            return None
        if isinstance(base, AList) and base.kind == 'deque':
            if name == 'popleft':
                if not base.items:
                    raise AbsRaise('IndexError', node, implicit=True)
                return base.items.pop(0)
            if name == 'pop':
                if not base.items:
                    raise AbsRaise('IndexError', node, implicit=True)
                return base.items.pop()
            if name == 'appendleft':
                base.items.insert(0, args[0])
                return None
            if name == 'clear':
                base.items.clear()
                return None
        return _NO
    ai.method_hooks.append(mock_hook)
    return ai


def device_double(ai, ctx, on_send=None, on_receive=None, on_close=None, on_open=None):
    """Summaries for the no-op device hooks of the base classes."""
    def s_close(interp, args, kwargs, node):
        log_event('device', '_close', args[0])
        if on_close:
            return on_close(interp, args[0])
        return None

    def s_send(interp, args, kwargs, node):
        log_event('device', '_send', args[0], args[1] if len(args) > 1 else None)
        _cover(interp, node)
        if on_send:
            return on_send(interp, args[0], args[1])
        return None

    def s_receive(interp, args, kwargs, node):
        block = kwargs.get('block', args[1] if len(args) > 1 else True)
        log_event('device', '_receive', args[0], block)
        _cover(interp, node)
        if on_receive:
            return on_receive(interp, args[0], block)
        return None

    def s_open(interp, args, kwargs, node):
        log_event('device', '_open', args[0])
        if on_open:
            return on_open(interp, args[0])
        return None
    ai.summaries['mido/ports.py::BasePort._close'] = s_close
    ai.summaries['mido/ports.py::BaseOutput._send'] = s_send
    ai.summaries['mido/ports.py::BaseInput._receive'] = s_receive
    ai.summaries['mido/ports.py::BasePort._open'] = s_open


def new_port(ai, ctx, clsname, args=(), kwargs=None, module=PORTS):
    cls = ctx.p.cls(module, clsname)
    return ai.apply(ClassRef(cls), list(args), dict(kwargs or {}), None)


def call(ai, ctx, obj, method, args=(), kwargs=None):
    o, fn = ctx.p.lookup_method(obj.cls, method)
    if fn is None:
        raise AnalysisError(f'{obj.cls.name}.{method} not found')
    ctx.fn(fn)
    return ai.call_function(fn, [obj] + list(args), dict(kwargs or {}), None)


def note(ctx, n=60):
    from . import wire
    return wire.make_message(ctx, 'note_on', {'channel': 0, 'note': n, 'velocity': 64}, 0)


def device_events(log, what=None, obj=None):
    return [e for e in log if e[0] == 'device' and (what is None or e[1] == what) and (obj is None or e[2] is obj)]
