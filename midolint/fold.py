"""E2 - restricted constant folder.

Recovers the values of module-level tables (SPECS, SPEC_BY_STATUS, _CHECKS,
_SPECIAL_CASES, key signature tables ...) by constant propagation through
literal displays and the small pure table constructors that build them, and
folds guard expressions under a (partial) environment of known constants.

It is applied to module-level table code and to guard expressions only - it is
never used to execute encoders, decoders, the tokenizer, ports or file code.
"""
from __future__ import annotations

import ast
import operator

from .model import AnalysisError, ClassInfo, FuncInfo, Module, Program, unparse


class Unfoldable(Exception):
    pass


class _Unknown:
    def __repr__(self):
        return 'UNKNOWN'

    def __bool__(self):
        raise Unfoldable('truth of UNKNOWN')


UNKNOWN = _Unknown()


class FuncRef:
    def __init__(self, info: FuncInfo):
        self.info = info

    def __repr__(self):
        return f'<fn {self.info.qname}>'

    def __eq__(self, other):
        return isinstance(other, FuncRef) and other.info.qname == self.info.qname

    def __hash__(self):
        return hash(self.info.qname)


class ClassRef:
    def __init__(self, info: ClassInfo):
        self.info = info

    def __repr__(self):
        return f'<cls {self.info.qname}>'

    def __eq__(self, other):
        return isinstance(other, ClassRef) and other.info.qname == self.info.qname

    def __hash__(self):
        return hash(self.info.qname)


class ExtRef:
    """A name from outside the program (stdlib...)."""
    def __init__(self, name):
        self.name = name

    def __repr__(self):
        return f'<ext {self.name}>'

    def __eq__(self, other):
        return isinstance(other, ExtRef) and other.name == self.name

    def __hash__(self):
        return hash(self.name)


_BINOPS = {
    ast.Add: operator.add, ast.Sub: operator.sub, ast.Mult: operator.mul,
    ast.Div: operator.truediv, ast.FloorDiv: operator.floordiv,
    ast.Mod: operator.mod, ast.Pow: operator.pow, ast.LShift: operator.lshift,
    ast.RShift: operator.rshift, ast.BitOr: operator.or_,
    ast.BitAnd: operator.and_, ast.BitXor: operator.xor,
}
_UNOPS = {ast.USub: operator.neg, ast.UAdd: operator.pos,
          ast.Invert: operator.invert, ast.Not: operator.not_}
_CMPOPS = {
    ast.Eq: operator.eq, ast.NotEq: operator.ne, ast.Lt: operator.lt,
    ast.LtE: operator.le, ast.Gt: operator.gt, ast.GtE: operator.ge,
    ast.Is: operator.is_, ast.IsNot: operator.is_not,
    ast.In: lambda a, b: a in b, ast.NotIn: lambda a, b: a not in b,
}
_BUILTINS = {
    'range': range, 'set': set, 'frozenset': frozenset, 'tuple': tuple,
    'list': list, 'dict': dict, 'float': float, 'int': int, 'len': len,
    'sorted': sorted, 'zip': zip, 'enumerate': enumerate, 'min': min,
    'max': max, 'abs': abs, 'bool': bool, 'str': str, 'reversed': reversed,
    'sum': sum, 'any': any, 'all': all, 'ord': ord, 'chr': chr, 'bytes': bytes,
    'bytearray': bytearray, 'divmod': divmod, 'round': round, 'format': format, 'repr': repr, 'hex': hex, 'bin': bin, 'oct': oct,
    'object': object, 'map': map, 'filter': filter, 'iter': iter, 'next': next, 'setattr': setattr, 'getattr': getattr,
}
_SAFE_METHODS = {
    dict: {'get', 'items', 'keys', 'values', 'update', 'copy', 'setdefault'},
    list: {'append', 'extend', 'copy', 'index', 'count', 'reverse', 'sort', 'insert'},
    set: {'add', 'update', 'union', 'copy', 'intersection', 'difference', 'issubset'},
    frozenset: {'union', 'intersection', 'difference', 'issubset'},
    str: {'format', 'join', 'replace', 'split', 'startswith', 'endswith',
          'lower', 'upper', 'strip', 'isdigit'},
    tuple: {'index', 'count'},
    int: {'bit_length'},
}
_MAX_POW = 4096
import operator as _op
_INPLACE = {ast.BitOr: _op.ior, ast.BitAnd: _op.iand, ast.BitXor: _op.ixor, ast.Sub: _op.isub, ast.Add: _op.iadd, ast.Mult: _op.imul}


class Folder:
    def __init__(self, program: Program, budget=20000000):
        self.p = program
        self._globals = {}      # (modname, name) -> value
        self._inprogress = set()
        self.budget = budget
        self.tables_folded = set()
        self.module_exec = None         # installed by absint.install_fold_fallback
        self._module_ns = {}            # module name -> namespace after running its body | None
        self._module_running = set()
        self.transparent_decorated = set()

    def module_namespace(self, m: Module):
        """Final namespace of a module whose import has effects (see absint.module_is_effectful), computed once by running
        its body abstractly; None for plain modules, while the run is in progress, or when the run does not come out."""
        if self.module_exec is None or m is None:
            return None
        if m.name in self._module_ns:
            return self._module_ns[m.name]
        if m.name in self._module_running:
            return None
        from .absint import module_is_effectful
        if not module_is_effectful(m):
            self._module_ns[m.name] = None
            return None
        self._module_running.add(m.name)
        try:
            ns = self.module_exec(m)
        finally:
            self._module_running.discard(m.name)
        self._module_ns[m.name] = ns
        if ns is not None:
            self.p.consulted.add(m.relpath)
        return ns

    # ---------------------------------------------------------------- globals
    def global_value(self, m: Module, name: str):
        key = (m.name, name)
        if key in self._globals:
            v = self._globals[key]
            if v is UNKNOWN:
                raise Unfoldable(f'{m.name}.{name}')
            return v
        if key in self._inprogress:
            raise Unfoldable(f'cyclic {m.name}.{name}')
        self._inprogress.add(key)
        try:
            v = self._compute_global(m, name)
        except Unfoldable:
            self._globals[key] = UNKNOWN
            raise
        finally:
            self._inprogress.discard(key)
        self._globals[key] = v
        self._snapshot_object(v)
        return v

    def _snapshot_object(self, v):
        """Module-level objects with attributes (a private state object the module keeps): remember the state they are
        imported with, so that every abstract execution path can start from it."""
        if hasattr(v, 'attrs') and hasattr(v, 'cls') and isinstance(getattr(v, 'attrs'), dict):
            snaps = self.__dict__.setdefault('_object_snapshots', {})
            if id(v) not in snaps:
                snaps[id(v)] = (v, dict(v.attrs))

    def restore_global_objects(self):
        for v, attrs in self.__dict__.get('_object_snapshots', {}).values():
            if v.attrs != attrs or list(v.attrs) != list(attrs):
                v.attrs.clear()
                v.attrs.update(attrs)

    def global_objects(self):
        """(module name, global name, object) for the module-level objects seen so far."""
        out = []
        snaps = self.__dict__.get('_object_snapshots', {})
        for (mn, gn), v in self._globals.items():
            if id(v) in snaps:
                out.append((mn, gn, v))
        return out

    def _compute_global(self, m: Module, name: str):
        if name in m.assigns or name in m.functions or name in m.classes:
            ns = self.module_namespace(m)
            if ns is not None and name in ns:
                if name in m.assigns:
                    self.tables_folded.add(f'{m.relpath}::{name}')
                return ns[name]
        if name in m.functions:
            return FuncRef(m.functions[name])
        if name in m.classes:
            return ClassRef(m.classes[name])
        if name in m.assigns:
            self.p.consulted.add(m.relpath)
            stmts = m.assigns[name]
            st = stmts[-1]
            for s in stmts:
                if getattr(s, '_parent', None) is not m.tree:
                    raise Unfoldable(f'{m.name}.{name} assigned conditionally')
            if isinstance(st, ast.AnnAssign):
                if st.value is None:
                    raise Unfoldable(name)
                try:
                    return self.eval(st.value, {}, m)
                except Unfoldable:
                    # (an annotation changes nothing about how the value is made)
                    if getattr(self, 'fallback', None) is None:
                        raise
                    return self.fallback(st.value, m)
            try:
                val = self.eval(st.value, {}, m)
            except Unfoldable:
                if getattr(self, 'fallback', None) is None:
                    raise
                val = self.fallback(st.value, m)
            for t in st.targets:
                got = self._destructure(t, val, name)
                if got is not _MISSING:
                    self.tables_folded.add(f'{m.relpath}::{name}')
                    return got
            raise Unfoldable(name)
        if name in m.imports:
            modname, attr = m.imports[name]
            if attr is None:
                if modname in self.p.modules:
                    return self.p.modules[modname]
                return ExtRef(modname)
            sub = f'{modname}.{attr}'
            if sub in self.p.modules:
                return self.p.modules[sub]
            if modname in self.p.modules:
                return self.global_value(self.p.modules[modname], attr)
            if sub in ('math.inf', 'math.nan', 'math.pi', 'math.e', 'math.tau'):
                import math as _math
                return getattr(_math, attr)
            if sub == 'typing.TYPE_CHECKING':
                return False            # what it is at run time
            return ExtRef(sub)
        if name in _BUILTINS:
            return _BUILTINS[name]
        if name in ('True', 'False', 'None', '__debug__'):
            return {'True': True, 'False': False, 'None': None, '__debug__': True}[name]
        raise Unfoldable(f'unknown global {m.name}.{name}')

    def _destructure(self, target, val, name):
        if isinstance(target, ast.Name):
            return val if target.id == name else _MISSING
        if isinstance(target, (ast.Tuple, ast.List)):
            try:
                vals = list(val)
            except TypeError as e:
                raise Unfoldable(str(e)) from e
            if len(vals) != len(target.elts):
                raise Unfoldable('unpack length')
            for t, v in zip(target.elts, vals):
                got = self._destructure(t, v, name)
                if got is not _MISSING:
                    return got
        return _MISSING

    def table(self, modname: str, name: str):
        """A module-level table that must fold; AnalysisError otherwise."""
        m = self.p.module(modname)
        try:
            return self.global_value(m, name)
        except Unfoldable as e:
            raise AnalysisError(f'table {m.relpath}::{name} does not fold ({e})') from e

    # ------------------------------------------------------------------- eval
    def try_eval(self, expr, env=None, module=None):
        try:
            return self.eval(expr, env or {}, module)
        except Unfoldable:
            return UNKNOWN

    def eval(self, e, env, m):
        self.budget -= 1
        if self.budget < 0:
            raise Unfoldable('budget')
        meth = getattr(self, '_e_' + type(e).__name__, None)
        if meth is None:
            raise Unfoldable(type(e).__name__)
        return meth(e, env, m)

    def _e_Constant(self, e, env, m):
        return e.value

    def _e_Name(self, e, env, m):
        if e.id in env:
            v = env[e.id]
            if v is UNKNOWN:
                raise Unfoldable(e.id)
            return v
        if m is not None:
            return self.global_value(m, e.id)
        if e.id in _BUILTINS:
            return _BUILTINS[e.id]
        raise Unfoldable(e.id)

    def _e_Attribute(self, e, env, m):
        key = unparse(e)
        if key in env:
            v = env[key]
            if v is UNKNOWN:
                raise Unfoldable(key)
            return v
        base = self.eval(e.value, env, m)
        if isinstance(base, Module):
            return self.global_value(base, e.attr)
        if isinstance(base, ClassRef):
            v = self.p.class_attr(base.info, e.attr)
            if v is not None:
                return self.eval(v, {}, base.info.module)
            o, f = self.p.lookup_method(base.info, e.attr)
            if f is not None:
                return FuncRef(f)
        if isinstance(base, ExtRef):
            if base.name == 'math' and e.attr in ('inf', 'nan', 'pi', 'e', 'tau'):
                import math as _math            # named float constants
                return getattr(_math, e.attr)
            if base.name == 'errno' and e.attr.isupper():
                import errno as _errno          # a table of integer constants of the platform, nothing else
                if isinstance(getattr(_errno, e.attr, None), int):
                    return getattr(_errno, e.attr)
            if base.name == 'typing' and e.attr == 'TYPE_CHECKING':
                return False
            return ExtRef(f'{base.name}.{e.attr}')
        raise Unfoldable(key)

    def _e_Tuple(self, e, env, m):
        return tuple(self._elts(e.elts, env, m))

    def _e_List(self, e, env, m):
        return list(self._elts(e.elts, env, m))

    def _e_Set(self, e, env, m):
        return set(self._elts(e.elts, env, m))

    def _elts(self, elts, env, m):
        out = []
        for x in elts:
            if isinstance(x, ast.Starred):
                out.extend(self.eval(x.value, env, m))
            else:
                out.append(self.eval(x, env, m))
        return out

    def _e_Dict(self, e, env, m):
        d = {}
        for k, v in zip(e.keys, e.values):
            if k is None:
                d.update(self.eval(v, env, m))
            else:
                d[self.eval(k, env, m)] = self.eval(v, env, m)
        return d

    def _e_BinOp(self, e, env, m):
        a = self.eval(e.left, env, m)
        b = self.eval(e.right, env, m)
        op = _BINOPS.get(type(e.op))
        if op is None:
            raise Unfoldable('binop')
        if isinstance(e.op, (ast.Pow, ast.LShift)) and isinstance(b, int) and abs(b) > _MAX_POW:
            raise Unfoldable('huge')
        if not _plain(a) or not _plain(b):
            raise Unfoldable('binop on ref')
        try:
            return op(a, b)
        except Exception as ex:
            raise Unfoldable(str(ex)) from ex

    def _e_UnaryOp(self, e, env, m):
        a = self.eval(e.operand, env, m)
        try:
            return _UNOPS[type(e.op)](a)
        except Exception as ex:
            raise Unfoldable(str(ex)) from ex

    def _e_BoolOp(self, e, env, m):
        is_and = isinstance(e.op, ast.And)
        unknown = False
        last = None
        for v in e.values:
            try:
                x = self.eval(v, env, m)
            except Unfoldable:
                unknown = True
                continue
            last = x
            try:
                t = bool(x)
            except Exception as ex:
                raise Unfoldable(str(ex)) from ex
            if is_and and not t:
                return x
            if not is_and and t:
                return x
        if unknown:
            raise Unfoldable('boolop')
        return last

    def _e_Compare(self, e, env, m):
        left = self.eval(e.left, env, m)
        for op, right in zip(e.ops, e.comparators):
            r = self.eval(right, env, m)
            f = _CMPOPS.get(type(op))
            try:
                ok = f(left, r)
            except Exception as ex:
                raise Unfoldable(str(ex)) from ex
            if not ok:
                return False
            left = r
        return True

    def _e_IfExp(self, e, env, m):
        t = self.eval(e.test, env, m)
        return self.eval(e.body if t else e.orelse, env, m)

    def _e_Subscript(self, e, env, m):
        key = unparse(e)
        if key in env:
            v = env[key]
            if v is UNKNOWN:
                raise Unfoldable(key)
            return v
        base = self.eval(e.value, env, m)
        if isinstance(e.slice, ast.Slice):
            lo = self.eval(e.slice.lower, env, m) if e.slice.lower else None
            hi = self.eval(e.slice.upper, env, m) if e.slice.upper else None
            st = self.eval(e.slice.step, env, m) if e.slice.step else None
            idx = slice(lo, hi, st)
        else:
            idx = self.eval(e.slice, env, m)
        try:
            return base[idx]
        except Exception as ex:
            raise Unfoldable(f'subscript {ex!r}') from ex

    def _e_JoinedStr(self, e, env, m):
        out = []
        for v in e.values:
            if isinstance(v, ast.Constant):
                out.append(str(v.value))
            elif isinstance(v, ast.FormattedValue):
                x = self.eval(v.value, env, m)
                spec = ''
                if v.format_spec is not None:
                    spec = self.eval(v.format_spec, env, m)
                if v.conversion == 114:
                    x = repr(x)
                elif v.conversion == 115:
                    x = str(x)
                out.append(format(x, spec))
        return ''.join(out)

    def _e_Lambda(self, e, env, m):
        raise Unfoldable('lambda')

    def _comp(self, gens, env, m, emit):
        if not gens:
            emit(env)
            return
        g = gens[0]
        it = self.eval(g.iter, env, m)
        for item in _iterate(it):
            env2 = dict(env)
            self._bind(g.target, item, env2)
            if all(self.eval(c, env2, m) for c in g.ifs):
                self._comp(gens[1:], env2, m, emit)

    def _e_ListComp(self, e, env, m):
        out = []
        self._comp(e.generators, env, m, lambda en: out.append(self.eval(e.elt, en, m)))
        return out

    def _e_GeneratorExp(self, e, env, m):
        return self._e_ListComp(e, env, m)

    def _e_SetComp(self, e, env, m):
        return set(self._e_ListComp(e, env, m))

    def _e_DictComp(self, e, env, m):
        out = {}

        def emit(en):
            out[self.eval(e.key, en, m)] = self.eval(e.value, en, m)
        self._comp(e.generators, env, m, emit)
        return out

    def _bind(self, target, value, env):
        if isinstance(target, ast.Name):
            env[target.id] = value
        elif isinstance(target, (ast.Tuple, ast.List)):
            vals = list(_iterate(value))
            if len(vals) != len(target.elts):
                raise Unfoldable('unpack')
            for t, v in zip(target.elts, vals):
                self._bind(t, v, env)
        else:
            raise Unfoldable('bind target')

    def _e_Call(self, e, env, m):
        args = self._elts(e.args, env, m)
        kwargs = {}
        for kw in e.keywords:
            if kw.arg is None:
                kwargs.update(self.eval(kw.value, env, m))
            else:
                kwargs[kw.arg] = self.eval(kw.value, env, m)
        if isinstance(e.func, ast.Attribute):
            try:
                base = self.eval(e.func.value, env, m)
            except Unfoldable:
                base = _MISSING
            if base is not _MISSING and not isinstance(base, (Module, ClassRef, ExtRef, FuncRef)):
                ok = False
                for t, names in _SAFE_METHODS.items():
                    if isinstance(base, t) and e.func.attr in names:
                        ok = True
                if not ok:
                    raise Unfoldable(f'method {e.func.attr}')
                try:
                    return getattr(base, e.func.attr)(*args, **kwargs)
                except Exception as ex:
                    raise Unfoldable(str(ex)) from ex
        f = self.eval(e.func, env, m)
        if isinstance(f, FuncRef):
            return self.call(f, args, kwargs)
        if f in _BUILTINS.values():
            try:
                r = f(*args, **kwargs)
            except Exception as ex:
                raise Unfoldable(str(ex)) from ex
            if isinstance(r, (zip, enumerate, reversed)):
                r = list(r)
            return r
        raise Unfoldable(f'call {unparse(e.func)}')

    # --------------------------------------------- tiny interpreter for table
    # constructors (straight-line code, loops over constant iterables)
    def call(self, fref: FuncRef, args, kwargs):
        info = fref.info
        node = info.node
        a = node.args
        if a.vararg or a.kwarg or a.kwonlyargs or node.decorator_list:
            raise Unfoldable(f'signature of {info.qname}')
        params = [x.arg for x in a.posonlyargs + a.args]
        env = {}
        defaults = a.defaults
        for i, p in enumerate(params):
            if i < len(args):
                env[p] = args[i]
            elif p in kwargs:
                env[p] = kwargs[p]
            else:
                di = i - (len(params) - len(defaults))
                if di < 0:
                    raise Unfoldable(f'missing arg {p}')
                env[p] = self.eval(defaults[di], {}, info.module)
        if len(args) > len(params) or set(kwargs) - set(params):
            raise Unfoldable('bad call')
        self.p.consulted.add(info.module.relpath)
        try:
            self._exec(node.body, env, info.module)
        except _Return as r:
            return r.value
        return None

    def _exec(self, stmts, env, m):
        for st in stmts:
            self.budget -= 1
            if self.budget < 0:
                raise Unfoldable('budget')
            if isinstance(st, ast.Expr):
                if isinstance(st.value, ast.Constant):
                    continue
                self.eval(st.value, env, m)
            elif isinstance(st, ast.Assign):
                v = self.eval(st.value, env, m)
                for t in st.targets:
                    self._assign(t, v, env, m)
            elif isinstance(st, ast.AnnAssign):
                if st.value is not None:
                    self._assign(st.target, self.eval(st.value, env, m), env, m)
            elif isinstance(st, ast.AugAssign):
                cur = self.eval(st.target, env, m)
                v = self.eval(st.value, env, m)
                op = _BINOPS.get(type(st.op))
                if isinstance(cur, (set, list, dict, bytearray)) and type(st.op) in _INPLACE:
                    # s |= t, l += t ... on a mutable container change the object itself: every other name bound to it sees it
                    try:
                        res = _INPLACE[type(st.op)](cur, v)
                    except TypeError as e:
                        raise Unfoldable(str(e)) from e
                    self._assign(st.target, res, env, m)
                else:
                    self._assign(st.target, op(cur, v), env, m)
            elif isinstance(st, ast.For):
                it = self.eval(st.iter, env, m)
                broke = False
                for item in _iterate(it):
                    self._bind(st.target, item, env)
                    try:
                        self._exec(st.body, env, m)
                    except _Break:
                        broke = True
                        break
                    except _Continue:
                        continue
                if not broke:
                    self._exec(st.orelse, env, m)
            elif isinstance(st, ast.If):
                if self.eval(st.test, env, m):
                    self._exec(st.body, env, m)
                else:
                    self._exec(st.orelse, env, m)
            elif isinstance(st, ast.Return):
                raise _Return(self.eval(st.value, env, m) if st.value else None)
            elif isinstance(st, ast.Pass):
                pass
            elif isinstance(st, ast.Break):
                raise _Break()
            elif isinstance(st, ast.Continue):
                raise _Continue()
            else:
                raise Unfoldable(f'statement {type(st).__name__}')

    def _assign(self, t, v, env, m):
        if isinstance(t, ast.Name):
            env[t.id] = v
        elif isinstance(t, (ast.Tuple, ast.List)):
            self._bind(t, v, env)
        elif isinstance(t, ast.Subscript):
            base = self.eval(t.value, env, m)
            if not isinstance(base, (dict, list)):
                raise Unfoldable('subscript store')
            base[self.eval(t.slice, env, m)] = v
        else:
            raise Unfoldable('assign target')


class _Return(Exception):
    def __init__(self, value):
        self.value = value


class _Break(Exception):
    pass


class _Continue(Exception):
    pass


_MISSING = object()


def _plain(x):
    return not isinstance(x, (FuncRef, ClassRef, ExtRef, Module))


def _iterate(it):
    if isinstance(it, (list, tuple, set, frozenset, dict, range, str, bytes)):
        if isinstance(it, (set, frozenset)):
            try:
                return sorted(it)
            except TypeError:
                return list(it)
        return list(it)
    if hasattr(it, '__iter__') and isinstance(it, type({}.items())):
        return list(it)
    try:
        return list(it)
    except TypeError as e:
        raise Unfoldable(str(e)) from e
