"""E4 - integer layout domain.

An abstract integer is   const + sum( bit(sym, src) * 2**tgt )   over a multiset
of single-bit terms, where every symbol is an unsigned quantity 0..umax.  An
attribute with domain [lo, hi] is represented as lo + u, u in [0, hi-lo].
Arithmetic (+, -, << k, * 2**k) is exact on this form; bit operations
(&, |, >>, %, //) are exact when the value is in *bit-field form* (const >= 0 and
all target bits pairwise distinct and distinct from the set bits of const).
Anything else is TOP with a reason - never a guess.
"""
from __future__ import annotations

from dataclasses import dataclass


@dataclass(frozen=True)
class Sym:
    name: str
    umax: int            # value ranges over 0..umax

    @property
    def nbits(self):
        return max(self.umax.bit_length(), 1)

    def __repr__(self):
        return self.name


class AV:
    __slots__ = ('const', 'terms', 'top')

    def __init__(self, const=0, terms=(), top=None):
        self.const = const
        self.terms = tuple(sorted(terms, key=lambda t: (t[2], t[0].name, t[1])))
        self.top = top      # reason string when TOP

    # ------------------------------------------------------------ constructors
    @staticmethod
    def TOP(reason):
        return AV(0, (), top=reason or 'unknown')

    @staticmethod
    def of_sym(sym: Sym, lo=0):
        return AV(lo, [(sym, i, i) for i in range(sym.nbits)])

    @property
    def is_top(self):
        return self.top is not None

    @property
    def is_const(self):
        return not self.is_top and not self.terms

    def syms(self):
        return {t[0] for t in self.terms}

    # ----------------------------------------------------------------- queries
    def tgt_bits(self):
        return [t[2] for t in self.terms]

    def is_bitfield(self):
        if self.is_top or self.const < 0:
            return False
        tg = self.tgt_bits()
        if len(set(tg)) != len(tg):
            return False
        return all(not (self.const >> b) & 1 for b in tg)

    def overlap(self):
        """Pairs of terms that land on the same target bit (or on a set bit
        of the constant)."""
        seen = {}
        out = []
        for t in self.terms:
            if t[2] in seen:
                out.append((seen[t[2]], t))
            else:
                seen[t[2]] = t
            if self.const >= 0 and (self.const >> t[2]) & 1:
                out.append((('const', self.const), t))
        return out

    def interval(self):
        if self.is_top:
            return None
        hi = self.const
        groups = {}
        for s, src, tgt in self.terms:
            groups.setdefault((s, tgt - src), []).append(src)
        for (s, shift), srcs in groups.items():
            if shift >= 0 and sorted(srcs) == list(range(s.nbits)):
                hi += s.umax << shift
            else:
                for src in srcs:
                    hi += 1 << (src + shift)
        return self.const, hi

    def trailing_zeros(self):
        """Number of low bits known to be zero (two's complement)."""
        if self.is_top:
            return 0
        n = min(self.tgt_bits()) if self.terms else 10 ** 6
        if self.const != 0:
            c = self.const
            tz = (c & -c).bit_length() - 1
            n = min(n, tz)
        return n

    # -------------------------------------------------------------- arithmetic
    def add(self, o: 'AV'):
        if self.is_top:
            return self
        if o.is_top:
            return o
        return AV(self.const + o.const, self.terms + o.terms)

    def neg_const(self):
        return AV(-self.const) if self.is_const else AV.TOP('negation of a symbolic value')

    def sub(self, o: 'AV'):
        if self.is_top:
            return self
        if o.is_top:
            return o
        if o.is_const:
            return AV(self.const - o.const, self.terms)
        # x - x style cancellation
        mine = list(self.terms)
        for t in o.terms:
            if t in mine:
                mine.remove(t)
            else:
                return AV.TOP('subtraction of a symbolic value')
        return AV(self.const - o.const, mine)

    def shl(self, k: int):
        if self.is_top:
            return self
        if k < 0:
            return AV.TOP('negative shift')
        return AV(self.const << k, [(s, a, b + k) for s, a, b in self.terms])

    def shr(self, k: int):
        if self.is_top:
            return self
        if k < 0:
            return AV.TOP('negative shift')
        if not self.is_bitfield():
            return AV.TOP(f'>> on a value that is not a clean bit field ({self})')
        return AV(self.const >> k, [(s, a, b - k) for s, a, b in self.terms if b - k >= 0])

    def and_mask(self, mask: int):
        if self.is_top:
            return self
        if mask < 0:
            # x & ~m  == clear bits of m (m >= 0)
            clr = ~mask
            if not self.is_bitfield():
                return AV.TOP('& on a value that is not a clean bit field')
            return AV(self.const & mask, [t for t in self.terms if not (clr >> t[2]) & 1])
        if not self.is_bitfield():
            return AV.TOP(f'& on a value that is not a clean bit field ({self})')
        return AV(self.const & mask, [t for t in self.terms if (mask >> t[2]) & 1])

    def or_(self, o: 'AV'):
        if self.is_top:
            return self
        if o.is_top:
            return o
        if self.is_const and o.is_const:
            return AV(self.const | o.const)
        # disjoint supports -> plain sum
        for a, b in ((self, o), (o, self)):
            ia = a.interval()
            if ia[0] >= 0 and b.trailing_zeros() >= max(ia[1].bit_length(), 0):
                return a.add(b)
        if self.is_bitfield() and o.is_bitfield():
            tot = AV((self.const | o.const), self.terms + o.terms)
            both = self.const & o.const
            if tot.is_bitfield() or (not tot.overlap()):
                return tot
            ov = tot.overlap()
            return AV.TOP('overlap: ' + '; '.join(f'{_t(x)} and {_t(y)} share bit {y[2]}' for x, y in ov[:3]))
        return AV.TOP(f'| of values whose bits may overlap ({self} | {o})')

    def mod_pow2(self, k):
        return self.and_mask((1 << k) - 1)

    # ------------------------------------------------------------ substitution
    def bit(self, i):
        """Bit i of a bit-field value: 0/1 or a (sym, src) pair."""
        assert self.is_bitfield()
        for s, a, b in self.terms:
            if b == i:
                return (s, a)
        return (self.const >> i) & 1

    def subst(self, mapping):
        """Replace every bit of the symbols in mapping (Sym -> AV in bit-field
        form) by the corresponding bit of the replacement."""
        if self.is_top:
            return self
        const = self.const
        terms = []
        for s, a, b in self.terms:
            if s in mapping:
                r = mapping[s]
                if r.is_top:
                    return r
                if not r.is_bitfield():
                    return AV.TOP(f'substituted value for {s} is not a bit field')
                x = r.bit(a)
                if x == 1:
                    const += 1 << b
                elif x == 0:
                    pass
                else:
                    terms.append((x[0], x[1], b))
            else:
                terms.append((s, a, b))
        return AV(const, terms)

    # ------------------------------------------------------------------- misc
    def same(self, o: 'AV'):
        return (not self.is_top and not o.is_top and self.const == o.const
                and self.terms == o.terms)

    def __repr__(self):
        if self.is_top:
            return f'TOP({self.top})'
        parts = []
        if self.const or not self.terms:
            parts.append(hex(self.const) if abs(self.const) > 9 else str(self.const))
        # group consecutive runs
        runs = []
        for s, a, b in self.terms:
            if runs and runs[-1][0] == s and runs[-1][1] + runs[-1][3] == a and runs[-1][2] + runs[-1][3] == b:
                runs[-1][3] += 1
            else:
                runs.append([s, a, b, 1])
        for s, a, b, w in runs:
            full = (a == 0 and w == s.nbits)
            txt = s.name if full else f'{s.name}[{a}:{a + w}]'
            if b:
                txt += f'<<{b}'
            parts.append(txt)
        return ' + '.join(parts)


def _t(t):
    if t[0] == 'const':
        return f'constant {t[1]:#x}'
    return f'{t[0].name} bit {t[1]}'


def pow2_exp(n):
    if isinstance(n, int) and n > 0 and n & (n - 1) == 0:
        return n.bit_length() - 1
    return None
