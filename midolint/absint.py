"""Abstract interpreter for the small straight-line codec functions.

Values are either concrete Python constants (folded), abstract integers in the
bit-layout domain (bits.AV), abstract lists / dicts / objects whose *shape* is
known while their integer contents are symbolic, or Opaque.  Branches whose
condition cannot be decided are explored both ways (decision DFS by
re-execution); the caller sees every outcome together with the undecided
conditions it depended on.

No code of mido is executed by Python: the interpreter walks the AST and applies
the transfer functions of the abstract domains.
"""
from __future__ import annotations

import ast

from .bits import AV, Sym, pow2_exp
from .poly import Poly, Wrapped, to_poly
from .fold import (ClassRef, ExtRef, Folder, FuncRef, Unfoldable, _BINOPS, _BUILTINS,
                   _CMPOPS, _UNOPS)
from .model import AnalysisError, ClassInfo, Module, Unsupported, unparse


import os as _os
_DEBUG = bool(_os.environ.get('MIDOLINT_DEBUG'))


class Opaque:
    def __init__(self, why=''):
        self.why = why

    def __repr__(self):
        return f'Opaque({self.why})'


class ATypeOf:
    """type(x) of a symbolic number: which of the numeric types it is exactly is not known."""
    def __init__(self, of):
        self.of = of

    def may_be(self, t):
        if isinstance(self.of, Poly):
            return t in (int, float, bool)
        return t in (int, bool)

    def __repr__(self):
        return f'type({self.of!r})'


class SeqVar:
    """A symbolic run of list elements (sysex payload, text bytes...)."""
    def __init__(self, name, umax=127, minlen=0):
        self.name = name
        self.sym = Sym(f'{name}[i]', umax)
        self.minlen = minlen

    def __repr__(self):
        return f'*{self.name}'


class AList:
    def __init__(self, items, kind='list'):
        self.items = list(items)
        self.kind = kind

    def has_var(self):
        return any(isinstance(x, SeqVar) for x in self.items)

    def minlen(self):
        return sum(x.minlen if isinstance(x, SeqVar) else 1 for x in self.items)

    def __repr__(self):
        return f'{self.kind}{self.items!r}'


class ADict:
    def __init__(self, d=None):
        self.d = dict(d or {})

    def __repr__(self):
        return f'ADict({self.d!r})'


class AObj:
    def __init__(self, cls: ClassInfo | None = None, attrs=None, name='obj'):
        self.cls = cls
        self.attrs = dict(attrs or {})
        self.name = name
        self.stores = []

    def __repr__(self):
        return f'AObj<{self.cls.name if self.cls else "?"}>({self.attrs!r})'


EVENT_LOG = []


def log_event(*ev):
    EVENT_LOG.append(ev)


class KeysView(list):
    """dict.keys(): a list (ordered, indexable for the interpreter) that compares and combines like a set, as the real view does."""
    __hash__ = None

    def _set(self):
        return set(self)

    def __eq__(self, other):
        if isinstance(other, (set, frozenset, KeysView)):
            return self._set() == set(other)
        return False

    def __ne__(self, other):
        return not self.__eq__(other)

    def __le__(self, other):
        return self._set() <= set(other)

    def __lt__(self, other):
        return self._set() < set(other)

    def __ge__(self, other):
        return self._set() >= set(other)

    def __gt__(self, other):
        return self._set() > set(other)

    def __and__(self, other):
        return self._set() & set(other)

    __rand__ = __and__

    def __or__(self, other):
        return self._set() | set(other)

    __ror__ = __or__

    def __sub__(self, other):
        return self._set() - set(other)

    def __rsub__(self, other):
        return set(other) - self._set()

    def __xor__(self, other):
        return self._set() ^ set(other)

    __rxor__ = __xor__

    def isdisjoint(self, other):
        return self._set().isdisjoint(other)


def _builtins_mod():
    import builtins
    return builtins


class AGen:
    """A generator object that has not run yet (created by calling a generator function)."""
    def __init__(self, info, env, module):
        self.info = info
        self.env = env
        self.module = module
        self.done = False

    def __repr__(self):
        return f'<generator {self.info.qname}>'


class AStruct:
    """struct.Struct(fmt): a precompiled layout; its methods are the struct module functions with the format filled in."""
    def __init__(self, fmt):
        self.fmt = fmt

    def __repr__(self):
        return f'<Struct {self.fmt!r}>'

    def absint_hasattr(self, name):
        return name in ('size', 'format', 'pack', 'unpack', 'unpack_from', 'pack_into', 'iter_unpack')

    def absint_getattr(self, interp, name, node):
        import struct as _struct
        if name == 'size':
            return _struct.calcsize(self.fmt)
        if name == 'format':
            return self.fmt
        if name in ('pack', 'unpack', 'unpack_from'):
            return ('structmethod', self, name)
        raise AbsRaise('AttributeError', node, implicit=True)

    def call(self, interp, name, args, kwargs, node):
        import struct as _struct
        if name == 'pack':
            return interp.apply(ExtRef('struct.pack'), [self.fmt] + list(args), {}, node)
        if name == 'unpack':
            return interp.apply(ExtRef('struct.unpack'), [self.fmt] + list(args), {}, node)
        if name == 'unpack_from':
            data = args[0]
            offset = kwargs.get('offset', args[1] if len(args) > 1 else 0)
            size = _struct.calcsize(self.fmt)
            if isinstance(data, (bytes, bytearray)) and isinstance(offset, int):
                try:
                    return _struct.unpack_from(self.fmt, data, offset)
                except _struct.error:
                    raise AbsRaise('struct.error', node)
            if isinstance(data, AList) and isinstance(offset, int):
                # byte offsets into a list of wire items: whole items only
                pos = 0
                out = []
                got = 0
                for it in data.items:
                    sz = it.size_var() if hasattr(it, 'size_var') else (1 if not isinstance(it, SeqVar) else None)
                    if not isinstance(sz, int):
                        return Opaque('unpack_from over a symbolic run')
                    if pos < offset:
                        pos += sz
                        if pos > offset:
                            return Opaque('unpack_from offset cuts through a field')
                        continue
                    if got >= size:
                        break
                    out.append(it)
                    got += sz
                if got < size:
                    raise AbsRaise('struct.error', node)
                if got > size:
                    return Opaque('unpack_from size cuts through a field')
                return interp.apply(ExtRef('struct.unpack'), [self.fmt, AList(out, 'bytes')], {}, node)
            return Opaque('unpack_from')
        return Opaque(f'Struct.{name}')


class ALazy:
    """A lazy iterator object built by map / filter / filterfalse / iter / enumerate over something that is itself lazy
    (or not): consumed by driving the source and transforming each item on the way."""
    def __init__(self, kind, fn, src):
        self.kind = kind
        self.fn = fn
        self.src = src
        self.done = False

    def __repr__(self):
        return f'<{self.kind} over {self.src!r}>'

    pos = 0

    def seq(self):
        return self.src.items if isinstance(self.src, AList) else self.src

    def steppable(self):
        """iter() over a list-like value whose every position is known: it can be advanced one item at a time."""
        if self.kind == 'iter' and isinstance(self.src, (list, tuple)):
            return True
        return self.kind == 'iter' and isinstance(self.src, AList) and not self.src.has_var() and (
            self.src.kind in ('list', 'tuple', 'bytes', 'bytearray')
            or (getattr(self.src, 'cls', None) is not None or self.src.kind[:1].isupper()))         # (an instance of a list subclass)

    def drive(self, interp, node, cb):
        if self.done:
            return
        if self.kind == 'pull':
            # an iterator object of the program (a class with __next__): one call of __next__ per item until it raises
            # StopIteration.  Nothing is latched here: whether a finished iterator stays finished is the class's business.
            n = 0
            while True:
                try:
                    v = interp.pull_next(self.src, node)
                except AbsRaise as ex:
                    if ex.exc == 'StopIteration':
                        return
                    raise
                n += 1
                if n > 4096:
                    raise AbsRaise('NonTermination', node)
                cb(v)
        if self.kind == 'iter' and self.steppable():
            # iter(list): walked by position over the list as it is at each step; finished for good once it has run off the end
            items = self.seq()
            while self.pos < len(items):
                v = items[self.pos]
                self.pos += 1
                if self.pos > 4096:
                    raise AbsRaise('NonTermination', node)
                cb(v)
            self.done = True
            return
        if self.kind == 'callsentinel':
            # iter(callable, sentinel): call until the result equals the sentinel (resumable: each drive goes on calling)
            n = 0
            while True:
                v = interp.apply(self.fn, [], {}, node)
                same = v is self.src
                if not same:
                    r = interp.compare(ast.Eq(), v, self.src, node)
                    same = r if r is not None else interp.decide(node, 'iter(callable, sentinel): result equals the sentinel')
                if same:
                    self.done = True
                    return
                n += 1
                if n > 4096:
                    raise AbsRaise('NonTermination', node)
                cb(v)
        if self.kind == 'repeat_forever':
            n = 0
            while True:
                n += 1
                if n > 4096:
                    raise AbsRaise('NonTermination', node)
                cb(self.src)
        self.done = True
        counter = [0]

        def step(v):
            if self.kind == 'map':
                cb(interp.apply(self.fn, [v], {}, node))
            elif self.kind == 'starmap':
                cb(interp.apply(self.fn, interp.iterate(v, node, keep_vars=True), {}, node))
            elif self.kind in ('filter', 'filterfalse'):
                keep = interp.truth(interp.apply(self.fn, [v], {}, node) if self.fn is not None else v, node)
                if keep == (self.kind == 'filter'):
                    cb(v)
            elif self.kind == 'flatten':
                interp.for_each(v, node, cb)
            elif self.kind == 'enumerate':
                cb(AList([counter[0] + (self.fn or 0), v], 'tuple'))
                counter[0] += 1
            elif self.kind == 'zip1':
                idx, others = self.fn
                k = counter[0]
                counter[0] += 1
                row = []
                for j, o in enumerate(others):
                    if j == idx:
                        row.append(v)
                    elif o[0] == 'const':
                        row.append(o[1])
                    elif k < len(o[1]):
                        row.append(o[1][k])
                    else:
                        return              # a finite partner has run out
                cb(AList(row, 'tuple'))
            else:
                cb(v)
        interp.for_each(self.src, node, step)


class _NextFound(Exception):
    def __init__(self, value):
        self.value = value


class _GenEscape(Exception):
    """An exception / return / break raised by the BODY of a for loop while the generator it iterates is being run
    with the body as a callback: it must pass through the generator's frames untouched."""
    def __init__(self, inner, owner=None):
        self.inner = inner
        self.owner = owner              # the loop whose body raised it: only that loop takes it apart


class AExcValue:
    """The exception object bound by `except ... as err` when the raiser (a scripted double) gave it attributes."""
    def __init__(self, exc, attrs):
        self.exc = exc
        self.attrs = dict(attrs)

    def __repr__(self):
        return f'<{self.exc} {self.attrs}>'

    def absint_hasattr(self, name):
        return name in self.attrs

    def absint_getattr(self, interp, name, node):
        if name in self.attrs:
            return self.attrs[name]
        return Opaque(f'exception attribute {name}')


class AbsRaise(Exception):
    def __init__(self, exc, node, implicit=False, msg='', attrs=None):
        self.exc = exc
        self.node = node
        self.implicit = implicit
        self.msg = msg
        self.attrs = attrs


class _Undecided(Exception):
    """Raised instead of splitting the path while an expression is only being looked at."""


def _pure_expr(n, env):
    """An expression whose evaluation runs no code of the program and changes nothing: names, constants, comparisons and
    arithmetic on them, isinstance()/type()/len() of them."""
    if isinstance(n, (ast.Name, ast.Constant)):
        return True
    if isinstance(n, ast.Compare):
        return _pure_expr(n.left, env) and all(_pure_expr(c, env) for c in n.comparators)
    if isinstance(n, ast.BoolOp):
        return all(_pure_expr(v, env) for v in n.values)
    if isinstance(n, ast.UnaryOp):
        return _pure_expr(n.operand, env)
    if isinstance(n, ast.BinOp):
        return _pure_expr(n.left, env) and _pure_expr(n.right, env)
    if isinstance(n, (ast.Tuple, ast.List)):
        return all(_pure_expr(v, env) for v in n.elts)
    if isinstance(n, ast.Call) and isinstance(n.func, ast.Name) and n.func.id in ('isinstance', 'type', 'len') and n.func.id not in env \
            and not n.keywords:
        return all(_pure_expr(a, env) for a in n.args) and not any(isinstance(env.get(a.id), AObj) for a in n.args if isinstance(a, ast.Name))
    return False


class _Ret(Exception):
    def __init__(self, v):
        self.v = v


class _Brk(Exception):
    pass


class _Cont(Exception):
    pass


def _distinct_outcomes(results, log_key=None):
    """Paths that end the same way (same value or exception from the same statement, same state of everything reachable,
    same recorded events) are one behaviour: two tests in front of the same code do not make two outcomes."""
    seen, out = set(), []
    for o in results:
        if getattr(o, '_key', None) is None:
            try:
                lk = (log_key or skey)(getattr(o, 'log', ()))
                if o.kind == 'raise':
                    o._key = ('raise', o.exc, id(o.node), o.implicit, lk)
                else:
                    o._key = ('return', skey(o.value), lk)
            except RecursionError:
                o._key = ('unique', id(o))
        if o._key in seen:
            continue
        seen.add(o._key)
        out.append(o)
    return out


_PURE_BUILTINS = {'isinstance', 'type', 'len', 'int', 'float', 'str', 'repr', 'bool', 'abs', 'min', 'max', 'range', 'format',
                  'divmod', 'round', 'ord', 'chr', 'hex', 'callable', 'issubclass', 'id'}


def _plain_value(v, depth=0):
    """Values a function cannot change and whose use runs no code of the program."""
    if v is None or isinstance(v, (bool, int, float, str, bytes, type, AV, Poly, Opaque, ATypeOf, ExtRef, ClassRef, FuncRef, range)):
        return True
    if type(v).__name__ in ('SStr', 'LenV'):
        return True
    if depth > 4:
        return False
    if isinstance(v, (tuple, list, set, frozenset)):
        return all(_plain_value(x, depth + 1) for x in v)
    if isinstance(v, dict):
        return all(_plain_value(x, depth + 1) for x in v.values())
    if isinstance(v, AList):
        return v.kind in ('list', 'tuple', 'bytes', 'bytearray', 'set', 'frozenset') and getattr(v, 'cls', None) is None \
            and all(isinstance(x, SeqVar) or _plain_value(x, depth + 1) for x in v.items)
    if isinstance(v, ADict):
        return getattr(v, 'owner', None) is None and all(_plain_value(x, depth + 1) for x in v.d.values())
    return False


def skey(v):
    """A structural key of an abstract value (with the sharing between its mutable parts): equal keys, same behaviour."""
    memo = {}

    def w(x):
        if x is None or isinstance(x, (bool, int, float, str, bytes, type)):
            return (type(x).__name__, repr(x))
        if isinstance(x, (AV, Poly, Opaque, ATypeOf, ExtRef, ClassRef, FuncRef, SeqVar, range)) or type(x).__name__ in ('SStr', 'LenV', 'Sym'):
            return ('v', type(x).__name__, repr(x))
        if isinstance(x, tuple):
            return ('t',) + tuple(w(i) for i in x)
        if isinstance(x, ast.AST):
            return ('node', type(x).__name__, getattr(x, 'lineno', 0), getattr(x, 'col_offset', 0))
        if hasattr(x, 'qname') and not isinstance(x, (AObj, AList, ADict)):
            return ('info', type(x).__name__, x.qname)
        oid = id(x)
        if oid in memo:
            return ('ref', memo[oid])
        n = memo[oid] = len(memo)
        if isinstance(x, AList):
            return ('AList', n, x.kind, getattr(getattr(x, 'cls', None), 'qname', None), tuple(w(i) for i in x.items))
        if isinstance(x, ADict):
            return ('ADict', n, tuple((w(k), w(val)) for k, val in x.d.items()))
        if isinstance(x, AObj):
            return ('AObj', n, getattr(x.cls, 'qname', None), tuple((k, w(val)) for k, val in x.attrs.items()), w(tuple(x.stores)))
        if isinstance(x, list):
            return ('l', n) + tuple(w(i) for i in x)
        if isinstance(x, (set, frozenset)):
            return ('s', n, tuple(sorted(repr(w(i)) for i in x)))
        if isinstance(x, dict):
            return ('d', n, tuple((w(k), w(val)) for k, val in x.items()))
        if isinstance(x, AbsRaise):
            return ('raise', x.exc, w(x.node), x.implicit)
        return ('o', n, type(x).__name__, repr(x))
    return w(v)


class Outcome:
    def __init__(self, kind, value=None, exc=None, node=None, decisions=(), implicit=False):
        self.kind = kind          # 'return' | 'raise'
        self.value = value
        self.exc = exc
        self.node = node
        self.decisions = list(decisions)
        self.implicit = implicit

    def __repr__(self):
        if self.kind == 'return':
            return f'return {self.value!r}'
        return f'raise {self.exc}{" (implicit)" if self.implicit else ""} at line {getattr(self.node, "lineno", "?")}'


_BUILTIN_EXC_PARENTS = {
    'IndexError': 'LookupError', 'KeyError': 'LookupError', 'LookupError': 'Exception',
    'ValueError': 'Exception', 'TypeError': 'Exception', 'UnicodeError': 'ValueError',
    'UnicodeDecodeError': 'UnicodeError', 'UnicodeEncodeError': 'UnicodeError',
    'OSError': 'Exception', 'IOError': 'Exception', 'EOFError': 'Exception',
    'AttributeError': 'Exception', 'RuntimeError': 'Exception',
    'NotImplementedError': 'RuntimeError', 'ZeroDivisionError': 'ArithmeticError',
    'OverflowError': 'ArithmeticError', 'ArithmeticError': 'Exception',
    'StopIteration': 'Exception', 'AssertionError': 'Exception', 'RecursionError': 'RuntimeError',
    'struct.error': 'Exception', 'Exception': 'BaseException',
    'KeyboardInterrupt': 'BaseException', 'queue.Empty': 'Exception',
    'socket.error': 'Exception',
}
_ALIASES = {'IOError': 'OSError', 'socket.error': 'OSError', 'EnvironmentError': 'OSError'}


def exc_is(exc, handler_name, extra_parents=None):
    """Is exception class name `exc` caught by `except handler_name`?"""
    parents = dict(_BUILTIN_EXC_PARENTS)
    if extra_parents:
        parents.update(extra_parents)
    exc = _ALIASES.get(exc, exc)
    handler_name = _ALIASES.get(handler_name, handler_name)
    seen = set()
    while exc and exc not in seen:
        if exc == handler_name:
            return True
        seen.add(exc)
        exc = parents.get(exc)
        exc = _ALIASES.get(exc, exc)
    return False


def handler_names(h: ast.ExceptHandler):
    if h.type is None:
        return ['BaseException']
    if isinstance(h.type, ast.Tuple):
        return [unparse(x) for x in h.type.elts]
    return [unparse(h.type)]


class AEnumInt(int):
    """A member of an IntEnum / IntFlag class of the program: an int that also has .name and .value."""
    def __new__(cls, value, name='?', enum_name='?'):
        o = int.__new__(cls, value)
        o._name_, o._enum_ = name, enum_name
        return o

    @property
    def value(self):
        return int(self)

    @property
    def name(self):
        return self._name_

    def __repr__(self):
        return f'<{self._enum_}.{self._name_}: {int(self)}>'


def enum_kind(interp, cls):
    """'int' for IntEnum / IntFlag classes (members behave as ints), 'other' for other Enum classes, None otherwise."""
    for k in interp.p.mro(cls):
        for b in k.bases:
            if isinstance(b, str):
                nm = b.split('.')[-1]
                if nm in ('IntEnum', 'IntFlag'):
                    return 'int'
                if nm in ('Enum', 'Flag', 'StrEnum'):
                    return 'other'
    return None


def enum_members(interp, cls):
    out = {}
    for k in reversed(interp.p.mro(cls)):
        for name, expr in k.attrs.items():
            if name.startswith('_'):
                continue
            try:
                v = interp.f.eval(expr, {}, k.module)
            except Unfoldable:
                continue
            if isinstance(v, int) and not isinstance(v, bool):
                out[name] = AEnumInt(v, name, cls.name)
    return out


class AEnumMember:
    """A member of a plain Enum class of the program: one object per member (compared by identity), with a name and a value."""
    def __init__(self, cls, name, value):
        self.cls, self.name, self.value = cls, name, value

    def __repr__(self):
        return f'<{self.cls.name}.{self.name}: {self.value!r}>'


def plain_enum_members(interp, cls):
    """name -> AEnumMember for an Enum class that is not an IntEnum; enum.auto() counts from 1 in definition order."""
    cache = interp.f.__dict__.setdefault('_plain_enum_members', {})
    if cls.qname not in cache:
        out, last = {}, 0
        for k in reversed(interp.p.mro(cls)):
            for name, expr in k.attrs.items():
                if name.startswith('_'):
                    continue
                if isinstance(expr, ast.Call) and unparse(expr.func).split('.')[-1] == 'auto' and not expr.args:
                    v = last + 1
                else:
                    try:
                        v = interp.f.eval(expr, {}, k.module)
                    except Unfoldable:
                        continue
                    if isinstance(v, (FuncRef, ClassRef)):
                        continue
                if isinstance(v, int) and not isinstance(v, bool):
                    last = v
                out[name] = AEnumMember(cls, name, v)
        cache[cls.qname] = out
    return cache[cls.qname]


class ANTClass:
    """The class made by collections.namedtuple(name, fields)."""
    def __init__(self, name, fields, defaults=()):
        self.name, self.fields, self.defaults = name, tuple(fields), tuple(defaults)

    def __repr__(self):
        return f'<namedtuple {self.name}{self.fields}>'


def _nt_parse(interp, call, module):
    """(name, fields, defaults) of a namedtuple(...) call expression, or None."""
    if not (isinstance(call, ast.Call) and unparse(call.func).split('.')[-1] == 'namedtuple' and len(call.args) >= 2):
        return None
    try:
        name = interp.f.eval(call.args[0], {}, module)
        flds = interp.f.eval(call.args[1], {}, module)
        defaults = ()
        for kw in call.keywords:
            if kw.arg == 'defaults':
                defaults = tuple(interp.f.eval(kw.value, {}, module))
            elif kw.arg not in ('module',):
                return None
    except Unfoldable:
        return None
    if isinstance(flds, str):
        flds = flds.replace(',', ' ').split()
    if not isinstance(name, str) or not all(isinstance(x, str) for x in flds):
        return None
    return name, tuple(flds), defaults


def _annotated_fields(interp, k):
    """(name, default expression | None) of the annotated class-level names of class k, in order (dataclass / NamedTuple fields)."""
    out = []
    for st in k.node.body:
        if isinstance(st, ast.AnnAssign) and isinstance(st.target, ast.Name):
            ann = unparse(st.annotation)
            if ann.startswith(('ClassVar', 'typing.ClassVar')):
                continue
            out.append((st.target.id, st.value))
    return out


def nt_spec(interp, cls):
    """Field names (and defaults) when class cls derives from a namedtuple(...) made in its class statement, or from
    typing.NamedTuple with annotated fields."""
    for k in interp.p.mro(cls):
        for b in k.node.bases:
            got = _nt_parse(interp, b, k.module)
            if got is not None:
                return got[1], got[2]
            if unparse(b).split('.')[-1] == 'NamedTuple':
                flds = _annotated_fields(interp, k)
                names = tuple(n for n, d in flds)
                defaults = []
                for n, d in flds:
                    if d is not None:
                        defaults.append(interp.ev(d, {}, k.module))
                return names, tuple(defaults)
    return None


def dataclass_spec(interp, cls):
    """(fields [(name, default expr | None, module)], options) when cls (or a base) is decorated with @dataclass; fields of
    the bases come first, as dataclasses orders them."""
    found = None
    fields = {}
    for k in reversed(interp.p.mro(cls)):
        for d in k.node.decorator_list:
            dn = unparse(d.func) if isinstance(d, ast.Call) else unparse(d)
            if dn.split('.')[-1] == 'dataclass':
                opts = {}
                if isinstance(d, ast.Call):
                    for kw in d.keywords:
                        if kw.arg and isinstance(kw.value, ast.Constant):
                            opts[kw.arg] = kw.value.value
                if k is cls or found is None:
                    found = opts
                for n, dflt in _annotated_fields(interp, k):
                    fields[n] = (n, dflt, k.module)
    if found is None:
        return None
    return list(fields.values()), found


def dataclass_bind(interp, cls, spec, args, kwargs, node):
    fields, opts = spec
    names = [n for n, d, m in fields]
    if len(args) > len(names):
        raise AbsRaise('TypeError', node, implicit=True, msg='too many arguments')
    vals = dict(zip(names, args))
    for k, v in kwargs.items():
        if k not in names or k in vals:
            raise AbsRaise('TypeError', node, implicit=True, msg=f'unexpected or repeated field {k}')
        vals[k] = v
    for n, d, m in fields:
        if n in vals:
            continue
        if d is None:
            raise AbsRaise('TypeError', node, implicit=True, msg=f'missing field {n}')
        if isinstance(d, ast.Call) and unparse(d.func).split('.')[-1] == 'field':
            kw = {k.arg: k.value for k in d.keywords}
            if 'default_factory' in kw:
                vals[n] = interp.apply(interp.ev(kw['default_factory'], {}, m), [], {}, node)
            elif 'default' in kw:
                vals[n] = interp.ev(kw['default'], {}, m)
            else:
                raise AbsRaise('TypeError', node, implicit=True, msg=f'missing field {n}')
        else:
            vals[n] = interp.ev(d, {}, m)
    return {n: vals[n] for n in names}


def nt_bind(fields, defaults, args, kwargs, node):
    if len(args) > len(fields):
        raise AbsRaise('TypeError', node, implicit=True, msg='too many arguments')
    vals = dict(zip(fields, args))
    for k, v in kwargs.items():
        if k not in fields or k in vals:
            raise AbsRaise('TypeError', node, implicit=True, msg=f'unexpected or repeated field {k}')
        vals[k] = v
    nd = len(defaults)
    for i, f in enumerate(fields):
        if f not in vals:
            j = i - (len(fields) - nd)
            if j < 0:
                raise AbsRaise('TypeError', node, implicit=True, msg=f'missing field {f}')
            vals[f] = defaults[j]
    out = {f: vals[f] for f in fields}
    out['__fields__'] = tuple(fields)
    return out


def nt_items(obj):
    """The tuple items of a namedtuple instance, or None for other objects."""
    if isinstance(obj, AObj) and '__fields__' in obj.attrs:
        return [obj.attrs[f] for f in obj.attrs['__fields__']]
    return None


class AExitStack:
    """contextlib.ExitStack: context managers entered through it are left, last first, when the stack is."""
    def __init__(self):
        self.exits = []

    def __repr__(self):
        return f'<ExitStack {len(self.exits)}>'

    def absint_getattr(self, interp, name, node):
        if name in ('enter_context', 'callback', 'close', 'push', 'pop_all'):
            return ('mockmethod', self, name)
        raise AbsRaise('AttributeError', node, implicit=True, msg=name)

    def absint_method(self, interp, name, args, kwargs, node):
        if name == 'enter_context' and len(args) == 1:
            cm = args[0]
            if isinstance(cm, tuple) and len(cm) == 2 and cm[0] == 'nullctx':
                return cm[1]
            if isinstance(cm, tuple) and len(cm) == 2 and cm[0] == 'closingctx':
                self.exits.append(('call', lambda: interp.method_call(cm[1], 'close', [], {}, node)))
                return cm[1]
            if isinstance(cm, AObj) and cm.cls is not None and interp.p.lookup_method(cm.cls, '__enter__')[1] is not None:
                o1, enter = interp.p.lookup_method(cm.cls, '__enter__')
                o2, exit_ = interp.p.lookup_method(cm.cls, '__exit__')
                got = interp.call_function(enter, [cm], {}, node)
                self.exits.append(('exit', cm, exit_))
                return got
            if isinstance(cm, Opaque):
                raise Unsupported(f'ExitStack.enter_context({cm!r})')
            # file doubles, lock doubles...: entering gives the object itself
            log_event('with-enter', cm)
            self.exits.append(('double', cm))
            return cm
        if name == 'callback' and args:
            f, rest = args[0], list(args[1:])
            self.exits.append(('call', lambda: interp.apply(f, rest, dict(kwargs), node)))
            return f
        if name == 'close' and not args:
            self.unwind(interp, node, None)
            return None
        raise Unsupported(f'ExitStack.{name}')

    def unwind(self, interp, node, exc):
        """Leave everything entered, last first; returns True when an __exit__ swallowed the exception."""
        swallowed = False
        while self.exits:
            ent = self.exits.pop()
            if ent[0] == 'call':
                ent[1]()
            elif ent[0] == 'double':
                log_event('with-exit', ent[1])
                closer = getattr(ent[1], 'absint_exit', None)
                if closer is not None:
                    closer(interp, node)
            else:
                cm, exit_ = ent[1], ent[2]
                if exc is not None and not swallowed:
                    r = interp.call_function(exit_, [cm, exc.exc, AExcValue(exc.exc, getattr(exc, 'attrs', None) or {}), Opaque('traceback')], {}, node)
                    if r is not None and r is not False and (not _is_concrete(r) or r):
                        swallowed = True
                else:
                    interp.call_function(exit_, [cm, None, None, None], {}, node)
        return swallowed


class ADispatch:
    """functools.singledispatch(f): calls go to the implementation registered for the class of the first argument (the most
    specific registered class it is an instance of), else to f."""
    def __init__(self, default):
        self.default = default
        self.registry = []          # (class value, implementation), in registration order

    def __repr__(self):
        return f'<singledispatch {self.default!r} +{len(self.registry)}>'

    def absint_hasattr(self, name):
        return name in ('register', 'dispatch', 'registry')

    def absint_getattr(self, interp, name, node):
        if name == 'register':
            return ('dispatch-register', self)
        raise Unsupported(f'singledispatch attribute {name} at line {getattr(node, "lineno", "?")}')

    def choose(self, interp, arg, node):
        hits = []
        for cls_v, impl in self.registry:
            tn = interp._type_names(cls_v)
            r = interp._isinstance(arg, cls_v, ' '.join(tn) if tn is not None else '?', node) if tn is not None else None
            if r is True:
                hits.append((cls_v, impl))
            elif r is not False:
                raise Unsupported(f'singledispatch on a value whose class is not known at line {getattr(node, "lineno", "?")}')
        if not hits:
            return self.default
        # the most specific class wins: a registered class that is a subclass of another registered hit
        best = hits[-1]
        for cv, impl in hits:
            if all(cv is ov or _py_subclass(cv, ov) for ov, _ in hits):
                best = (cv, impl)
        return best[1]


def _py_subclass(a, b):
    if isinstance(a, type) and isinstance(b, type):
        return issubclass(a, b)
    return a is b


class ALogger:
    """logging.getLogger(...): a logger nobody listens to - its methods do nothing, nothing is enabled."""
    def __repr__(self):
        return '<logger>'

    def absint_hasattr(self, name):
        return True

    def absint_getattr(self, interp, name, node):
        if name in ('disabled', 'propagate'):
            return False
        if name == 'level':
            return 0
        return ('attr', self, name)


class ASuper:
    """super() inside a method: attribute lookup continues after the defining class in the MRO of the object."""
    def __init__(self, defcls, obj):
        self.defcls, self.obj = defcls, obj

    def __repr__(self):
        return f'<super of {self.defcls.name}>'

    def lookup(self, interp, name, node):
        obj = self.obj
        cls = obj.info if isinstance(obj, ClassRef) else getattr(obj, 'cls', None)
        if cls is None:
            raise Unsupported(f'super() on {obj!r}')
        mro = interp.p.mro(cls)
        idx = next((i for i, k in enumerate(mro) if k is self.defcls or k.qname == self.defcls.qname), None)
        if idx is None:
            raise Unsupported(f'super(): {self.defcls.name} is not in the MRO of {cls.name}')
        for k in mro[idx + 1:]:
            fn = k.methods.get(name)
            if fn is not None:
                if _is_staticmethod(fn.node):
                    return FuncRef(fn)
                if _is_classmethod(fn.node):
                    return ('bound', ClassRef(cls), fn)
                if any(isinstance(d, ast.Name) and d.id == 'property' for d in fn.node.decorator_list):
                    return interp.call_function(fn, [obj], {}, node)
                return ('bound', obj, fn)
            v = k.attrs.get(name) if hasattr(k, 'attrs') else None
            if isinstance(v, ast.Name) and v.id in k.methods:
                return ('bound', obj, k.methods[v.id])
            if v is not None:
                cv = interp.f.eval(v, {}, k.module)
                if isinstance(cv, FuncRef) and not _is_staticmethod(cv.info.node):
                    return ('bound', obj, cv.info)
                return cv
        # past the classes of the repository: object (or an external base)
        if any(not _project_base(interp, k) for k in mro):
            raise Unsupported(f'super().{name} reaches a base class outside the repository')
        if name in ('__init__', '__init_subclass__'):
            return ('objectmethod', obj, name)
        if name in ('__setattr__', '__delattr__', '__getattribute__') and isinstance(obj, AObj):
            return ('objectmethod', obj, name)
        raise AbsRaise('AttributeError', node, implicit=True, msg=name)


def _project_base(interp, k):
    """Are all bases of class k classes of the repository (or object)?"""
    return all(not isinstance(b, str) or b == 'object' for b in k.bases)



_REBOUND = {}


def _module_rebinding(info):
    """Line of a module-level assignment that binds the name of a module-level def again (0 if there is none)."""
    m = info.module
    key = (m.relpath, id(m.tree))
    if key not in _REBOUND:
        found = {}

        def scan(body):
            for st in body:
                if isinstance(st, (ast.FunctionDef, ast.AsyncFunctionDef, ast.ClassDef)):
                    continue
                if isinstance(st, (ast.Assign, ast.AnnAssign, ast.AugAssign)):
                    tgts = st.targets if isinstance(st, ast.Assign) else [st.target]
                    val = st.value
                    for t in tgts:
                        for n in ast.walk(t):
                            if isinstance(n, ast.Name) and isinstance(n.ctx, ast.Store) and n.id in m.functions \
                                    and m.functions[n.id].node.lineno < st.lineno \
                                    and not (isinstance(val, ast.Name) and val.id == n.id):
                                found.setdefault(n.id, st.lineno)
                for fld in ('body', 'orelse', 'finalbody'):
                    sub = getattr(st, fld, None)
                    if isinstance(sub, list):
                        scan(sub)
                for h in getattr(st, 'handlers', []) or []:
                    scan(h.body)
        scan(m.tree.body)
        _REBOUND[key] = found
    return _REBOUND[key].get(info.name, 0) if m.functions.get(info.name) is info else 0

class AbsInt:
    def __init__(self, folder: Folder, summaries=None, max_depth=30, extra_exc_parents=None):
        self.f = folder
        self.p = folder.p
        self.summaries = summaries or {}     # qname -> callable(interp, args, kwargs, node)
        self.max_depth = max_depth
        self.depth = 0
        self._choices = []
        self._trace = []
        self.steps = 0
        self.extra_exc_parents = extra_exc_parents or {}
        self.inlined = set()
        self.global_overrides = {}      # (module name, global name) -> abstract value
        self._yields = []               # collectors of the generators being (eagerly) evaluated
        self.module_globals = {}        # module name -> ADict written through globals()
        self.builtin_summaries = {}     # builtin name (open, print...) -> callable(interp, args, kwargs, node)
        self._cm_stack = []             # with-bodies waiting to run at the yield of a @contextmanager generator
        self.global_store = {}          # (module name, global name) -> value written through a `global` declaration
        self.method_hooks = []          # callables (interp, base, name, args, kwargs, node) -> value | _NO
        self.value_summaries = {}       # id(callable value, e.g. a closure) -> callable(interp, args, kwargs, node)

    # --------------------------------------------------------------- explore
    def explore(self, thunk, limit=64, merge=True):
        """All outcomes of thunk().  merge=False keeps paths apart that end the same way (for callers that read the recorded
        events of one path as if it were the only one)."""
        outer_bounds = {k: list(b) for k, b in LEN_BOUNDS.items()}
        self._explore_nesting = getattr(self, '_explore_nesting', 0) + 1
        try:
            return self._explore(thunk, limit, outer_bounds, merge)
        finally:
            self._explore_nesting -= 1
            LEN_BOUNDS.clear()
            LEN_BOUNDS.update(outer_bounds)

    def _explore(self, thunk, limit, outer_bounds, merge=True):
        results = []
        stack = [[]]
        while stack:
            pre = stack.pop()
            self._choices = list(pre)
            self._trace = []
            self.depth = 0
            self._callstack = []
            EVENT_LOG.clear()
            LEN_BOUNDS.clear()
            LEN_BOUNDS.update({k: list(b) for k, b in outer_bounds.items()})        # (what the caller assumes holds on every path)
            if getattr(self, '_explore_nesting', 0) <= 1:
                self.steps = 0          # (the budget is per path)
                self.__dict__.pop('_mutable_defaults', None)        # one-per-function / one-per-class objects are made anew:
                self.__dict__.pop('_class_body_cache', None)        # every path is a fresh process
                # every path starts from the state the modules are imported with: what an earlier path (or an earlier rule)
                # did to a module-level state object is undone
                self.f.restore_global_objects()
            try:
                v = self.consume(thunk())
                out = Outcome('return', v)
            except AbsRaise as e:
                out = Outcome('raise', exc=e.exc, node=e.node, implicit=e.implicit)
            except _Ret as r:      # pragma: no cover
                out = Outcome('return', r.v)
            out.decisions = list(self._trace)
            out.log = list(EVENT_LOG)
            out.len_bounds = {k: tuple(b) for k, b in LEN_BOUNDS.items()}
            out.globals_after = dict(self.global_store)
            results.append(out)
            for i in range(len(pre), len(self._trace)):
                alt = [d[1] for d in self._trace[:i]] + [not self._trace[i][1]]
                stack.append(alt)
            if len(results) > limit:
                if merge:
                    results = _distinct_outcomes(results, self._log_key)
                if len(results) > limit:
                    raise Unsupported('too many abstract outcomes')
        return _distinct_outcomes(results, self._log_key) if merge else results

    def _log_key(self, log):
        """The recorded events as far as they are behaviour: that a function without effects was entered is not."""
        return skey(tuple(e for e in log if not (e[0] == 'enter' and len(e) > 3 and hasattr(e[3], 'node') and e[4] is None
                                                and self.pure_function(e[3]))))

    def consume(self, v):
        """Run generator objects (also inside tuples/lists) to completion: what a caller doing list(gen) would see."""
        if isinstance(v, AGen):
            return AList(self.run_generator(v), 'generator')
        if isinstance(v, ALazy) or (isinstance(v, AObj) and v.cls is not None and self.p.lookup_method(v.cls, '__next__')[1] is not None
                                    and self.p.lookup_method(v.cls, '__iter__')[1] is not None):
            # an iterator object (map / filter / iter(...) or a class of the program with __next__): the items it hands out
            out = []
            (v if isinstance(v, ALazy) else ALazy('pull', None, v)).drive(self, None, out.append)
            return AList(out, 'generator')
        if isinstance(v, tuple):
            return tuple(self.consume(x) for x in v)
        if isinstance(v, list):
            return [self.consume(x) for x in v]
        return v

    def decide(self, node, why=''):
        if getattr(self, '_peek', 0):
            raise _Undecided()
        i = len(self._trace)
        choice = self._choices[i] if i < len(self._choices) else True
        self._trace.append((node, choice, why))
        return choice

    # ------------------------------------------------------------------ calls
    def call_function(self, info, args, kwargs, node=None, closure=None, trusted=False):
        if closure is None and info.qname in self.summaries:
            return self.summaries[info.qname](self, args, kwargs, node)
        for d in ([] if trusted else info.node.decorator_list):
            dn = unparse(d.func) if isinstance(d, ast.Call) else unparse(d)
            if dn.split('.')[-1] not in _SAFE_DECORATORS:
                # a decorator of the repository's own: fine when running the module body showed that it hands the function
                # back unchanged (registration decorators)
                self.f.module_namespace(info.module)
                if info.qname not in self.f.transparent_decorated:
                    raise Unsupported(f'decorator @{dn} on {info.qname} is not modelled (it may cache or alter the function)')
        if not trusted and info.cls is None and closure is None:
            line = _module_rebinding(info)
            if line:
                # `f = wrap(f)` after the def is a decorator written out: the name no longer means the function analysed here
                raise Unsupported(f'{info.qname} is bound again at module level (line {line}): calls through that name reach whatever '
                                  'the assignment made of it (a wrapper that may cache, skip or alter the call), which is not modelled')
        key = (info.qname, id(args[0]) if args else None)
        stack = self.__dict__.setdefault('_callstack', [])
        if stack.count(key) >= 4:
            # the same function entered again and again on the same object with nothing bounding it: unbounded recursion
            raise AbsRaise('RecursionError', node, implicit=True, msg=info.qname)
        if self.depth >= self.max_depth:
            return Opaque(f'call depth at {info.qname}')
        fn = info.node
        a = fn.args
        env = {}
        if closure is not None:
            env.update({k: v for k, v in closure.items() if not k.startswith('__')})
            nl = _nonlocal_names(fn)
            if nl:
                env['__nonlocals__'] = nl
                env['__closure__'] = closure
        params = [x.arg for x in a.posonlyargs + a.args]
        args = list(args)
        if info.cls is not None and _is_classmethod(fn):
            pass
        for i, p in enumerate(params):
            if i < len(args):
                if p in kwargs:
                    raise AbsRaise('TypeError', node, implicit=True, msg=f'multiple values for argument {p}')
                env[p] = args[i]
            elif p in kwargs:
                env[p] = kwargs.pop(p)
            else:
                di = i - (len(params) - len(a.defaults))
                if di < 0:
                    raise AbsRaise('TypeError', node, implicit=True, msg=f'missing argument {p}')
                env[p] = self._default_value(info, ('pos', di), a.defaults[di])
        if len(args) > len(params):
            if a.vararg:
                env[a.vararg.arg] = AList(args[len(params):], 'tuple')
            else:
                raise AbsRaise('TypeError', node, implicit=True, msg='too many arguments')
        elif a.vararg:
            env[a.vararg.arg] = AList([], 'tuple')
        for ko, kd in zip(a.kwonlyargs, a.kw_defaults):
            if ko.arg in kwargs:
                env[ko.arg] = kwargs.pop(ko.arg)
            elif kd is not None:
                env[ko.arg] = self._default_value(info, ('kw', ko.arg), kd)
        if a.kwarg:
            env[a.kwarg.arg] = ADict(kwargs)
        elif kwargs:
            raise AbsRaise('TypeError', node, implicit=True, msg=f'unexpected keyword {sorted(kwargs)}')
        self.inlined.add(info.qname)
        self.p.consulted.add(info.module.relpath)
        self.depth += 1
        if info.cls is not None and args:
            env['__defcls__'] = info.cls
            env['__self0__'] = args[0]
        gl = _global_names(fn)
        if gl:
            env['__globals__'] = gl
        if getattr(self, '_cm_pending', None) is not None:
            env['__cm__'] = self._cm_pending
            self._cm_pending = None
        if _is_generator(fn):
            self.depth -= 1
            cb = env.pop('__cm__', None)
            g = AGen(info, env, info.module)
            if cb is not None:
                # a @contextmanager generator used by a with statement: run it now, the with-body runs at the yield
                self.run_generator(g, cb)
                return None
            return g
        log_event('enter', info.qname, args[0] if args else None, info, closure, self.depth, args[1] if len(args) > 1 else None)
        stack.append(key)
        try:
            if closure is None and not getattr(self, 'no_probe', False) and self.pure_function(info) \
                    and all(_plain_value(v) for k, v in env.items() if not k.startswith('__')):
                # a function without effects (it compares, returns or raises): when all its paths end the same way the
                # caller goes on along one path - "type(x) is int" shortcuts in front of the general test, and the like
                merged = self._probe_pure(fn, env, info)
                if merged is not None:
                    if merged[0] == 'raise':
                        raise merged[1]
                    return merged[1]
            self.ex_block(fn.body, env, info.module)
        except _Ret as r:
            return r.v
        finally:
            self.depth -= 1
            stack.pop()
        return None

    def pure_function(self, info, _seen=None):
        cache = self.__dict__.setdefault('_pure_cache', {})
        if info.qname in cache:
            return cache[info.qname]
        seen = _seen if _seen is not None else set()
        if info.qname in seen:
            return True
        seen.add(info.qname)
        res = self._pure_body(info, seen)
        if _seen is None or not res:
            cache[info.qname] = res
        return res

    def pure_generator(self, info):
        """A generator function whose body only computes (no stores outside its frame, no calls with effects): running it
        ahead of its consumer cannot be told from running it step by step."""
        cache = self.__dict__.setdefault('_pure_gen_cache', {})
        if info.qname not in cache:
            cache[info.qname] = _is_generator(info.node) and self._pure_body(info, set(), generator=True)
        return cache[info.qname]

    def _pure_body(self, info, seen, generator=False):
        fn = info.node
        if fn.decorator_list or (_is_generator(fn) and not generator) or info.qname in self.summaries:
            return False
        a = fn.args
        local = {x.arg for x in a.posonlyargs + a.args + a.kwonlyargs}
        if a.vararg:
            local.add(a.vararg.arg)
        if a.kwarg:
            local.add(a.kwarg.arg)
        for n in ast.walk(fn):
            if isinstance(n, ast.Name) and isinstance(n.ctx, ast.Store):
                local.add(n.id)
        okfuncs = set()
        for n in ast.walk(fn):
            if n is fn:
                continue
            if generator and isinstance(n, ast.Yield):
                continue
            if isinstance(n, (ast.Yield, ast.YieldFrom, ast.Await, ast.Global, ast.Nonlocal, ast.With, ast.AsyncWith, ast.Lambda,
                              ast.FunctionDef, ast.AsyncFunctionDef, ast.ClassDef, ast.Delete, ast.Import, ast.ImportFrom,
                              ast.AsyncFor, ast.Match)):
                return False
            if isinstance(n, (ast.Attribute, ast.Subscript)) and isinstance(n.ctx, (ast.Store, ast.Del)):
                return False
            if isinstance(n, ast.Call):
                f = n.func
                if isinstance(f, ast.Name) and f.id not in local:
                    if f.id in _PURE_BUILTINS or f.id.endswith(('Error', 'Exception', 'Warning')):
                        okfuncs.add(id(f))
                        continue
                    try:
                        v = self.f.global_value(info.module, f.id)
                    except Exception:
                        return False
                    if isinstance(v, FuncRef) and self.pure_function(v.info, seen):
                        okfuncs.add(id(f))
                        continue
                    return False
                if isinstance(f, ast.Attribute) and isinstance(f.value, (ast.Constant, ast.JoinedStr)) \
                        and f.attr in ('format', 'join', 'upper', 'lower', 'strip'):
                    okfuncs.add(id(f))
                    continue
                return False
        for n in ast.walk(fn):
            if isinstance(n, ast.Attribute) and id(n) not in okfuncs:
                # attributes of module-level names only (numbers.Real): an attribute of an argument may be a property
                if not (isinstance(n.value, ast.Name) and n.value.id not in local):
                    return False
        return True

    def _probe_pure(self, fn, env, info):
        base = len(EVENT_LOG)
        saved = (self._choices, self._trace, self.depth, list(self._callstack))
        saved_bounds = {k: list(b) for k, b in LEN_BOUNDS.items()}
        outs = []
        todo = [[]]
        ok = True
        try:
            while todo:
                pre = todo.pop()
                self._choices = list(pre)
                self._trace = []
                del EVENT_LOG[base:]
                LEN_BOUNDS.clear()
                LEN_BOUNDS.update({k: list(b) for k, b in saved_bounds.items()})
                try:
                    self.ex_block(fn.body, dict(env), info.module)
                    o = ('return', None)
                except _Ret as r:
                    o = ('return', r.v)
                except AbsRaise as ex:
                    o = ('raise', ex)
                except (Unsupported, _GenEscape, _Brk, _Cont):
                    ok = False
                    break
                tail = EVENT_LOG[base:]
                if o[0] == 'raise':
                    k = ('raise', o[1].exc, id(o[1].node), o[1].implicit, self._log_key(tail))
                else:
                    k = ('return', skey(o[1]), self._log_key(tail))
                outs.append((k, o, tail))
                for i in range(len(pre), len(self._trace)):
                    todo.append([d[1] for d in self._trace[:i]] + [not self._trace[i][1]])
                if len(outs) > 24:
                    ok = False
                    break
        finally:
            self._choices, self._trace, self.depth = saved[0], saved[1], saved[2]
            self._callstack[:] = saved[3]
            del EVENT_LOG[base:]
            LEN_BOUNDS.clear()
            LEN_BOUNDS.update(saved_bounds)
        if not ok or len({k for k, _, _ in outs}) != 1:
            return None
        EVENT_LOG.extend(outs[0][2])
        return outs[0][1]

    def _default_value(self, info, key, expr):
        """The default of a parameter: the object made when the def statement ran.  While a module body is being executed the
        defaults of the functions it defines are evaluated then and there (a registry dict named as a default is the dict
        the module goes on filling)."""
        dd = getattr(self, '_def_defaults', None)
        if dd is not None and (info.qname, key) in dd:
            return dd[(info.qname, key)]
        if isinstance(expr, (ast.List, ast.Dict, ast.Set, ast.ListComp, ast.DictComp, ast.SetComp)) or \
                (isinstance(expr, ast.Call) and isinstance(expr.func, ast.Name) and expr.func.id in ('list', 'dict', 'set', 'bytearray', 'deque')):
            # a mutable default is ONE object for all calls: what one call puts into it the next call finds there
            cache = self.__dict__.setdefault('_mutable_defaults', {})
            if (info.qname, key) not in cache:
                cache[(info.qname, key)] = self.ev_default(expr, info.module)
            return cache[(info.qname, key)]
        return self.ev_default(expr, info.module)

    def ev_default(self, expr, module):
        """A parameter default is evaluated once, when the def statement runs (import time): later writes to module globals
        are not seen by it."""
        saved = self.global_store, self.global_overrides
        self.global_store, self.global_overrides = {}, {}
        try:
            return self.ev(expr, {}, module)
        finally:
            self.global_store, self.global_overrides = saved

    def run_generator(self, g: 'AGen', on_yield=None):
        """Run a generator to completion.  Without a callback the yielded values are collected (eager consumption:
        list(), extend(), sorted()...); with a callback it is called at every yield (lazy for-loop / with-statement)."""
        if getattr(g, 'buffer', None) is not None:
            # a generator that only computes, run ahead at its first next(): the rest of its items
            items, g.buffer[:] = list(g.buffer), []
            if on_yield is None:
                return items
            for v in items:
                on_yield(v)
            return []
        if g.done:
            if getattr(g, 'advanced', False):
                raise Unsupported(f'generator {g.info.qname} is used again after next() took an item from it (resumable generators are '
                                  f'modelled only when the generator has no effects)')
            return []
        g.done = True
        collected = []
        self._yields.append((collected, on_yield))
        self.depth += 1
        a0 = g.info.node.args.posonlyargs + g.info.node.args.args
        log_event('enter', g.info.qname, g.env.get(a0[0].arg) if a0 else None)
        try:
            self.ex_block(g.info.node.body, g.env, g.module)
        except _Ret:
            pass
        finally:
            self.depth -= 1
            self._yields.pop()
        return collected

    # ------------------------------------------------------------- statements
    def ex_block(self, stmts, env, m):
        for st in stmts:
            self.steps += 1
            if self.steps > 200000:
                raise Unsupported('abstract interpretation budget exceeded')
            self.ex(st, env, m)

    def ex(self, st, env, m):
        if isinstance(st, ast.Expr):
            if not isinstance(st.value, ast.Constant):
                self.ev(st.value, env, m)
        elif isinstance(st, ast.Assign):
            v = self.ev(st.value, env, m)
            for t in st.targets:
                self.assign(t, v, env, m)
        elif isinstance(st, ast.AnnAssign):
            if st.value is not None:
                self.assign(st.target, self.ev(st.value, env, m), env, m)
        elif isinstance(st, ast.AugAssign):
            cur = self.ev(st.target, env, m)
            v = self.ev(st.value, env, m)
            from .fold import _INPLACE
            if isinstance(cur, (set, list, dict, bytearray)) and type(st.op) in _INPLACE and _is_concrete(v):
                # in-place update of a mutable container: the object changes, whoever else holds it sees the change
                try:
                    res = _INPLACE[type(st.op)](cur, v)
                except TypeError:
                    raise AbsRaise('TypeError', st, implicit=True)
                self.assign(st.target, res, env, m)
            elif isinstance(cur, ADict) and isinstance(st.op, ast.BitOr) and isinstance(v, (ADict, dict)):
                self.method(cur, 'update', [v], {}, st)          # d |= other updates d in place (aliases see it, stores are logged)
                self.assign(st.target, cur, env, m)
            elif isinstance(cur, AList) and getattr(cur, 'cls', None) is not None and isinstance(st.op, (ast.Add, ast.Mult)):
                # a list subclass of the program.  CPython: its own __iadd__ / __imul__ when it has one; otherwise += extends
                # the list in place even when __add__ is overridden, while *= goes to an overridden __mul__ / __rmul__ first
                # (the number slot is tried before the sequence's in-place repeat) and re-binds the name to its result
                iname, oname, rname = ('__iadd__', '__add__', '__radd__') if isinstance(st.op, ast.Add) else ('__imul__', '__mul__', '__rmul__')
                o_, ifn = self.p.lookup_method(cur.cls, iname)
                if ifn is not None:
                    self.assign(st.target, self.call_function(ifn, [cur, v], {}, st), env, m)
                elif isinstance(st.op, ast.Add):
                    cur.items.extend(self.iterate(v, st, keep_vars=True))
                    self.assign(st.target, cur, env, m)
                elif self.p.lookup_method(cur.cls, oname)[1] is not None or self.p.lookup_method(cur.cls, rname)[1] is not None:
                    o_, ofn = self.p.lookup_method(cur.cls, oname)
                    if ofn is not None:
                        self.assign(st.target, self.call_function(ofn, [cur, v], {}, st), env, m)
                    else:
                        if not (isinstance(v, int) and not isinstance(v, bool)):
                            raise Unsupported('list subclass repeated a symbolic number of times')
                        self.assign(st.target, AList(list(cur.items) * v, 'list'), env, m)
                else:
                    if not (isinstance(v, int) and not isinstance(v, bool)):
                        raise Unsupported('list subclass repeated a symbolic number of times')
                    cur.items[:] = list(cur.items) * v
                    self.assign(st.target, cur, env, m)
            elif isinstance(cur, AList) and cur.kind in ('list', 'bytearray') and isinstance(st.op, ast.Add) \
                    and not isinstance(st.target, ast.Attribute):
                cur.items.extend(self.iterate(v, st, keep_vars=True))
                self.assign(st.target, cur, env, m)
            else:
                self.assign(st.target, self.binop(st.op, cur, v, st), env, m)
        elif isinstance(st, ast.If):
            if self.truth(self.ev(st.test, env, m), st.test):
                self.ex_block(st.body, env, m)
            else:
                self.ex_block(st.orelse, env, m)
        elif isinstance(st, ast.Return):
            raise _Ret(self.ev(st.value, env, m) if st.value is not None else None)
        elif isinstance(st, ast.Raise):
            if st.exc is None and getattr(self, '_active_exc', None):
                # bare raise inside a handler: the exception being handled goes on, the very same one
                orig = self._active_exc[-1]
                raise AbsRaise(orig.exc, orig.node, implicit=orig.implicit, msg=getattr(orig, 'msg', ''), attrs=getattr(orig, 'attrs', None))
            self._raise_attrs = None
            name = self.exc_name(st, env, m)
            attrs, self._raise_attrs = self._raise_attrs, None
            if isinstance(st.exc, ast.Call) and attrs is None:
                # the arguments of the exception are evaluated before anything is raised: a message that cannot be built
                # (a format string with more fields than arguments) raises something else instead
                for a_ in list(st.exc.args) + [k.value for k in st.exc.keywords]:
                    if isinstance(a_, (ast.Constant, ast.Name)):
                        continue
                    try:
                        self.ev(a_, env, m)
                    except Unsupported:
                        pass
            raise AbsRaise(name, st, attrs=attrs)
        elif isinstance(st, ast.Pass):
            pass
        elif isinstance(st, ast.For):
            it = self.ev(st.iter, env, m)
            gen = self.as_generator(it, st)
            if gen is None and isinstance(it, ALazy):
                gen = it
            if gen is not None:
                state = {'broke': False}

                def body(v):
                    try:
                        self.assign(st.target, v, env, m)
                        self.ex_block(st.body, env, m)
                    except _Cont:
                        return
                    except _Brk:
                        state['broke'] = True
                        raise _GenEscape(None, state)
                    except (_Ret, AbsRaise) as ex:
                        raise _GenEscape(ex, state)
                try:
                    if isinstance(gen, ALazy):
                        gen.drive(self, st, body)
                    else:
                        self.run_generator(gen, body)
                except _GenEscape as ge:
                    if ge.owner is not state and ge.owner is not None:
                        raise               # the break / exception of a consumer further out, on its way through this generator
                    if ge.inner is not None:
                        raise ge.inner
                if not state['broke']:
                    self.ex_block(st.orelse, env, m)
                return
            broke = False
            if isinstance(it, AList) and it.kind == 'list' and not it.has_var():
                # a list is walked by position, over the list as it is at each step: a body that removes the item it is looking
                # at makes the loop step over the next one, one that appends gets to see what it appended
                def live_items(al=it):
                    i_ = 0
                    while i_ < len(al.items):
                        if i_ > 4096:
                            raise Unsupported(f'loop over a list that keeps growing at line {st.lineno}')
                        yield al.items[i_]
                        i_ += 1
                walk = live_items()
            else:
                walk = self.iterate(it, st)
            for item in walk:
                self.assign(st.target, item, env, m)
                try:
                    self.ex_block(st.body, env, m)
                except _Brk:
                    broke = True
                    break
                except _Cont:
                    continue
            if not broke:
                self.ex_block(st.orelse, env, m)
        elif isinstance(st, ast.While):
            n = 0
            while self.truth(self.ev(st.test, env, m), st.test):
                n += 1
                if n > 64:
                    raise Unsupported(f'while loop does not terminate abstractly at line {st.lineno}')
                try:
                    self.ex_block(st.body, env, m)
                except _Brk:
                    break
                except _Cont:
                    continue
        elif isinstance(st, ast.Break):
            raise _Brk()
        elif isinstance(st, ast.Continue):
            raise _Cont()
        elif isinstance(st, ast.Try):
            # the finally clause runs on every way out: normal completion, return / break / continue, an exception that is
            # not handled, an exception raised by a handler (internal analysis errors pass through untouched)
            try:
                try:
                    self.ex_block(st.body, env, m)
                except AbsRaise as e:
                    for h in st.handlers:
                        if any(exc_is(e.exc, hn, self.extra_exc_parents) for hn in self.handler_names(h, env, m)):
                            if h.name:
                                env[h.name] = AExcValue(e.exc, e.attrs) if getattr(e, 'attrs', None) else Opaque('exception')
                            active = self.__dict__.setdefault('_active_exc', [])
                            active.append(e)            # what a bare `raise` in the handler raises again
                            try:
                                self.ex_block(h.body, env, m)
                            finally:
                                active.pop()
                            break
                    else:
                        raise
                else:
                    self.ex_block(st.orelse, env, m)
            except (AbsRaise, _Ret, _Brk, _Cont, _GenEscape, _NextFound):
                self.ex_block(st.finalbody, env, m)
                raise
            self.ex_block(st.finalbody, env, m)
        elif isinstance(st, ast.Import):
            # `import os` inside a function: the name is a local variable bound to the module (modules of the library only; an
            # import of a module of the program is left to the name lookup as before)
            for a_ in st.names:
                top = a_.name.split('.')[0]
                if top not in self.p.modules and not any(k == top or k.startswith(top + '.') for k in self.p.modules):
                    env[a_.asname or top] = ExtRef(a_.name if a_.asname else top)
        elif isinstance(st, (ast.Global, ast.Nonlocal, ast.ImportFrom)):
            pass
        elif isinstance(st, (ast.FunctionDef, ast.AsyncFunctionDef)):
            # a nested function: a closure over the enclosing frame (read access to its variables, current values at call time)
            from .model import FuncInfo as _FI
            info = _FI(st.name, m, st)
            for d in st.decorator_list:
                dn = unparse(d.func) if isinstance(d, ast.Call) else unparse(d)
                if dn.split('.')[-1] not in _SAFE_DECORATORS:
                    raise Unsupported(f'decorator @{dn} on nested function {st.name} is not modelled')
            env[st.name] = ('closure', info, env)
        elif isinstance(st, ast.Delete):
            for t in st.targets:
                if isinstance(t, ast.Name):
                    env.pop(t.id, None)
                elif isinstance(t, ast.Attribute):
                    base = self.ev(t.value, env, m)
                    if isinstance(base, AObj):
                        done = False
                        if base.cls is not None:
                            for k in self.p.mro(base.cls):
                                dl = k.methods.get(f'{t.attr}@deleter')
                                if dl is not None:
                                    self.call_function(dl, [base], {}, t)
                                    done = True
                                    break
                            if not done:
                                o, da = self.p.lookup_method(base.cls, '__delattr__')
                                if da is not None:
                                    self.call_function(da, [base, t.attr], {}, t)
                                    done = True
                        if not done:
                            if t.attr not in base.attrs:
                                raise AbsRaise('AttributeError', t, implicit=True)
                            del base.attrs[t.attr]
                            log_event('store', base, t.attr, None)
                    else:
                        raise Unsupported(f'del on {base!r} at line {st.lineno}')
                elif isinstance(t, ast.Subscript):
                    base = self.ev(t.value, env, m)
                    key = self.ev(t.slice, env, m)
                    try:
                        if isinstance(base, ADict):
                            del base.d[key]
                        elif isinstance(base, AList) and isinstance(key, int) and not base.has_var():
                            del base.items[key]
                        elif isinstance(base, (dict, list)):
                            del base[key]
                        else:
                            raise Unsupported(f'del item of {base!r} at line {st.lineno}')
                    except (KeyError, IndexError) as ex:
                        raise AbsRaise(type(ex).__name__, t, implicit=True)
        elif isinstance(st, ast.Assert):
            pass
        elif isinstance(st, ast.Match):
            subject = self.ev(st.subject, env, m)
            for case in st.cases:
                if self.match_pattern(case.pattern, subject, env, m):
                    if case.guard is None or self.truth(self.ev(case.guard, env, m), case.guard):
                        self.ex_block(case.body, env, m)
                        break
        elif isinstance(st, ast.With):
            self.ex_with(st, 0, env, m)
        else:
            raise Unsupported(f'abstract interpreter: unsupported statement {type(st).__name__} at line {st.lineno}')

    def method_call(self, base, name, args, kwargs, node):
        """base.name(*args) for an already evaluated receiver."""
        r = self.method(base, name, list(args), dict(kwargs), node)
        if r is not _NO:
            return r
        e = ast.Attribute(value=ast.Name(id='__mc_base__', ctx=ast.Load()), attr=name, ctx=ast.Load())
        if node is not None:
            ast.copy_location(e, node)
            ast.fix_missing_locations(e)
        f = self._v_Attribute(e, {'__mc_base__': base}, None)
        return self.apply(f, list(args), dict(kwargs), node)

    def match_pattern(self, pat, subject, env, m):
        """Structural pattern matching (PEP 634) on abstract values; captures are bound in env."""
        if isinstance(pat, ast.MatchValue):
            want = self.ev(pat.value, env, m)
            r = self.compare(ast.Eq(), subject, want, pat)
            return r if r is not None else self.decide(pat, f'match value {unparse(pat.value)}')
        if isinstance(pat, ast.MatchSingleton):
            r = self.compare(ast.Is(), subject, pat.value, pat)
            return r if r is not None else self.decide(pat, f'match singleton {pat.value!r}')
        if isinstance(pat, ast.MatchAs):
            if pat.pattern is not None and not self.match_pattern(pat.pattern, subject, env, m):
                return False
            if pat.name is not None:
                env[pat.name] = subject
            return True
        if isinstance(pat, ast.MatchOr):
            return any(self.match_pattern(p_, subject, env, m) for p_ in pat.patterns)
        if isinstance(pat, ast.MatchSequence):
            if isinstance(subject, (str, bytes, bytearray)) or type(subject).__name__ == 'SStr':
                return False
            al = _as_alist(subject)
            if al is None or al.kind in ('bytes', 'bytearray', 'set', 'frozenset', 'iterator', 'generator'):
                if isinstance(subject, Opaque):
                    raise Unsupported(f'sequence pattern on {subject!r} at line {pat.lineno}')
                return False
            items = list(al.items)
            stars = [i for i, p_ in enumerate(pat.patterns) if isinstance(p_, ast.MatchStar)]
            if al.has_var():
                # a sequence with a run of unknown length in the middle: the fixed sub-patterns must be served by its concrete ends
                if not stars:
                    # a pattern of fixed length n: the sequence has at least its concrete items and the minimum of its runs
                    n_ = len(pat.patterns)
                    conc_ = [x for x in items if not isinstance(x, SeqVar)]
                    if al.minlen() > n_ or len(conc_) > n_:
                        return False
                    if len(conc_) == n_:
                        runs_ = [x for x in items if isinstance(x, SeqVar)]
                        if any(r_.minlen >= 1 for r_ in runs_) or not self.decide(pat, 'length: every symbolic run is empty'):
                            return False
                        return all(self.match_pattern(p_, x, env, m) for p_, x in zip(pat.patterns, conc_))
                    raise Unsupported(f'sequence pattern without a star on a sequence of symbolic length at line {pat.lineno}')
                k = stars[0]
                nb, na = k, len(pat.patterns) - k - 1
                front = 0
                while front < len(items) and not isinstance(items[front], SeqVar):
                    front += 1
                back = 0
                while back < len(items) and not isinstance(items[len(items) - 1 - back], SeqVar):
                    back += 1
                if nb > front or na > back:
                    # an element has to come out of the symbolic run itself: it exists if the run is not empty (decided or forked);
                    # the run keeps standing for "any number of further items"
                    if nb <= front and na == back + 1 and isinstance(items[len(items) - 1 - back], SeqVar):
                        v_ = items[len(items) - 1 - back]
                        if v_.minlen >= 1 or self.decide(pat, f'symbolic run {v_.name} is not empty'):
                            items = items[:len(items) - back] + [AV.of_sym(v_.sym)] + items[len(items) - back:]
                        else:
                            items = items[:len(items) - 1 - back] + items[len(items) - back:]
                        return self.match_pattern(pat, AList(items, al.kind), env, m)
                    if na <= back and nb == front + 1 and isinstance(items[front], SeqVar):
                        v_ = items[front]
                        if v_.minlen >= 1 or self.decide(pat, f'symbolic run {v_.name} is not empty'):
                            items = items[:front] + [AV.of_sym(v_.sym)] + items[front:]
                        else:
                            items = items[:front] + items[front + 1:]
                        return self.match_pattern(pat, AList(items, al.kind), env, m)
                    raise Unsupported(f'sequence pattern reaches into the symbolic part of a sequence at line {pat.lineno}')
                ok = all(self.match_pattern(p_, x, env, m) for p_, x in zip(pat.patterns[:k], items)) and \
                    all(self.match_pattern(p_, x, env, m) for p_, x in zip(pat.patterns[k + 1:], items[len(items) - na:]))
                if ok and pat.patterns[k].name is not None:
                    env[pat.patterns[k].name] = AList(items[nb:len(items) - na], 'list')
                return ok
            if not stars:
                if len(items) != len(pat.patterns):
                    return False
                return all(self.match_pattern(p_, x, env, m) for p_, x in zip(pat.patterns, items))
            k = stars[0]
            before, after = pat.patterns[:k], pat.patterns[k + 1:]
            if len(items) < len(before) + len(after):
                return False
            mid = items[len(before):len(items) - len(after)]
            ok = all(self.match_pattern(p_, x, env, m) for p_, x in zip(before, items)) and \
                all(self.match_pattern(p_, x, env, m) for p_, x in zip(after, items[len(items) - len(after):]))
            if ok and pat.patterns[k].name is not None:
                env[pat.patterns[k].name] = AList(mid, 'list')
            return ok
        if isinstance(pat, ast.MatchMapping):
            d = subject.d if isinstance(subject, ADict) else subject if isinstance(subject, dict) else None
            if d is None:
                return False
            used = []
            for kexp, vp in zip(pat.keys, pat.patterns):
                kv = self.ev(kexp, env, m)
                if not _hashable_const(kv) or kv not in d:
                    return False
                used.append(kv)
                if not self.match_pattern(vp, d[kv], env, m):
                    return False
            if pat.rest is not None:
                env[pat.rest] = ADict({k_: v_ for k_, v_ in d.items() if k_ not in used})
            return True
        if isinstance(pat, ast.MatchClass):
            cls = self.ev(pat.cls, env, m)
            if isinstance(cls, tuple) and len(cls) == 2 and cls[0] == 'excclass':
                if not isinstance(subject, AExcValue):
                    if isinstance(subject, Opaque):
                        raise Unsupported(f'class pattern {cls[1]} on {subject!r} at line {pat.lineno}')
                    return False
                if not exc_is(subject.exc, cls[1], self.extra_exc_parents):
                    return False
                if pat.patterns:
                    raise Unsupported('positional sub-patterns on an exception')
                for a_, p_ in zip(pat.kwd_attrs, pat.kwd_patterns):
                    if a_ not in subject.attrs:
                        raise Unsupported(f'attribute {a_} of the exception double is not scripted')
                    if not self.match_pattern(p_, subject.attrs[a_], env, m):
                        return False
                return True
            fake = ast.copy_location(ast.Call(func=ast.Name(id='isinstance', ctx=ast.Load()),
                                              args=[ast.Name(id='__subject__', ctx=ast.Load()), pat.cls], keywords=[]), pat)
            ast.fix_missing_locations(fake)
            r = self.isinstance_([subject, cls], fake)
            if r is None or isinstance(r, Opaque):
                r = self.decide(pat, f'match class {unparse(pat.cls)}')
            if not r:
                return False
            names = []
            if pat.patterns:
                if cls in (int, str, float, bool, bytes, bytearray, list, tuple, dict, set, frozenset):
                    if len(pat.patterns) != 1:
                        raise AbsRaise('TypeError', pat, implicit=True)
                    return self.match_pattern(pat.patterns[0], subject, env, m) and \
                        all(self.match_pattern(p_, self._getattr_value(subject, a_, pat), env, m) for a_, p_ in zip(pat.kwd_attrs, pat.kwd_patterns))
                margs = None
                if isinstance(subject, AObj):
                    margs = subject.attrs.get('__fields__') or subject.attrs.get('__dataclass_fields__')
                    if margs is None and subject.cls is not None:
                        ma = self.p.class_attr(subject.cls, '__match_args__')
                        if ma is not None:
                            margs = self.f.try_eval(ma, {}, subject.cls.module)
                if not isinstance(margs, (tuple, list)) or len(margs) < len(pat.patterns):
                    raise AbsRaise('TypeError', pat, implicit=True, msg='positional sub-patterns without __match_args__')
                names = list(margs[:len(pat.patterns)])
            for a_, p_ in list(zip(names, pat.patterns)) + list(zip(pat.kwd_attrs, pat.kwd_patterns)):
                try:
                    v = self._getattr_value(subject, a_, pat)
                except AbsRaise:
                    return False
                if not self.match_pattern(p_, v, env, m):
                    return False
            return True
        raise Unsupported(f'pattern {type(pat).__name__} at line {pat.lineno}')

    def _getattr_value(self, obj, name, node):
        e = ast.copy_location(ast.Attribute(value=ast.Name(id='__ga_obj__', ctx=ast.Load()), attr=name, ctx=ast.Load()), node)
        ast.fix_missing_locations(e)
        return self._v_Attribute(e, {'__ga_obj__': obj}, None)

    def ex_with(self, st, i, env, m):
        """with item_i, ...: body.  A context manager that is a @contextmanager generator of the program is
        interpreted faithfully: its body runs up to the yield, the with-body runs AT the yield (so an exception
        of the body is raised there, inside the generator's try/finally), then the rest of the generator runs."""
        if i >= len(st.items):
            self.ex_block(st.body, env, m)
            return
        item = st.items[i]
        cm = None
        if isinstance(item.context_expr, ast.Call) and unparse(item.context_expr.func) in ('contextlib.suppress', 'suppress') \
                and isinstance(self.ev(item.context_expr.func, env, m), ExtRef):
            names = [unparse(a) for a in item.context_expr.args]
            try:
                self.ex_with(st, i + 1, env, m)
            except AbsRaise as e:
                if not any(exc_is(e.exc, hn, self.extra_exc_parents) for hn in names):
                    raise
            return
        if isinstance(item.context_expr, ast.Call):
            try:
                fval = self.ev(item.context_expr.func, env, m)
            except AbsRaise:
                fval = None
            if isinstance(fval, FuncRef) and any(
                    (isinstance(d, ast.Name) and d.id == 'contextmanager') or (isinstance(d, ast.Attribute) and d.attr == 'contextmanager')
                    for d in fval.info.node.decorator_list):
                cm = fval
        if cm is not None:
            args = self._elts(item.context_expr.args, env, m)
            kwargs = {kw.arg: self.ev(kw.value, env, m) for kw in item.context_expr.keywords if kw.arg}

            left_by = []

            def at_yield(value):
                if item.optional_vars is not None:
                    self.assign(item.optional_vars, value, env, m)
                try:
                    self.ex_with(st, i + 1, env, m)
                except (_Ret, _Brk, _Cont) as cf:
                    # return / break / continue in the with-body: the manager is left normally (its generator goes on after
                    # the yield), then the jump happens
                    left_by.append(cf)
            self._cm_stack.append(at_yield)
            self._cm_pending = at_yield
            try:
                self.call_function(cm.info, args, kwargs, item.context_expr)
            finally:
                self._cm_pending = None
                self._cm_stack.pop()
            if left_by:
                raise left_by[0]
            return
        v = self.ev(item.context_expr, env, m)
        if isinstance(v, AGen) and getattr(v, 'info', None) is not None and any(
                (isinstance(d, ast.Name) and d.id == 'contextmanager') or (isinstance(d, ast.Attribute) and d.attr == 'contextmanager')
                for d in v.info.node.decorator_list):
            # the manager object was made somewhere else (a helper method returning meta_charset(...)): nothing of its body has
            # run yet, it is entered here
            left_by2 = []

            def at_yield2(value):
                if item.optional_vars is not None:
                    self.assign(item.optional_vars, value, env, m)
                try:
                    self.ex_with(st, i + 1, env, m)
                except (_Ret, _Brk, _Cont) as cf:
                    left_by2.append(cf)
            self._cm_stack.append(at_yield2)
            try:
                self.run_generator(v, at_yield2)
            finally:
                self._cm_stack.pop()
            if left_by2:
                raise left_by2[0]
            return
        if isinstance(v, tuple) and len(v) == 2 and v[0] in ('nullctx', 'closingctx'):
            if item.optional_vars is not None:
                self.assign(item.optional_vars, v[1], env, m)
            if v[0] == 'nullctx':
                self.ex_with(st, i + 1, env, m)
                return
            try:
                self.ex_with(st, i + 1, env, m)
            finally:
                self.method_call(v[1], 'close', [], {}, item.context_expr)
            return
        if isinstance(v, tuple) and len(v) == 2 and v[0] == 'suppressctx':
            if item.optional_vars is not None:
                self.assign(item.optional_vars, None, env, m)
            try:
                self.ex_with(st, i + 1, env, m)
            except AbsRaise as e:
                if not any(exc_is(e.exc, hn, self.extra_exc_parents) for hn in v[1]):
                    raise
            return
        if isinstance(v, AExitStack):
            if item.optional_vars is not None:
                self.assign(item.optional_vars, v, env, m)
            try:
                self.ex_with(st, i + 1, env, m)
            except AbsRaise as e:
                if v.unwind(self, item.context_expr, e):
                    return
                raise
            except (_Ret, _Brk, _Cont, _GenEscape, _NextFound):
                v.unwind(self, item.context_expr, None)
                raise
            v.unwind(self, item.context_expr, None)
            return
        if isinstance(v, AObj) and v.cls is not None:
            o1, enter = self.p.lookup_method(v.cls, '__enter__')
            o2, exit_ = self.p.lookup_method(v.cls, '__exit__')
            if enter is not None and exit_ is not None:
                # a context manager class of the program: __enter__, the body, then __exit__ on every way out; an exception
                # of the body is handed to __exit__ and swallowed only if that returns something true
                got = self.call_function(enter, [v], {}, item.context_expr)
                if item.optional_vars is not None:
                    self.assign(item.optional_vars, got, env, m)
                try:
                    self.ex_with(st, i + 1, env, m)
                except AbsRaise as e:
                    r = self.call_function(exit_, [v, e.exc, AExcValue(e.exc, getattr(e, 'attrs', None) or {}), Opaque('traceback')], {}, item.context_expr)
                    if r is None or r is False or (_is_concrete(r) and not r):
                        raise
                    if not _is_concrete(r) and not self.truth(r, item.context_expr):
                        raise
                    return
                except (_Ret, _Brk, _Cont, _GenEscape, _NextFound):
                    self.call_function(exit_, [v, None, None, None], {}, item.context_expr)
                    raise
                self.call_function(exit_, [v, None, None, None], {}, item.context_expr)
                return
        if item.optional_vars is not None:
            self.assign(item.optional_vars, v, env, m)
        else:
            # locks and similar: evaluate for the event log only when it is a scripted double
            if hasattr(v, 'absint_getattr'):
                log_event('with-enter', v)
                try:
                    self.ex_with(st, i + 1, env, m)
                finally:
                    log_event('with-exit', v)
                return
        self.ex_with(st, i + 1, env, m)

    def _exc_class_name(self, x, env, m):
        """The dotted name of an exception class of the standard library reached through an import alias
        (from queue import Empty -> queue.Empty); None when the spelling is all there is."""
        if not isinstance(x, (ast.Name, ast.Attribute)):
            return None
        try:
            self._peek = getattr(self, '_peek', 0) + 1
            try:
                v = self.ev(x, env, m)
            finally:
                self._peek -= 1
        except Exception:       # noqa: BLE001
            return None
        if isinstance(v, ExtRef):
            return v.name
        if isinstance(v, tuple) and len(v) == 2 and v[0] == 'excclass':
            return v[1]
        if isinstance(x, ast.Name) and x.id in env:
            # a local variable holding an exception class (a parameter `error` given ValueError by the caller)
            if isinstance(v, type) and issubclass(v, BaseException):
                return v.__name__
            if isinstance(v, ClassRef):
                return v.info.name
        return None

    def handler_names(self, h, env, m):
        names = handler_names(h)
        if h.type is not None:
            for x in (h.type.elts if isinstance(h.type, ast.Tuple) else [h.type]):
                if isinstance(x, ast.Attribute) and isinstance(x.value, ast.Name) and x.value.id in env and not x.value.id.startswith('__') \
                        and (hasattr(env[x.value.id], 'absint_getattr') or isinstance(env[x.value.id], AObj)):
                    # `except (A, name.attr)` where name is a local variable holding an object (a parameter that shadows the
                    # module of the same name): the expression is evaluated when an exception gets here, and may itself fail
                    self.ev(x, env, m)
                r = self._exc_class_name(x, env, m)
                if r is not None and r not in names:
                    names.append(r)
        return names

    def exc_name(self, st: ast.Raise, env, m):
        if st.exc is None:
            return 'reraise'
        e = st.exc
        # `raise helper(...)` / `raise err`: what is raised is the value, not the spelling
        v = None
        if isinstance(e, ast.Call):
            try:
                fv = self.ev(e.func, env, m)
            except AbsRaise:
                fv = None
            if isinstance(fv, FuncRef) or (isinstance(fv, tuple) and fv and fv[0] in ('closure', 'bound')):
                v = self.ev(e, env, m)
        elif isinstance(e, ast.Name) and isinstance(env.get(e.id), (AExcValue, tuple)):
            v = env[e.id]
        if isinstance(v, AExcValue):
            self._raise_attrs = dict(v.attrs)
            return v.exc
        if isinstance(v, tuple) and len(v) == 2 and v[0] == 'excclass':
            return v[1]
        if isinstance(v, AObj) and v.cls is not None:
            return v.cls.name
        if isinstance(e, ast.Call):
            e = e.func
        r = self._exc_class_name(e, env, m)
        if r is not None and '.' in r and '.' not in unparse(e):
            return r
        if r is not None and isinstance(e, ast.Name) and e.id in env:
            return r
        return unparse(e)

    def assign(self, t, v, env, m):
        if isinstance(t, ast.Name):
            if t.id in env.get('__nonlocals__', ()):
                # nonlocal: the binding lives in the frame of the enclosing function (kept alive by the closure)
                owner = env.get('__closure__')
                while owner is not None and t.id not in owner and owner.get('__closure__') is not None:
                    owner = owner.get('__closure__')
                if owner is not None:
                    owner[t.id] = v
                env[t.id] = v
                return
            if t.id in env.get('__globals__', ()):
                self.global_store[(m.name, t.id)] = v
                log_event('global-store', m.name, t.id, v)
                return
            env[t.id] = v
        elif isinstance(t, (ast.Tuple, ast.List)) and any(isinstance(x, ast.Starred) for x in t.elts):
            # a, *rest, z = value
            items = self.iterate(v, t, keep_vars=True)
            k = next(i for i, x in enumerate(t.elts) if isinstance(x, ast.Starred))
            nb, na = k, len(t.elts) - k - 1
            if any(isinstance(x, SeqVar) for x in items):
                items = list(items)
                front = 0
                while front < len(items) and not isinstance(items[front], SeqVar):
                    front += 1
                back = 0
                while back < len(items) and not isinstance(items[len(items) - 1 - back], SeqVar):
                    back += 1
                # a target in front of / behind the star that falls into a symbolic run takes its first / last element,
                # which exists when the run is known to be that long
                while nb > front and isinstance(items[front], SeqVar) and items[front].minlen >= 1:
                    sv = items[front]
                    items[front:front + 1] = [AV.of_sym(sv.sym), _shrunk(sv)]
                    front += 1
                while na > back and isinstance(items[len(items) - 1 - back], SeqVar) and items[len(items) - 1 - back].minlen >= 1:
                    pos = len(items) - 1 - back
                    sv = items[pos]
                    items[pos:pos + 1] = [_shrunk(sv), AV.of_sym(sv.sym)]
                    back += 1
                if nb > front or na > back:
                    raise Unsupported(f'starred assignment reaches into the symbolic part of a sequence at line {t.lineno}')
            elif len(items) < nb + na:
                raise AbsRaise('ValueError', t, implicit=True, msg='not enough values to unpack')
            for x, y in zip(t.elts[:k], items):
                self.assign(x, y, env, m)
            self.assign(t.elts[k].value, AList(items[nb:len(items) - na], 'list'), env, m)
            for x, y in zip(t.elts[k + 1:], items[len(items) - na:] if na else []):
                self.assign(x, y, env, m)
        elif isinstance(t, (ast.Tuple, ast.List)):
            items = self.iterate(v, t)
            if len(items) != len(t.elts):
                raise AbsRaise('ValueError', t, implicit=True, msg='unpack')
            for x, y in zip(t.elts, items):
                self.assign(x, y, env, m)
        elif isinstance(t, ast.Subscript):
            base = self.ev(t.value, env, m)
            key = self.ev(t.slice, env, m)
            if isinstance(base, ADict) and _hashable_const(key):
                base.d[key] = v
                if getattr(base, 'owner', None) is not None:
                    base.owner.stores.append((key, v, t))
                    log_event('store', base.owner, key, v)
            elif isinstance(base, dict) and _hashable_const(key):
                base[key] = v
            elif isinstance(base, (tuple, bytes, str)) or (isinstance(base, AList) and base.kind in ('tuple', 'bytes', 'frozenset')):
                raise AbsRaise('TypeError', t, implicit=True, msg='item assignment on an immutable sequence')
            elif isinstance(base, AList) and isinstance(key, int) and not base.has_var():
                try:
                    base.items[key] = v
                except IndexError:
                    raise AbsRaise('IndexError', t, implicit=True)
            elif isinstance(base, list) and isinstance(key, int):
                base[key] = v
            else:
                raise Unsupported(f'abstract store into {base!r}[{key!r}] at line {t.lineno}')
        elif isinstance(t, ast.Attribute):
            base = self.ev(t.value, env, m)
            if isinstance(base, AObj) and base.attrs.get('__frozen__') is True and '__dataclass_fields__' in base.attrs:
                raise AbsRaise('AttributeError', t, implicit=True, msg='cannot assign to field of a frozen dataclass')
            kls = base.cls if isinstance(base, AObj) else getattr(base, 'cls', None) if isinstance(base, AList) else None
            if kls is not None:
                # a property of the class: the assignment runs its setter (there is none: AttributeError)
                o, getter = self.p.lookup_method(kls, t.attr)
                if getter is not None and any(isinstance(d, ast.Name) and d.id == 'property' for d in getter.node.decorator_list):
                    o, setter = self.p.lookup_method(kls, f'{t.attr}@setter')
                    if setter is None:
                        raise AbsRaise('AttributeError', t, implicit=True, msg=f"property '{t.attr}' has no setter")
                    self.call_function(setter, [base, v], {}, t)
                    return
            if isinstance(base, AObj):
                if base.cls is not None:
                    o, sa = self.p.lookup_method(base.cls, '__setattr__')
                    if sa is not None:
                        self.call_function(sa, [base, t.attr, v], {}, t)
                        return
                    ca = self.p.class_attr(base.cls, t.attr)
                    if ca is not None and isinstance(ca, ast.Call):
                        try:
                            dv = self.f.eval(ca, {}, next((k for k in self.p.mro(base.cls) if t.attr in k.attrs), base.cls).module)
                        except Unfoldable:
                            dv = self._class_body_value(base.cls, t.attr, ca)
                        if isinstance(dv, AObj) and dv.cls is not None and self.p.lookup_method(dv.cls, '__set__')[1] is not None:
                            # a data descriptor in the class body: the assignment calls its __set__
                            self._name_descriptor(dv, base.cls, t.attr, t)
                            self.call_function(self.p.lookup_method(dv.cls, '__set__')[1], [dv, base, v], {}, t)
                            return
                base.attrs[t.attr] = v
                base.stores.append((t.attr, v, t))
                log_event('store', base, t.attr, v)
            else:
                raise Unsupported(f'abstract attribute store on {base!r} at line {t.lineno}')
        else:
            raise Unsupported('assign target')

    # ------------------------------------------------------------ expressions
    def ev(self, e, env, m):
        meth = getattr(self, '_v_' + type(e).__name__, None)
        if meth is None:
            return Opaque(type(e).__name__)
        return meth(e, env, m)

    def _v_NamedExpr(self, e, env, m):
        v = self.ev(e.value, env, m)
        self.assign(e.target, v, env, m)
        return v

    def _v_Constant(self, e, env, m):
        return e.value

    def _v_Lambda(self, e, env, m):
        return ('lambda', e, dict(env), m)

    def call_lambda(self, lam, args):
        _, node, env, m = lam
        env2 = dict(env)
        params = [a.arg for a in node.args.args]
        if len(params) != len(args):
            raise AbsRaise('TypeError', node, implicit=True)
        env2.update(zip(params, args))
        return self.ev(node.body, env2, m)

    def sort_items(self, items, kwargs, node):
        key = kwargs.get('key')
        rev = kwargs.get('reverse', False)
        if not isinstance(rev, bool):
            raise Unsupported('sort with a symbolic reverse flag')
        keys = []
        for it in items:
            if key is None:
                k = it
            elif isinstance(key, tuple) and key and key[0] == 'lambda':
                k = self.call_lambda(key, [it])
            else:
                k = self.apply(key, [it], {}, node)
            if isinstance(k, AV) and k.is_const:
                k = k.const
            if isinstance(k, AList) and not k.has_var() and all(_is_concrete(x) for x in k.items):
                k = tuple(k.items)
            if isinstance(k, AList) and k.kind == 'tuple' and k.items and _is_concrete(k.items[0]) and not isinstance(k.items[0], SeqVar):
                k = ('prefix', k.items[0])        # decided below if the first components are pairwise different
            elif not _is_concrete(k) and not isinstance(k, Poly):
                raise Unsupported(f'sort key {k!r} is not a constant (line {getattr(node, "lineno", "?")})')
            keys.append(k)
        if any(isinstance(k, tuple) and len(k) == 2 and k[0] == 'prefix' for k in keys):
            firsts = []
            for k in keys:
                if isinstance(k, tuple) and len(k) == 2 and k[0] == 'prefix':
                    firsts.append(k[1])
                elif isinstance(k, tuple) and k:
                    firsts.append(k[0])
                else:
                    raise Unsupported('sort keys of mixed shape')
            try:
                if len(set(firsts)) != len(firsts):
                    raise Unsupported('order of tuples with equal first component and symbolic rest is undecided')
            except TypeError:
                raise Unsupported('unhashable first component of a sort key')
            keys = firsts
        if any(isinstance(k, Poly) for k in keys):
            import functools

            def cmp(i, j):
                d = to_poly(keys[i]).sub(to_poly(keys[j])).sign()
                if d is None:
                    raise Unsupported('order of symbolic sort keys is undecided')
                return d
            order = sorted(range(len(items)), key=functools.cmp_to_key(cmp), reverse=rev)
            return [items[i] for i in order]
        try:
            order = sorted(range(len(items)), key=lambda i: keys[i], reverse=rev)
        except TypeError:
            raise AbsRaise('TypeError', node, implicit=True)
        return [items[i] for i in order]

    def _v_Yield(self, e, env, m):
        if not self._yields:
            raise Unsupported('yield outside an abstractly evaluated generator')
        v = self.ev(e.value, env, m) if e.value is not None else None
        collected, cb = self._yields[-1]
        log_event('yield', v)
        if cb is not None:
            # the consumer (for body / with body) runs now, in the frame of the function that contains it: take this
            # generator's frame off the stack meanwhile, so that a `yield` in the consumer goes to ITS generator
            frame = self._yields.pop()
            try:
                cb(v)
            finally:
                self._yields.append(frame)
            log_event('resume', env.get('self'))
            return None
        collected.append(v)
        return None

    def _v_YieldFrom(self, e, env, m):
        if not self._yields:
            raise Unsupported('yield from outside an abstractly evaluated generator')
        collected, cb = self._yields[-1]
        src = self.ev(e.value, env, m)
        if cb is not None:
            def relay(v):
                frame = self._yields.pop()
                try:
                    cb(v)
                finally:
                    self._yields.append(frame)
            self.for_each(src, e, relay)
        else:
            for v in self.iterate(src, e, keep_vars=True):
                collected.append(v)
        return None

    def _v_Name(self, e, env, m):
        if e.id in env and e.id not in env.get('__globals__', ()):
            return env[e.id]
        if m is not None and (m.name, e.id) in self.global_store:
            return self.global_store[(m.name, e.id)]
        if m is not None and (m.name, e.id) in self.global_overrides:
            return self.global_overrides[(m.name, e.id)]
        try:
            return self.f.global_value(m, e.id)
        except Unfoldable:
            if e.id in _BUILTINS:
                return _BUILTINS[e.id]
            if e.id in _BUILTIN_EXCEPTIONS:
                return ('excclass', e.id)
            if e.id == '__debug__':
                return True             # an ordinary run (under -O the assert statements it usually guards are gone as well)
            if e.id == '__name__' and m is not None:
                return m.name           # the module as imported (never run as a script by the properties)
            if m is not None and len(m.assigns.get(e.id, [])) == 1:
                # another name for a builtin the module does not fold (`_open = open`): the builtin itself, so that a rule's double
                # for it applies through the alias
                st_ = m.assigns[e.id][0]
                val_ = getattr(st_, 'value', None)
                if isinstance(val_, ast.Name) and val_.id not in m.assigns and val_.id not in m.functions and val_.id not in m.classes \
                        and val_.id not in m.imports and callable(getattr(_builtins_mod(), val_.id, None)):
                    return getattr(_builtins_mod(), val_.id)
            return Opaque(f'global {e.id}')

    def _v_Attribute(self, e, env, m):
        base = self.ev(e.value, env, m)
        if isinstance(base, AObj):
            if e.attr in base.attrs:
                return base.attrs[e.attr]
            if e.attr == '__class__' and base.cls is not None:
                return ClassRef(base.cls)
            if e.attr == '_fields' and '__fields__' in base.attrs:
                return tuple(base.attrs['__fields__'])
            if e.attr in ('_replace', '_asdict') and '__fields__' in base.attrs:
                return ('ntmethod', base, e.attr)
            if e.attr == '__dict__':
                view = ADict()
                view.d = base.attrs
                view.owner = base
                return view
            if base.cls is not None:
                v = self.p.class_attr(base.cls, e.attr)
                sm = self._static_wrapped(base.cls, e.attr, v) if v is not None else None
                if sm is not None:
                    return sm[1] if sm[0] == 'static' else ('bound', ClassRef(base.cls), sm[1].info)
                if v is not None:
                    try:
                        # (names in a class body are those of the module the class that has the attribute is written in)
                        owner_ = next((k for k in self.p.mro(base.cls) if e.attr in k.attrs), base.cls)
                        if isinstance(v, (ast.Set, ast.List, ast.Dict, ast.SetComp, ast.ListComp, ast.DictComp)):
                            # a mutable container written in the class body is ONE object, shared by every instance that has
                            # not bound the name itself: "self.names |= more" changes it for all of them
                            cache_ = self.__dict__.setdefault('_class_body_cache', {})
                            ck_ = (owner_.qname, e.attr)
                            if ck_ not in cache_:
                                cache_[ck_] = self.f.eval(v, {}, owner_.module)
                            cv = cache_[ck_]
                        else:
                            cv = self.f.eval(v, {}, owner_.module)
                    except Unfoldable:
                        cv = self._class_body_value(base.cls, e.attr, v)
                        if cv is None:
                            return Opaque(f'class attr {e.attr}')
                    if isinstance(cv, FuncRef) and not _is_staticmethod(cv.info.node):
                        # a plain function stored in the class body (`__iter__ = Base.iter_pending`) binds like a method
                        return ('bound', base, cv.info)
                    if isinstance(cv, AObj) and cv.cls is not None and self.p.lookup_method(cv.cls, '__get__')[1] is not None:
                        # a descriptor object in the class body: reading the attribute calls its __get__
                        self._name_descriptor(cv, base.cls, e.attr, e)
                        return self.call_function(self.p.lookup_method(cv.cls, '__get__')[1], [cv, base, ClassRef(base.cls)], {}, e)
                    return cv
                o, fn = self.p.lookup_method(base.cls, e.attr)
                if fn is not None:
                    if any(isinstance(d, ast.Name) and d.id == 'property' for d in fn.node.decorator_list):
                        return self.call_function(fn, [base], {}, e)
                    if _is_staticmethod(fn.node):
                        return FuncRef(fn)
                    if _is_classmethod(fn.node):
                        return ('bound', ClassRef(base.cls), fn)
                    return ('bound', base, fn)
            raise AbsRaise('AttributeError', e, implicit=True, msg=e.attr)
        if isinstance(base, ASuper):
            return base.lookup(self, e.attr, e)
        if isinstance(base, Module):
            try:
                return self.f.global_value(base, e.attr)
            except Unfoldable:
                return Opaque(f'{base.name}.{e.attr}')
        if isinstance(base, ANTClass):
            if e.attr == '_make':
                return ('ntmake', base)
            if e.attr == '_fields':
                return tuple(base.fields)
            if e.attr == '__name__':
                return base.name
            return Opaque(f'namedtuple class attribute {e.attr}')
        if isinstance(base, ClassRef) and e.attr in ('_make', '_fields') and self.p.lookup_method(base.info, e.attr)[1] is None \
                and self.p.class_attr(base.info, e.attr) is None:
            nts = nt_spec(self, base.info)
            if nts is not None:
                return ('ntmake', base) if e.attr == '_make' else tuple(nts[0])
        if isinstance(base, ClassRef) and e.attr in ('__name__', '__qualname__'):
            return base.info.name
        if isinstance(base, ClassRef) and e.attr == '__module__' and self.p.class_attr(base.info, '__module__') is None:
            return base.info.module.name
        if isinstance(base, AList) and e.attr == '__class__' and getattr(base, 'cls', None) is not None:
            return ClassRef(base.cls)
        if isinstance(base, AList) and getattr(base, 'cls', None) is not None and not e.attr.startswith('__'):
            o, fn = self.p.lookup_method(base.cls, e.attr)
            if fn is not None:
                if any(isinstance(d, ast.Name) and d.id == 'property' for d in fn.node.decorator_list):
                    return self.call_function(fn, [base], {}, e)
                return ('bound', base, fn)
        if isinstance(base, ClassRef):
            v = self.p.class_attr(base.info, e.attr)
            sm = self._static_wrapped(base.info, e.attr, v) if v is not None else None
            if sm is not None:
                return sm[1] if sm[0] == 'static' else ('bound', base, sm[1].info)
            if v is not None:
                ek = enum_kind(self, base.info)
                if ek == 'int' and not e.attr.startswith('_'):
                    mem = enum_members(self, base.info)
                    if e.attr in mem:
                        return mem[e.attr]
                elif ek == 'other' and not e.attr.startswith('_'):
                    mem = plain_enum_members(self, base.info)
                    if e.attr in mem:
                        return mem[e.attr]
                try:
                    return self.f.eval(v, {}, next((k for k in self.p.mro(base.info) if e.attr in k.attrs), base.info).module)
                except Unfoldable:
                    return Opaque(e.attr)
            o, fn = self.p.lookup_method(base.info, e.attr)
            if fn is not None:
                if _is_classmethod(fn.node):
                    return ('bound', base, fn)
                return FuncRef(fn)
            return Opaque(e.attr)
        if isinstance(base, ExtRef):
            if base.name == 'math' and e.attr in ('inf', 'nan', 'pi', 'e', 'tau'):
                import math as _math            # named float constants
                return getattr(_math, e.attr)
            if base.name == 'errno' and e.attr.isupper():
                import errno as _errno          # a table of integer constants of the platform, nothing else
                if isinstance(getattr(_errno, e.attr, None), int):
                    return getattr(_errno, e.attr)
            if base.name == 'typing' and e.attr == 'TYPE_CHECKING':
                return False
            return ExtRef(f'{base.name}.{e.attr}')
        if isinstance(base, AEnumMember) and e.attr in ('value', 'name'):
            return base.value if e.attr == 'value' else base.name
        if isinstance(base, AEnumInt) and e.attr in ('value', 'name'):
            return int(base) if e.attr == 'value' else base.name
        if hasattr(base, 'absint_getattr'):
            return base.absint_getattr(self, e.attr, e)
        if _is_concrete(base) and not isinstance(base, (list, dict, set)) and not hasattr(base, e.attr):
            raise AbsRaise('AttributeError', e, implicit=True, msg=e.attr)
        return ('attr', base, e.attr)

    def _static_wrapped(self, cls, name, expr):
        """A class-body binding `name = staticmethod(f)` / `classmethod(f)` around a function defined elsewhere:
        ('static' | 'class', the function)."""
        if isinstance(expr, ast.Call) and isinstance(expr.func, ast.Name) and expr.func.id in ('staticmethod', 'classmethod') \
                and len(expr.args) == 1 and not expr.keywords:
            owner = next((k for k in self.p.mro(cls) if name in k.attrs), cls)
            try:
                fv = self.ev(expr.args[0], {}, owner.module)
            except (AbsRaise, Unsupported):
                return None
            if isinstance(fv, FuncRef):
                return ('static' if expr.func.id == 'staticmethod' else 'class', fv)
        return None

    def _class_body_value(self, cls, name, expr):
        """The object a class-body assignment `name = Helper(...)` made (one object per class, made when the class was)."""
        cache = self.__dict__.setdefault('_class_body_cache', {})
        owner = next((k for k in self.p.mro(cls) if name in k.attrs), cls)
        key = (owner.qname, name)
        if key not in cache:
            if not (isinstance(expr, ast.Call) and isinstance(expr.func, (ast.Name, ast.Attribute))):
                return None
            try:
                fv = self.ev(expr.func, {}, owner.module)
            except (AbsRaise, Unsupported):
                return None
            if isinstance(fv, ExtRef) and fv.name.split('.')[-1] in ('itemgetter', 'attrgetter', 'methodcaller', 'partial'):
                pass                # a getter object made once in the class body
            elif not isinstance(fv, ClassRef):
                return None
            try:
                cache[key] = self.ev(expr, {}, owner.module)
            except AbsRaise:
                return None
        return cache[key]

    def _name_descriptor(self, desc, owner, name, node):
        o, sn = self.p.lookup_method(desc.cls, '__set_name__')
        if sn is not None and not desc.attrs.get('__named__'):
            self.call_function(sn, [desc, ClassRef(owner), name], {}, node)
            desc.attrs['__named__'] = True

    def _v_Tuple(self, e, env, m):
        items = self._elts(e.elts, env, m)
        if all(_is_concrete(x) for x in items):
            return tuple(items)
        return AList(items, 'tuple')

    def _v_List(self, e, env, m):
        return AList(self._elts(e.elts, env, m), 'list')

    def _v_Set(self, e, env, m):
        items = self._elts(e.elts, env, m)
        if all(_is_concrete(x) for x in items):
            return set(items)
        return Opaque('set display')

    def _elts(self, elts, env, m):
        out = []
        for x in elts:
            if isinstance(x, ast.Starred):
                out.extend(self.iterate(self.ev(x.value, env, m), x, keep_vars=True))
            else:
                out.append(self.ev(x, env, m))
        return out

    def _v_Dict(self, e, env, m):
        d = {}
        for k, v in zip(e.keys, e.values):
            if k is None:
                src = self.ev(v, env, m)
                d.update(src.d if isinstance(src, ADict) else src)
            else:
                kk = self.ev(k, env, m)
                if not _hashable_const(kk):
                    return Opaque('dict key')
                d[kk] = self.ev(v, env, m)
        return ADict(d)

    def _v_JoinedStr(self, e, env, m):
        if getattr(self, 'str_domain', False):
            from . import strdom
            segs = []
            for v in e.values:
                if isinstance(v, ast.Constant):
                    segs.append(str(v.value))
                else:
                    val = self.ev(v.value, env, m)
                    spec = ''
                    if v.format_spec is not None:
                        spec = self.ev(v.format_spec, env, m)
                        if not isinstance(spec, str):
                            return Opaque('format spec')
                    conv = {114: 'r', 115: 's', 97: 'a'}.get(v.conversion)
                    r = strdom.render(val, spec, conv, self)
                    if r is None:
                        return Opaque(f'f-string of {val!r}')
                    segs.append(r)
            return strdom.norm(strdom.SStr(segs))
        try:
            return self.f.eval(e, {k: v for k, v in env.items() if _is_concrete(v)}, m)
        except Unfoldable:
            pass
        # field by field: every field whose value is known is formatted as Python does it
        parts = []
        for v in e.values:
            if isinstance(v, ast.Constant):
                parts.append(str(v.value))
                continue
            val = self.ev(v.value, env, m)
            spec = self.ev(v.format_spec, env, m) if v.format_spec is not None else ''
            if not isinstance(spec, str) or not _is_concrete(val) or isinstance(val, (list, dict, set)):
                return Opaque('str')
            if v.conversion in (114, 115, 97):
                val = {114: repr, 115: str, 97: ascii}[v.conversion](val)
            try:
                parts.append(format(val, spec))
            except (ValueError, TypeError) as ex:
                raise AbsRaise(type(ex).__name__, e, implicit=True)
        return ''.join(parts)

    def _v_IfExp(self, e, env, m):
        if self.truth(self.ev(e.test, env, m), e.test):
            return self.ev(e.body, env, m)
        return self.ev(e.orelse, env, m)

    def _v_UnaryOp(self, e, env, m):
        v = self.ev(e.operand, env, m)
        if isinstance(e.op, ast.Not):
            return not self.truth(v, e.operand)
        if _is_concrete(v):
            try:
                return _UNOPS[type(e.op)](v)
            except Exception:
                return Opaque('unary')
        if isinstance(v, AV) and isinstance(e.op, ast.USub):
            return v.neg_const()
        return Opaque('unary')

    def _v_BoolOp(self, e, env, m):
        is_and = isinstance(e.op, ast.And)
        last = None
        for i, x in enumerate(e.values):
            if i < len(e.values) - 1 and all(_pure_expr(y, env) for y in e.values[i:]):
                # an operand that cannot be decided, in front of operands that settle the result whichever way it goes
                # ("type(x) is not int and not isinstance(x, Integral)" for an integer): no need to split the path
                fixed = self._peek_rest(e, i, env, m, is_and)
                if fixed is not _NO:
                    return fixed
            last = self.ev(x, env, m)
            if i == len(e.values) - 1:
                return last             # the value of the last operand is the result, whatever its truth
            t = self.truth(last, x)
            if is_and and not t:
                return last if _is_concrete(last) else False
            if not is_and and t:
                return last if _is_concrete(last) or isinstance(last, (FuncRef, AObj, AList, ADict)) else True
        return last if _is_concrete(last) else is_and

    def _peek_rest(self, e, i, env, m, is_and):
        self._peek = getattr(self, '_peek', 0) + 1
        try:
            try:
                self.truth(self.ev(e.values[i], env, m), e.values[i])
                return _NO              # decided: the ordinary evaluation deals with it
            except _Undecided:
                pass
            for y in e.values[i + 1:]:
                try:
                    v = self.ev(y, env, m)
                    t = self.truth(v, y)
                except _Undecided:
                    return _NO
                if is_and and not t:
                    return False        # (only the truth of such a result is ever used: its operands are tests)
                if not is_and and t:
                    return True
            return _NO
        except (AbsRaise, Unsupported):
            return _NO
        finally:
            self._peek -= 1

    def _v_BinOp(self, e, env, m):
        return self.binop(e.op, self.ev(e.left, env, m), self.ev(e.right, env, m), e)

    def binop(self, op, a, b, node):
        # the open(2) flag constants of the os module are plain integers of the platform
        if isinstance(a, ExtRef) and a.name.startswith('os.O_') and isinstance(getattr(_os, a.name[3:], None), int):
            a = getattr(_os, a.name[3:])
        if isinstance(b, ExtRef) and b.name.startswith('os.O_') and isinstance(getattr(_os, b.name[3:], None), int):
            b = getattr(_os, b.name[3:])
        if isinstance(op, ast.BitOr) and isinstance(a, (ADict, dict)) and isinstance(b, (ADict, dict)):
            # dict union (3.9+): a new dict, keys of the left operand first, values of the right operand win
            d = dict(a.d if isinstance(a, ADict) else a)
            d.update(b.d if isinstance(b, ADict) else b)
            return ADict(d)
        # a pure unsigned symbol combined with a float or a polynomial: continue in the polynomial domain
        if (isinstance(a, AV) and (isinstance(b, (float, Poly)))) or (isinstance(b, AV) and isinstance(a, (float, Poly))):
            def conv(x):
                if isinstance(x, AV) and not x.is_top and x.const == 0 and x.terms and len(x.syms()) == 1:
                    sy = next(iter(x.syms()))
                    if x.same(AV.of_sym(sy)):
                        return Poly.sym(sy.name)
                if isinstance(x, AV) and x.is_const:
                    return x.const
                return x
            a, b = conv(a), conv(b)
            if isinstance(a, float) and not isinstance(b, (Poly, AV)):
                pass
            elif isinstance(a, float) and isinstance(b, Poly) or isinstance(b, float) and isinstance(a, Poly):
                pass
        if isinstance(a, Poly) or isinstance(b, Poly):
            pa = to_poly(a.const if isinstance(a, AV) and a.is_const else a)
            pb = to_poly(b.const if isinstance(b, AV) and b.is_const else b)
            if pa is None or pb is None:
                return Opaque('arithmetic of a polynomial with a non-number')
            if isinstance(op, ast.Add):
                return pa.add(pb)
            if isinstance(op, ast.Sub):
                return pa.sub(pb)
            if isinstance(op, ast.Mult):
                return pa.mul(pb)
            if isinstance(op, ast.Div):
                r = pa.div(pb)
                return r if r is not None else Opaque('division by a sum')
            return Opaque(f'{type(op).__name__} on a polynomial')
        if isinstance(op, ast.Add) and (type(a).__name__ == 'SStr' or type(b).__name__ == 'SStr') \
                and (isinstance(a, str) or type(a).__name__ == 'SStr') and (isinstance(b, str) or type(b).__name__ == 'SStr'):
            from . import strdom
            return strdom.norm(strdom.SStr([a, b]))
        if isinstance(op, ast.Mod) and isinstance(a, str) and getattr(self, 'str_domain', False) and not _is_concrete(b):
            from . import strdom
            r = strdom.percent(self, a, b)
            if r is not None:
                return r
        if isinstance(a, Opaque) or isinstance(b, Opaque):
            if isinstance(op, ast.Mod) and isinstance(a, str):
                return Opaque('str')
            return Opaque('binop on opaque')
        if _is_concrete(a) and _is_concrete(b):
            f = _BINOPS.get(type(op))
            try:
                if isinstance(op, (ast.Pow, ast.LShift)) and isinstance(b, int) and b > 4096:
                    return Opaque('huge')
                return f(a, b)
            except ZeroDivisionError:
                raise AbsRaise('ZeroDivisionError', node, implicit=True)
            except Exception:
                raise AbsRaise('TypeError', node, implicit=True)
        if isinstance(a, str) and isinstance(op, ast.Mod):
            return Opaque('str')
        if isinstance(a, LenV) or isinstance(b, LenV):
            la = a if isinstance(a, LenV) else (LenV(a, ()) if isinstance(a, int) else None)
            lb = b if isinstance(b, LenV) else (LenV(b, ()) if isinstance(b, int) else None)
            if la is not None and lb is not None:
                if isinstance(op, ast.Add):
                    r = LenV(la.const + lb.const, la.vars + lb.vars)
                    return r if r.vars else r.const
                if isinstance(op, ast.Sub):
                    rest = list(la.vars)
                    okk = True
                    for v in lb.vars:
                        if v in rest:
                            rest.remove(v)
                        else:
                            okk = False
                    if okk:
                        r = LenV(la.const - lb.const, rest)
                        return r if r.vars else r.const
            return Opaque('arithmetic on a symbolic length')
        # sequences
        if isinstance(op, ast.Add) and (isinstance(a, (AList, list, tuple)) or isinstance(b, (AList, list, tuple))):
            la, lb = _as_alist(a), _as_alist(b)
            if la is None or lb is None:
                return Opaque('sequence +')
            return AList(la.items + lb.items, la.kind)
        if isinstance(op, ast.Mult) and isinstance(a, (AList, list, tuple, str)) and isinstance(b, int):
            la = _as_alist(a)
            return AList(la.items * b, la.kind)
        # integers
        x, y = _as_av(a), _as_av(b)
        if x is None or y is None:
            return Opaque(f'binop {type(op).__name__}')
        if isinstance(op, ast.Add):
            return x.add(y)
        if isinstance(op, ast.Sub):
            return x.sub(y)
        if isinstance(op, ast.BitOr):
            return x.or_(y)
        if isinstance(op, ast.LShift):
            if y.is_const:
                return x.shl(y.const)
            if x.is_const and pow2_exp(x.const) is not None:
                return AV.TOP('1 << symbolic')
            return AV.TOP('shift by a symbolic amount')
        if isinstance(op, ast.RShift):
            return x.shr(y.const) if y.is_const else AV.TOP('shift by a symbolic amount')
        if isinstance(op, ast.BitAnd):
            if y.is_const:
                return x.and_mask(y.const)
            if x.is_const:
                return y.and_mask(x.const)
            return AV.TOP('& of two symbolic values')
        if isinstance(op, ast.Mod):
            k = pow2_exp(y.const) if y.is_const else None
            return x.mod_pow2(k) if k is not None else AV.TOP('% by a non power of two')
        if isinstance(op, ast.FloorDiv):
            k = pow2_exp(y.const) if y.is_const else None
            return x.shr(k) if k is not None else AV.TOP('// by a non power of two')
        if isinstance(op, ast.Mult):
            for p, q in ((x, y), (y, x)):
                k = pow2_exp(q.const) if q.is_const else None
                if k is not None:
                    return p.shl(k)
            return AV.TOP('* by a non power of two')
        if isinstance(op, ast.Pow):
            return AV.TOP('** with a symbolic operand')
        return AV.TOP(f'operator {type(op).__name__}')

    def _v_Compare(self, e, env, m):
        left = self.ev(e.left, env, m)
        for op, right in zip(e.ops, e.comparators):
            r = self.ev(right, env, m)
            res = self.compare(op, left, r, e)
            if res is None:
                if _DEBUG:
                    print('DBG-CMP', getattr(e, 'lineno', None), unparse(e), repr(left)[:300], repr(r)[:300])
                if isinstance(left, LenV) and isinstance(r, int) and len(left.vars) == 1:
                    res = self.decide(e, f'length: {unparse(e)}')
                    _narrow_len(op, left, r, res)
                elif isinstance(r, LenV) and isinstance(left, int) and len(r.vars) == 1:
                    res = self.decide(e, f'length: {unparse(e)}')
                    _narrow_len(_flip(op), r, left, res)
                else:
                    res = self.decide(e, f'{unparse(e)} undecided')
            if not res:
                return False
            left = r
        return True

    def struct_eq(self, a, b, node):
        """Equality of two abstract containers: True / False / None (undecided).  The same abstract value is equal to itself."""
        if a is b:
            return True
        if isinstance(a, ADict) and isinstance(b, ADict):
            try:
                if set(a.d) != set(b.d):
                    return False
            except TypeError:
                return None
            pairs = [(a.d[k], b.d[k]) for k in a.d]
        elif isinstance(a, AList) and isinstance(b, AList):
            if a.has_var() or b.has_var():
                if len(a.items) == len(b.items) and all(x is y for x, y in zip(a.items, b.items)):
                    return True
                return None
            if len(a.items) != len(b.items):
                return False
            pairs = list(zip(a.items, b.items))
        else:
            return None
        res = True
        for x, y in pairs:
            if x is y:
                continue
            if (isinstance(x, ADict) and isinstance(y, ADict)) or (isinstance(x, AList) and isinstance(y, AList)):
                r = self.struct_eq(x, y, node)
            else:
                r = self.compare(ast.Eq(), x, y, node)
            if r is False:
                return False
            if r is None:
                res = None
        return res

    def compare(self, op, a, b, node):
        if isinstance(a, AEnumMember) or isinstance(b, AEnumMember):
            # members of a plain Enum equal only themselves
            if isinstance(op, (ast.Is, ast.Eq)):
                return a is b if (isinstance(a, AEnumMember) and isinstance(b, AEnumMember)) or _is_concrete(a) or _is_concrete(b) or a is None or b is None else None
            if isinstance(op, (ast.IsNot, ast.NotEq)):
                return a is not b if (isinstance(a, AEnumMember) and isinstance(b, AEnumMember)) or _is_concrete(a) or _is_concrete(b) or a is None or b is None else None
        if isinstance(a, ATypeOf) or isinstance(b, ATypeOf):
            if isinstance(op, (ast.Is, ast.IsNot, ast.Eq, ast.NotEq)):
                t, other = (a, b) if isinstance(a, ATypeOf) else (b, a)
                same = isinstance(op, (ast.Is, ast.Eq))
                if isinstance(other, ATypeOf):
                    return same if other.of is t.of else None
                if isinstance(other, type):
                    return None if t.may_be(other) else (not same)
                if isinstance(other, (ClassRef, ExtRef)) or other is None:
                    return not same
                return None
            if isinstance(op, (ast.In, ast.NotIn)) and isinstance(a, ATypeOf):
                items = b.items if isinstance(b, AList) else (list(b) if isinstance(b, (tuple, list, set, frozenset)) else None)
                if items is not None and all(isinstance(x, (type, ClassRef, ExtRef)) for x in items):
                    if not any(isinstance(x, type) and a.may_be(x) for x in items):
                        return isinstance(op, ast.NotIn)
                return None
            return None
        if isinstance(a, type) and isinstance(b, type) and isinstance(op, (ast.Is, ast.IsNot, ast.Eq, ast.NotEq)):
            return (a is b) if isinstance(op, (ast.Is, ast.Eq)) else (a is not b)
        if isinstance(op, (ast.Is, ast.IsNot, ast.Eq, ast.NotEq)) and isinstance(a, (ClassRef, FuncRef)) and isinstance(b, (ClassRef, FuncRef, type)):
            same = type(a) is type(b) and a.info is b.info          # a class / function of the program is one object
            return same if isinstance(op, (ast.Is, ast.Eq)) else not same
        if type(a).__name__ == 'SStr' or type(b).__name__ == 'SStr':
            if isinstance(op, (ast.Eq, ast.NotEq)):
                other = b if type(a).__name__ == 'SStr' else a
                if isinstance(other, str):
                    # a string with a symbolic segment is never equal to a literal without digits etc.: decide by shape
                    me = a if type(a).__name__ == 'SStr' else b
                    if me.is_literal():
                        eq = me.literal() == other
                    else:
                        eq = False if not any(ch.isdigit() or ch in '-.' for ch in other) else None
                    if eq is None:
                        return None
                    return eq if isinstance(op, ast.Eq) else not eq
            return None
        if isinstance(a, Poly) or isinstance(b, Poly):
            pa, pb = to_poly(a), to_poly(b)
            if pa is None or pb is None:
                if isinstance(op, (ast.Eq, ast.Is)) and (a is None or b is None):
                    return False
                if isinstance(op, (ast.NotEq, ast.IsNot)) and (a is None or b is None):
                    return True
                return None
            sg = pa.sub(pb).sign()
            if sg is None:
                return None
            return _cmp_interval(op, sg, sg)
        if isinstance(op, (ast.Is, ast.IsNot)) and a is not b and type(a) is type(b) and isinstance(a, (str, bytes, tuple, float)) \
                and _is_concrete(a) and _is_concrete(b) and a == b and len(a if not isinstance(a, float) else 'xx') > 1:
            # two equal strings (tuples, floats) that are not known to be one object: whether they are is an accident of
            # interning - `is` where `==` is meant works for literals and fails for a string that was read or built
            return None
        if _is_concrete(a) and _is_concrete(b):
            try:
                return bool(_CMPOPS[type(op)](a, b))
            except Exception:
                raise AbsRaise('TypeError', node, implicit=True)
        if isinstance(op, (ast.Eq, ast.NotEq)) and (a is None or b is None):
            other = b if a is None else a
            if isinstance(other, (AV, LenV, AList, ADict, AObj)) or _is_concrete(other):
                return isinstance(op, ast.NotEq) if other is not None else isinstance(op, ast.Eq)
        if isinstance(op, (ast.Is, ast.IsNot, ast.Eq, ast.NotEq)) and (type(a) is object or type(b) is object):
            # a sentinel made by object(): identity is all there is to it (object.__eq__ is identity; lists, tuples, ints,
            # messages of this package never claim to equal a bare object)
            other = b if type(a) is object else a
            if isinstance(other, Opaque):
                return None
            if isinstance(op, (ast.Eq, ast.NotEq)) and isinstance(other, AObj) and other.cls is not None \
                    and self.p.lookup_method(other.cls, '__eq__')[1] is not None:
                return None
            return (a is b) if isinstance(op, (ast.Is, ast.Eq)) else (a is not b)
        if isinstance(op, (ast.Is, ast.IsNot)):
            if a is None or b is None:
                other = b if a is None else a
                if isinstance(other, Opaque):
                    return None
                return isinstance(op, ast.IsNot)
            return None
        if isinstance(op, (ast.In, ast.NotIn)):
            res = None
            if isinstance(b, ExtRef) and b.name in getattr(self, 'ext_maps', {}) and _hashable_const(a):
                log_event('env', a)
                res = a in self.ext_maps[b.name]
                return res if isinstance(op, ast.In) else not res
            if isinstance(b, AList) and not b.has_var() and all(_is_concrete(x) for x in b.items):
                b = list(b.items)
            if isinstance(b, ADict) and _hashable_const(a):
                res = a in b.d
            elif _hashable_const(a) and isinstance(b, (dict, set, frozenset, range)):
                res = a in b
            elif _hashable_const(a) and isinstance(b, (list, tuple)) and _is_concrete(b):
                res = a in b
            elif _hashable_const(a) and isinstance(b, AList) and not b.has_var() and all(_is_concrete(x) for x in b.items):
                res = a in b.items
            elif isinstance(b, AObj):
                res = None
            elif isinstance(a, (FuncRef, ClassRef)) and isinstance(b, (dict, set, list, tuple)):
                res = a in b
            elif isinstance(a, type) and isinstance(b, (set, frozenset, list, tuple, AList)):
                its = b.items if isinstance(b, AList) else list(b)
                if all(isinstance(x, (type, ClassRef, ExtRef)) for x in its):
                    res = any(x is a for x in its)
            elif isinstance(a, AV) and not a.is_top and isinstance(b, (set, frozenset, list, tuple, range, dict)):
                lo, hi = a.interval()
                ints = [x for x in b if isinstance(x, int)]
                if not any(lo <= x <= hi for x in ints):
                    res = False
                elif a.is_const:
                    res = a.const in b
                elif hi - lo < 4096 and all(x in b for x in range(lo, hi + 1)):
                    res = True
            if res is None:
                return None
            return res if isinstance(op, ast.In) else not res
        if isinstance(op, (ast.Eq, ast.NotEq)) and ((isinstance(a, ADict) and isinstance(b, ADict)) or
                                                     (isinstance(a, AList) and isinstance(b, AList) and a.kind == b.kind)):
            eq = self.struct_eq(a, b, node)
            if eq is None:
                return None
            return eq if isinstance(op, ast.Eq) else not eq
        x, y = _as_av(a), _as_av(b)
        if x is not None and y is not None and not x.is_top and not y.is_top:
            d = x.sub(y) if y.is_const or x.terms == y.terms else None
            if d is not None and not d.is_top:
                lo, hi = d.interval()
                return _cmp_interval(op, lo, hi)
            if x.is_const:
                lo, hi = y.interval()
                return _cmp_interval(_flip(op), lo - x.const, hi - x.const)
            (xl, xh), (yl, yh) = x.interval(), y.interval()
            if xh < yl or yh < xl:
                # disjoint ranges decide every comparison
                return _cmp_interval(op, xl - yh, xh - yl)
        if isinstance(a, LenV) and isinstance(b, (int, float)):
            return _cmp_len(op, a, b)
        if isinstance(b, LenV) and isinstance(a, (int, float)):
            return _cmp_len(_flip(op), b, a)
        if isinstance(a, LenV) and isinstance(b, LenV):
            if a.vars == b.vars:
                return _cmp_interval(op, a.const - b.const, a.const - b.const)
            ra, rb = list(a.vars), list(b.vars)
            for v in list(ra):
                if v in rb:
                    ra.remove(v)
                    rb.remove(v)
            if not ra:      # a - b = const diff - sum(rb)
                hi = a.const - b.const - sum(VAR_MINLEN.get(v, 0) for v in rb)
                return _cmp_interval(op, -10 ** 9, hi)
            if not rb:
                lo = a.const - b.const + sum(VAR_MINLEN.get(v, 0) for v in ra)
                return _cmp_interval(op, lo, 10 ** 9)
            return None
        if isinstance(op, (ast.Eq, ast.NotEq)):
            # sequences of definitely different length are different
            for x, y in ((a, b), (b, a)):
                if isinstance(x, AList) and isinstance(y, (bytes, tuple, list, str, bytearray)):
                    if x.minlen() > len(y) or (not x.has_var() and len(x.items) != len(y)):
                        return isinstance(op, ast.NotEq)
            # two objects of program classes that define no __eq__ anywhere: object.__eq__ is identity
            if isinstance(a, AObj) and isinstance(b, AObj) and a.cls is not None and b.cls is not None \
                    and self.p.lookup_method(a.cls, '__eq__')[1] is None and self.p.lookup_method(b.cls, '__eq__')[1] is None \
                    and not any(isinstance(k, str) for c_ in (a.cls, b.cls) for k in self.p.mro(c_) for k in k.bases):
                return (a is b) if isinstance(op, ast.Eq) else (a is not b)
            # values of different abstract kinds
            if isinstance(a, (AList, ADict, AObj)) or isinstance(b, (AList, ADict, AObj)):
                return None
        return None

    def truth(self, v, node):
        if isinstance(v, bool):
            return v
        if v is None:
            return False
        if _is_concrete(v):
            try:
                return bool(v)
            except Exception:
                return self.decide(node, 'truth')
        if isinstance(v, (FuncRef, ClassRef, ExtRef, AGen, ALazy)):
            return True
        if isinstance(v, tuple) and v and v[0] in ('bound', 'closure', 'lambda', 'attrgetter', 'itemgetter', 'partial', 'methodcaller', 'mockmethod',
                                                   'structmethod', 'objectmethod', 'ntmake', 'ntmethod', 'excclass', 'repattern'):
            return True         # callables and pattern objects are true
        if isinstance(v, (ANTClass, AStruct, ASuper, AExcValue)):
            return True
        if isinstance(v, AList):
            if v.kind == 'deque':
                log_event('deque', 'test', v, node)
            if v.kind in ('iterator', 'generator') and getattr(v, 'cls', None) is None:
                return True             # an iterator object is true whether or not anything is left in it
            if v.minlen() > 0:
                return True
            if not v.items:
                return False
            r = self.decide(node, 'emptiness of a symbolic sequence')
            if all(isinstance(x, SeqVar) for x in v.items) and v.kind in ('list', 'tuple', 'bytes', 'bytearray'):
                # what was decided holds from here on (on this path): the sequence is empty, or has at least one item
                if not r:
                    v.items[:] = []
                elif len(v.items) == 1:
                    sv = v.items[0]
                    nv = SeqVar(sv.name, sv.sym.umax, max(sv.minlen, 1))
                    nv.sym = sv.sym
                    for extra in ('text', 'parent'):
                        if hasattr(sv, extra):
                            setattr(nv, extra, getattr(sv, extra))
                    v.items[0] = nv
            return r
        if isinstance(v, ADict):
            return bool(v.d)
        if isinstance(v, AObj):
            if v.cls is not None:
                for dunder in ('__bool__', '__len__'):
                    if self.p.lookup_method(v.cls, dunder)[1] is not None:
                        r = self.method_call(v, dunder, [], {}, node)
                        if dunder == '__bool__':
                            return self.truth(r, node)
                        z = self.compare(ast.NotEq(), r, 0, node)
                        return z if z is not None else self.decide(node, f'truth of {v!r} by its length')
            return True
        if isinstance(v, AV) and not v.is_top:
            lo, hi = v.interval()
            if lo > 0 or hi < 0:
                return True
            if lo == hi == 0:
                return False
        if isinstance(v, LenV):
            if v.const > 0:
                return True
            if not v.vars:
                return False
        if isinstance(v, Poly):
            sg = v.sign()
            if sg is not None:
                return sg != 0
        if hasattr(v, 'absint_len'):
            n = v.absint_len()
            if isinstance(n, int):
                return n > 0
        if type(v).__name__ == 'SStr':
            return bool(v.segs)
        return self.decide(node, f'truth of {v!r}')

    def _v_Subscript(self, e, env, m):
        base = self.ev(e.value, env, m)
        if isinstance(base, ExtRef) and base.name in getattr(self, 'ext_maps', {}) and not isinstance(e.slice, ast.Slice):
            # a mapping of the standard library that the rule scripts (os.environ): mapping[key] or KeyError
            key = self.ev(e.slice, env, m)
            log_event('env', key)
            table = self.ext_maps[base.name]
            if _hashable_const(key) and key in table:
                return table[key]
            if _hashable_const(key):
                raise AbsRaise('KeyError', e, implicit=True)
            return Opaque(f'{base.name}[symbolic key]')
        if isinstance(e.slice, ast.Slice):
            lo = self.ev(e.slice.lower, env, m) if e.slice.lower else None
            hi = self.ev(e.slice.upper, env, m) if e.slice.upper else None
            if e.slice.step is not None:
                step = self.ev(e.slice.step, env, m)
                if _is_concrete(base) and all(x is None or isinstance(x, int) for x in (lo, hi, step)):
                    try:
                        return base[lo:hi:step]
                    except Exception:
                        raise AbsRaise('TypeError', e, implicit=True)
                al = _as_alist(base)
                if al is not None and step == -1 and lo is None and hi is None:
                    return AList(list(reversed(al.items)), al.kind)     # a run of symbolic items keeps its content, reversed
                if al is not None and not al.has_var() and all(x is None or isinstance(x, int) for x in (lo, hi, step)):
                    return AList(al.items[lo:hi:step], al.kind)
                return Opaque('slice step')
            return self.slice(base, lo, hi, e)
        idx = self.ev(e.slice, env, m)
        return self.index(base, idx, e)

    def index(self, base, idx, node):
        if hasattr(base, 'absint_index'):
            return base.absint_index(self, idx, node)
        if isinstance(base, ADict):
            if _hashable_const(idx):
                if idx in base.d:
                    return base.d[idx]
                raise AbsRaise('KeyError', node, implicit=True, msg=repr(idx))
            return Opaque('dict index')
        if isinstance(base, dict):
            if _hashable_const(idx) or isinstance(idx, (FuncRef,)):
                if idx in base:
                    return base[idx]
                raise AbsRaise('KeyError', node, implicit=True, msg=repr(idx))
            if isinstance(idx, AV) and not idx.is_top:
                lo, hi = idx.interval()
                keys = [k for k in base if isinstance(k, int) and lo <= k <= hi]
                if not keys:
                    raise AbsRaise('KeyError', node, implicit=True)
                vals = [base[k] for k in keys]
                if len(keys) == hi - lo + 1 and all(v is vals[0] or v == vals[0] for v in vals):
                    return vals[0]
            return Opaque('dict index')
        al = _as_alist(base)
        if al is not None and isinstance(idx, LenV):
            # an index computed from len() of the same sequence: x[len(x) - k] is x[-k]
            total = self.length_of(al, node)
            tl = total if isinstance(total, LenV) else LenV(total, ()) if isinstance(total, int) else None
            if tl is not None and sorted(tl.vars) == sorted(idx.vars) and tl.const - idx.const >= 1:
                idx = -(tl.const - idx.const)
        if al is not None and isinstance(idx, int):
            items = al.items
            if not al.has_var():
                try:
                    return items[idx]
                except IndexError:
                    raise AbsRaise('IndexError', node, implicit=True)
            # index from the concrete ends of a list with a symbolic middle
            if idx >= 0:
                pre = []
                for x in items:
                    if isinstance(x, SeqVar):
                        break
                    pre.append(x)
                if idx < len(pre):
                    return pre[idx]
            else:
                suf = []
                for x in reversed(items):
                    if isinstance(x, SeqVar):
                        break
                    suf.append(x)
                if -idx <= len(suf):
                    return suf[-idx - 1]
            # inside the symbolic part: may or may not exist
            if idx == -1 and isinstance(items[-1], SeqVar) and items[-1].minlen >= 1:
                return AV.of_sym(items[-1].sym)
            if idx == 0 and isinstance(items[0], SeqVar) and items[0].minlen >= 1:
                return AV.of_sym(items[0].sym)
            vars_ = [x for x in items if isinstance(x, SeqVar)]
            if len(vars_) == 1 and len(items) == 1:
                if not self.decide(node, f'index {idx} within symbolic sequence'):
                    raise AbsRaise('IndexError', node, implicit=True)
                return AV.of_sym(vars_[0].sym)
            return Opaque('index into symbolic sequence')
        if al is not None and isinstance(idx, AV) and not idx.is_top and not al.has_var():
            # a table indexed by a value known only as a range: fine when the table is constant over that range
            lo, hi = idx.interval()
            if 0 <= lo <= hi < len(al.items):
                vals = al.items[lo:hi + 1]
                if all(v is vals[0] or (type(v) is type(vals[0]) and (_is_concrete(v) or isinstance(v, (FuncRef, ClassRef))) and v == vals[0]) for v in vals):
                    return vals[0]
                if all(type(v) is int and v == lo + i for i, v in enumerate(vals)):
                    return idx          # the table maps every value of the range to itself
            return Opaque('table indexed by a symbolic value')
        if isinstance(base, str) and isinstance(idx, int):
            try:
                return base[idx]
            except IndexError:
                raise AbsRaise('IndexError', node, implicit=True)
        if isinstance(base, (bytes, bytearray, tuple, list, range)) and isinstance(idx, int) and not isinstance(base, AList):
            try:
                return base[idx]
            except IndexError:
                raise AbsRaise('IndexError', node, implicit=True)
        if isinstance(base, (bytes, bytearray)) and isinstance(idx, AV) and not idx.is_top:
            r = _table_lookup(base, idx)
            if r is not None:
                return r
            return Opaque('table indexed by a symbolic value')
        if isinstance(base, Opaque):
            return Opaque('index of opaque')
        if _DEBUG:
            print('DBG-INDEX', type(base).__name__, type(idx).__name__, repr(idx)[:200])
        return Opaque(f'index {base!r}')

    def slice(self, base, lo, hi, node):
        if type(base).__name__ == 'SStr':
            from . import strdom
            segs = list(base.segs)
            lo_ = lo or 0
            hi_ = hi if hi is not None else 0
            if lo_ == 0 and hi_ > 0:
                # a prefix: known when the text starts with that many literal characters
                if not segs:
                    return ''
                if isinstance(segs[0], str) and len(segs[0]) >= hi_:
                    return segs[0][:hi_]
                return Opaque('prefix of symbolic text')
            if lo_ < 0 and hi is None:
                if not segs:
                    return ''
                if isinstance(segs[-1], str) and len(segs[-1]) >= -lo_:
                    return segs[-1][lo_:]
                return Opaque('suffix of symbolic text')
            if lo_ < 0 or hi_ > 0:
                return Opaque('slice of symbolic text')
            if lo_:
                if not segs or not isinstance(segs[0], str) or len(segs[0]) < lo_:
                    return Opaque('slice into a symbolic segment')
                segs[0] = segs[0][lo_:]
            if hi_:
                if not segs or not isinstance(segs[-1], str) or len(segs[-1]) < -hi_:
                    return Opaque('slice into a symbolic segment')
                segs[-1] = segs[-1][:hi_]
            return strdom.norm(strdom.SStr(segs))
        if _is_concrete(base) and not isinstance(base, (AList,)):
            try:
                return base[lo:hi]
            except Exception:
                return Opaque('slice')
        al = _as_alist(base)
        if al is not None and al.kind in ('deque', 'iterator'):
            raise AbsRaise('TypeError', node, implicit=True, msg=f'{al.kind} objects cannot be sliced')
        if al is not None and isinstance(hi, LenV):
            # an end index computed from len(): len(x) -> no end, len(x) - k -> -k
            total = self.length_of(al, node)
            tl = total if isinstance(total, LenV) else LenV(total, ()) if isinstance(total, int) else None
            if tl is not None and sorted(tl.vars) == sorted(hi.vars):
                k = tl.const - hi.const
                hi = None if k == 0 else (-k if k > 0 else hi)
        if al is None or not (lo is None or isinstance(lo, int)) or not (hi is None or isinstance(hi, int)):
            return Opaque('slice')
        items = al.items
        if any(hasattr(x, 'size_var') and isinstance(x.size_var(), int) and x.size_var() != 1 for x in items):
            # byte-aware slicing of a buffer holding multi-byte fields: [:n] / [n:]
            if (lo is None or lo == 0) and isinstance(hi, int) and hi >= 0:
                out, used = [], 0
                for x in items:
                    if used == hi:
                        break
                    sz = x.size_var() if hasattr(x, 'size_var') else 1
                    if isinstance(x, SeqVar) or not isinstance(sz, int) or used + sz > hi:
                        return Opaque('slice cuts through a field')
                    out.append(x)
                    used += sz
                if out and all(hasattr(x, 'code') and str(x.code).endswith('s') and isinstance(getattr(x, 'value', None), bytes) for x in out):
                    return b''.join(x.value for x in out)       # fixed strings: their bytes are known
                return AList(out, al.kind)
            return Opaque('slice of a field buffer')
        if not al.has_var():
            return AList(items[lo:hi], al.kind)
        # only trims from the concrete ends are supported
        out = list(items)
        if lo is not None and lo > 0:
            for _ in range(lo):
                if out and not isinstance(out[0], SeqVar):
                    out.pop(0)
                elif out and out[0].minlen >= 1:
                    out[0] = _shrunk(out[0])
                else:
                    return Opaque('slice into symbolic part')
        elif lo is not None and lo < 0:
            return Opaque('negative slice start')
        if hi is not None and hi < 0:
            for _ in range(-hi):
                if out and not isinstance(out[-1], SeqVar):
                    out.pop()
                elif out and out[-1].minlen >= 1:
                    out[-1] = _shrunk(out[-1])
                else:
                    return Opaque('slice into symbolic part')
        elif hi is not None:
            # a positive end: fine while it stays inside the concrete prefix (counted after the trim from the left)
            pre = 0
            for x in out:
                if isinstance(x, SeqVar):
                    break
                pre += 1
            want = hi - (lo or 0)
            if want <= pre:
                return AList(out[:max(want, 0)], al.kind)
            if want == 1 and out and isinstance(out[0], SeqVar):
                if out[0].minlen >= 1:
                    return AList([AV.of_sym(out[0].sym)], al.kind)
                if len(out) == 1:
                    return AList([AV.of_sym(out[0].sym)], al.kind) if self.decide(node, 'symbolic sequence is not empty') else AList([], al.kind)
            return Opaque('slice end inside symbolic sequence')
        return AList(out, al.kind)

    def as_generator(self, it, node):
        """AGen for a generator object or an object whose __iter__ is a generator function (evaluated lazily in for loops)."""
        if isinstance(it, AGen):
            return it
        if isinstance(it, AObj) and it.cls is not None:
            o, fn = self.p.lookup_method(it.cls, '__iter__')
            if fn is not None and _is_generator(fn.node):
                r = self.call_function(fn, [it], {}, node)
                return r if isinstance(r, AGen) else None
            if fn is not None:
                # __iter__ is an ordinary method: what it hands back is the iterator (called once, as iter() does)
                r = self.call_function(fn, [it], {}, node)
                if isinstance(r, (AGen, ALazy)):
                    return r
                if isinstance(r, AObj) and r.cls is not None:
                    if self.p.lookup_method(r.cls, '__next__')[1] is None:
                        raise AbsRaise('TypeError', node, implicit=True, msg=f'iter() returned non-iterator of type {r.cls.name}')
                    return ALazy('pull', None, r)
                return ALazy('iter', None, r)
        return None

    def pull_next(self, obj, node):
        """One step of an iterator object of the program: obj.__next__()."""
        o, fn = self.p.lookup_method(obj.cls, '__next__')
        return self.call_function(fn, [obj], {}, node)

    def for_each(self, it, node, cb):
        if isinstance(it, ALazy):
            it.drive(self, node, cb)
            return
        gen = self.as_generator(it, node)
        if isinstance(gen, ALazy):
            gen.drive(self, node, cb)
            return
        if gen is not None:
            self.run_generator(gen, cb)
            return
        for v in self.iterate(it, node, keep_vars=True):
            cb(v)

    def iterate(self, it, node, keep_vars=False):
        if isinstance(it, AGen):
            return self.run_generator(it)
        if nt_items(it) is not None and (it.cls is None or self.p.lookup_method(it.cls, '__iter__')[1] is None):
            return nt_items(it)
        if isinstance(it, ALazy):
            out = []
            it.drive(self, node, out.append)
            return out
        if isinstance(it, AList):
            if it.kind == 'deque':
                log_event('deque', 'iter', it, node)
            if it.kind == 'iterator':
                # a one-shot iterable (generator, iter(), map()): the first consumer gets the items, later ones get nothing
                if getattr(it, 'consumed', False):
                    return []
                it.consumed = True
            if it.kind == 'fickle':
                # a re-iterable object whose passes differ (or a list another thread appends to): the first pass gives
                # .items, every later pass gives .later
                if getattr(it, 'consumed', False):
                    return list(getattr(it, 'later', []))
                it.consumed = True
            out = []
            for x in it.items:
                if isinstance(x, SeqVar) and not keep_vars:
                    out.append(AV.of_sym(x.sym))
                else:
                    out.append(x)
            return out
        if isinstance(it, ADict):
            return list(it.d.keys())
        if isinstance(it, SeqVar):
            return [it] if keep_vars else [AV.of_sym(it.sym)]
        if isinstance(it, AObj) and it.cls is not None:
            o, fn = self.p.lookup_method(it.cls, '__iter__')
            if fn is not None:
                g = self.as_generator(it, node)
                if isinstance(g, AGen):
                    return self.run_generator(g)
                if isinstance(g, ALazy):
                    out = []
                    g.drive(self, node, out.append)
                    return out
            elif self.p.lookup_method(it.cls, '__getitem__')[1] is None and not any(
                    k.name in ('tuple', 'list', 'dict', 'set', 'frozenset', 'str', 'bytes', 'deque') for k in self.p.mro(it.cls)):
                raise AbsRaise('TypeError', node, implicit=True, msg=f'{it.cls.name} object is not iterable')
        if isinstance(it, (list, tuple, set, frozenset, dict, range, str, bytes)):
            if isinstance(it, (set, frozenset)):
                try:
                    return sorted(it)
                except TypeError:
                    return list(it)
            return list(it)
        raise Unsupported(f'cannot iterate {it!r} at line {getattr(node, "lineno", "?")}')

    def _comp(self, gens, env, m, emit):
        if not gens:
            emit(env)
            return
        g = gens[0]
        for item in self.iterate(self.ev(g.iter, env, m), g.iter, keep_vars=True):
            env2 = dict(env)
            if isinstance(item, SeqVar):
                # element-wise map over a symbolic run: handled by caller
                env2['__seqvar__'] = item
                item = AV.of_sym(item.sym)
            self.assign(g.target, item, env2, m)
            if all(self.truth(self.ev(c, env2, m), c) for c in g.ifs):
                self._comp(gens[1:], env2, m, emit)

    def _v_ListComp(self, e, env, m):
        out = []

        def emit(en):
            v = self.ev(e.elt, en, m)
            sv = en.get('__seqvar__')
            if sv is not None:
                # map over a symbolic run: result is a run with the mapped range
                if isinstance(v, AV) and v.same(AV.of_sym(sv.sym)):
                    out.append(sv)
                elif isinstance(v, AV) and not v.is_top:
                    lo, hi = v.interval()
                    nv = SeqVar(f'map({sv.name})', umax=max(hi, 0), minlen=sv.minlen)
                    nv.origin = (sv, v)
                    out.append(nv)
                else:
                    nv = SeqVar(f'map({sv.name})', umax=1 << 30, minlen=sv.minlen)
                    nv.origin = (sv, v)
                    out.append(nv)
            else:
                out.append(v)
        self._comp(e.generators, env, m, emit)
        return AList(out, 'list')

    def _v_GeneratorExp(self, e, env, m):
        """A generator expression handed straight to a consumer (any(...), sum(...), ', '.join(...), list(...)) is evaluated
        on the spot, as the consumer would make it.  One that is kept - bound to a name, returned - is a generator object:
        only its outermost iterable is evaluated now, the rest runs when somebody iterates it, in the state of that moment."""
        par = getattr(e, '_parent', None)
        if not isinstance(par, (ast.Assign, ast.AnnAssign, ast.Return)) or m is None:
            return self._v_ListComp(e, env, m)
        cache = self.__dict__.setdefault('_genexp_defs', {})
        fd = cache.get(id(e))
        if fd is None:
            body = [ast.Expr(value=ast.Yield(value=e.elt))]
            for gi, g in reversed(list(enumerate(e.generators))):
                for c in reversed(g.ifs):
                    body = [ast.If(test=c, body=body, orelse=[])]
                it = ast.Name(id='__genexp_it0__', ctx=ast.Load()) if gi == 0 else g.iter
                body = [ast.For(target=g.target, iter=it, body=body, orelse=[])]
            fd = ast.FunctionDef(name='<genexpr>', args=ast.arguments(posonlyargs=[], args=[], vararg=None, kwonlyargs=[], kw_defaults=[], kwarg=None,
                                                                        defaults=[]), body=body, decorator_list=[], returns=None)
            ast.copy_location(fd, e)
            ast.fix_missing_locations(fd)
            cache[id(e)] = fd
        from .model import FuncInfo as _FI
        genv = {k: v for k, v in env.items()}
        genv['__genexp_it0__'] = self.ev(e.generators[0].iter, env, m)
        return AGen(_FI('<genexpr>', m, fd), genv, m)

    def _v_SetComp(self, e, env, m):
        r = self._v_ListComp(e, env, m)
        if isinstance(r, AList) and not r.has_var() and all(_is_concrete(x) for x in r.items):
            try:
                return set(r.items)
            except TypeError:
                raise AbsRaise('TypeError', e, implicit=True)
        return Opaque('set comprehension over symbolic values')

    def _v_DictComp(self, e, env, m):
        out = {}

        def emit(en):
            k = self.ev(e.key, en, m)
            if not _hashable_const(k):
                raise Unsupported('symbolic dict key')
            out[k] = self.ev(e.value, en, m)
        self._comp(e.generators, env, m, emit)
        return ADict(out)

    def _v_Call(self, e, env, m):
        args = self._elts(e.args, env, m)
        kwargs = {}
        for kw in e.keywords:
            v = self.ev(kw.value, env, m)
            if kw.arg is None:
                if isinstance(v, ADict):
                    kwargs.update(v.d)
                elif isinstance(v, dict):
                    kwargs.update(v)
                else:
                    return Opaque('**kwargs')
            else:
                kwargs[kw.arg] = v
        if isinstance(e.func, ast.Name) and e.func.id in self.builtin_summaries and e.func.id not in env:
            return self.builtin_summaries[e.func.id](self, args, kwargs, e)
        if isinstance(e.func, ast.Name) and e.func.id == 'isinstance' and 'isinstance' not in env and len(args) == 2:
            return self.isinstance_(args, e)
        if isinstance(e.func, ast.Name) and e.func.id == 'issubclass' and 'issubclass' not in env and len(args) == 2 and not kwargs:
            r = self._issubclass(args[0], args[1])
            if r is not None:
                return r
            return self.decide(e, 'issubclass')
        if isinstance(e.func, ast.Name) and e.func.id == 'super' and 'super' not in env and not kwargs:
            if not args and env.get('__defcls__') is not None and '__self0__' in env:
                return ASuper(env['__defcls__'], env['__self0__'])
            if len(args) == 2 and isinstance(args[0], ClassRef):
                return ASuper(args[0].info, args[1])
            raise Unsupported(f'super() outside a method at line {e.lineno}')
        if isinstance(e.func, ast.Name) and e.func.id == 'hasattr' and 'hasattr' not in env and len(args) == 2 \
                and hasattr(args[0], 'absint_hasattr') and isinstance(args[1], str):
            return args[0].absint_hasattr(args[1])
        if isinstance(e.func, ast.Name) and e.func.id == 'hasattr' and 'hasattr' not in env and len(args) == 2 \
                and isinstance(args[1], str) and (args[0] is None or type(args[0]) in (str, bytes, int, float, bool, complex)):
            # a concrete plain value (a file name, a number): the language's own answer
            return hasattr(args[0], args[1])
        if isinstance(e.func, ast.Name) and e.func.id == 'type' and 'type' not in env and len(args) == 1:
            if isinstance(args[0], AObj) and args[0].cls is not None:
                return ClassRef(args[0].cls)
            if isinstance(args[0], AList) and getattr(args[0], 'cls', None) is not None:
                return ClassRef(args[0].cls)
            t = self.type_of(args[0])
            if t is not None:
                return t
        if isinstance(e.func, ast.Name) and e.func.id == 'dir' and 'dir' not in env and len(args) == 1 and isinstance(args[0], AObj):
            names = set(args[0].attrs)
            if args[0].cls is not None:
                for k in self.p.mro(args[0].cls):
                    names.update(n.split('@')[0] for n in k.methods)
                    names.update(k.attrs)
            return sorted(names)
        if isinstance(e.func, ast.Name) and e.func.id == 'globals' and 'globals' not in env and not args:
            if m.name not in self.module_globals:
                # the module namespace as a dict: classes and functions in definition order (what a loop over
                # globals().items() at the end of the module body sees); later writes through the dict are kept
                g = ADict()
                for st in m.tree.body:
                    if isinstance(st, ast.ClassDef) and st.name in m.classes:
                        g.d[st.name] = ClassRef(m.classes[st.name])
                    elif isinstance(st, (ast.FunctionDef, ast.AsyncFunctionDef)) and st.name in m.functions:
                        g.d[st.name] = FuncRef(m.functions[st.name])
                self.module_globals[m.name] = g
            return self.module_globals[m.name]
        if isinstance(e.func, ast.Name) and e.func.id in ('hasattr', 'getattr') and e.func.id not in env and len(args) >= 2 \
                and isinstance(args[0], AObj) and isinstance(args[1], str):
            obj, nm = args[0], args[1]
            present = nm in obj.attrs
            if not present and obj.cls is not None:
                present = self.p.class_attr(obj.cls, nm) is not None or self.p.lookup_method(obj.cls, nm)[1] is not None
            if e.func.id == 'hasattr':
                return present
            if present:
                return self._v_Attribute(ast.copy_location(ast.Attribute(value=e.args[0], attr=nm, ctx=ast.Load()), e), env, m)
            if len(args) > 2:
                return args[2]
            raise AbsRaise('AttributeError', e, implicit=True)
        if isinstance(e.func, ast.Name) and e.func.id == 'vars' and 'vars' not in env and len(args) == 1:
            if isinstance(args[0], AObj):
                view = ADict()
                view.d = args[0].attrs
                view.owner = args[0]
                return view
            return Opaque('vars()')
        # method calls on abstract containers
        if isinstance(e.func, ast.Attribute):
            base = self.ev(e.func.value, env, m)
            if e.func.attr == '__new__' and args and isinstance(args[0], ClassRef):
                return AObj(args[0].info, {}, name=args[0].info.name)
            r = self.method(base, e.func.attr, args, kwargs, e)
            if r is not _NO:
                return r
            if isinstance(base, AV) or (isinstance(base, tuple) and base and base[0] in ('repattern',)):
                f = ('attr', base, e.func.attr)         # already evaluated: do not evaluate the receiver twice
            elif isinstance(base, (AList, ADict, dict, list, tuple, str, set, Opaque)):
                f = Opaque('method')
            else:
                # the attribute of the receiver that has just been evaluated (evaluating the receiver expression a second
                # time would run a call in it twice: a.b().c())
                ae = ast.copy_location(ast.Attribute(value=ast.Name(id='__mc_base__', ctx=ast.Load()), attr=e.func.attr, ctx=ast.Load()), e.func)
                ast.fix_missing_locations(ae)
                f = self._v_Attribute(ae, {'__mc_base__': base}, m)
        else:
            f = self.ev(e.func, env, m)
        return self.apply(f, args, kwargs, e)

    def apply(self, f, args, kwargs, node):
        if id(f) in self.value_summaries:
            return self.value_summaries[id(f)](self, args, kwargs, node)
        if self.builtin_summaries and type(f).__name__ == 'builtin_function_or_method' and f.__name__ in self.builtin_summaries \
                and getattr(_builtins_mod(), f.__name__, None) is f:
            # a builtin reached through another name (_open = open): the rule's double for it applies all the same
            return self.builtin_summaries[f.__name__](self, args, kwargs, node)
        if isinstance(f, FuncRef):
            return self.call_function(f.info, args, dict(kwargs), node)
        if isinstance(f, tuple) and f and f[0] == 'bound':
            return self.call_function(f[2], [f[1]] + list(args), dict(kwargs), node)
        if isinstance(f, ADispatch):
            if not args:
                raise AbsRaise('TypeError', node, implicit=True, msg='singledispatch function requires at least 1 positional argument')
            impl = f.choose(self, args[0], node)
            if isinstance(impl, FuncRef):
                # (its decorator is the registration that has been dealt with: the function itself is called)
                return self.call_function(impl.info, list(args), dict(kwargs), node, trusted=True)
            if isinstance(impl, tuple) and len(impl) == 3 and impl[0] == 'closure':
                return self.call_function(impl[1], list(args), dict(kwargs), node, closure=impl[2], trusted=True)
            return self.apply(impl, list(args), dict(kwargs), node)
        if isinstance(f, tuple) and len(f) == 2 and f[0] == 'dispatch-register':
            disp = f[1]
            if len(args) == 2:
                disp.registry.append((args[0], args[1]))
                return args[1]
            if len(args) == 1 and isinstance(args[0], (type, ClassRef, ExtRef)):
                return ('dispatch-register-as', disp, args[0])
            if len(args) == 1:
                # @f.register on a function whose first parameter is annotated with the class
                impl = args[0]
                info = impl.info if isinstance(impl, FuncRef) else impl[1] if isinstance(impl, tuple) and impl[0] == 'closure' else None
                ann = None
                if info is not None:
                    a0 = (info.node.args.posonlyargs + info.node.args.args)
                    ann = a0[0].annotation if a0 else None
                if ann is None:
                    raise Unsupported('singledispatch.register without a class')
                cls_v = self.ev(ann, {}, info.module)
                disp.registry.append((cls_v, impl))
                return impl
            raise Unsupported('singledispatch.register call')
        if isinstance(f, tuple) and len(f) == 3 and f[0] == 'dispatch-register-as':
            f[1].registry.append((f[2], args[0]))
            return args[0]
        if isinstance(f, AObj) and f.cls is not None and '__fields__' not in f.attrs:
            o, callm = self.p.lookup_method(f.cls, '__call__')      # an instance of a class of the program that can be called
            if callm is not None:
                return self.call_function(callm, [f] + list(args), dict(kwargs), node)
            raise AbsRaise('TypeError', node, implicit=True, msg=f'{f.cls.name} object is not callable')
        if isinstance(f, tuple) and len(f) == 3 and f[0] == 'attr' and isinstance(f[2], str):
            base, name = f[1], f[2]
            if base is list and args and isinstance(args[0], AList) and args[0].kind not in ('tuple', 'bytes', 'bytearray', 'iterator', 'generator', 'fickle') \
                    and not kwargs:
                # list.method(obj, ...) called on the class: what a list subclass uses to reach the behaviour it overrides
                me, rest = args[0], list(args[1:])
                if name in ('__add__', '__iadd__') and len(rest) == 1:
                    if not (isinstance(rest[0], AList) and rest[0].kind not in ('tuple', 'bytes', 'bytearray')) and name == '__add__':
                        if _is_concrete(rest[0]) and not isinstance(rest[0], list):
                            raise AbsRaise('TypeError', node, implicit=True, msg='can only concatenate list')
                    more = self.iterate(rest[0], node, keep_vars=True)
                    if name == '__add__':
                        return AList(list(me.items) + list(more), 'list')
                    me.items.extend(more)
                    return me
                if name in ('__mul__', '__rmul__', '__imul__') and len(rest) == 1 and isinstance(rest[0], int) and not isinstance(rest[0], bool):
                    if name == '__imul__':
                        me.items[:] = list(me.items) * rest[0]
                        return me
                    return AList(list(me.items) * rest[0], 'list')
                if not name.startswith('__') or name in ('__len__', '__contains__'):
                    view = AList([], 'list')
                    view.items = me.items               # the same cells: the plain-list behaviour on this very object
                    return self.method(view, name, rest, {}, node)
            if base is int and name == 'from_bytes' and args:
                order = args[1] if len(args) > 1 else kwargs.get('byteorder', 'big')
                if order in ('big', 'little') and not kwargs.get('signed'):
                    items = self.iterate(args[0], node)
                    if order == 'little':
                        items = list(reversed(items))
                    acc = 0
                    for it in items:
                        acc = self.binop(ast.BitOr(), self.binop(ast.LShift(), acc, 8, node), it, node) if not (isinstance(acc, int) and acc == 0) else it
                    return acc
            if isinstance(base, (int, AV)) and not isinstance(base, bool) and name == 'to_bytes' and args and isinstance(args[0], int):
                order = args[1] if len(args) > 1 else kwargs.get('byteorder', 'big')
                if order in ('big', 'little') and not kwargs.get('signed'):
                    n_ = args[0]
                    if isinstance(base, int):
                        try:
                            return AList(list(base.to_bytes(n_, order)), 'bytes')
                        except OverflowError:
                            raise AbsRaise('OverflowError', node, implicit=True)
                    if not base.is_top:
                        lo, hi = base.interval()
                        if lo < 0 or hi >= 256 ** n_:
                            if hi < 0 or lo >= 256 ** n_ or self.decide(node, 'to_bytes: value does not fit'):
                                raise AbsRaise('OverflowError', node, implicit=True)
                    out = [self.binop(ast.BitAnd(), self.binop(ast.RShift(), base, 8 * (n_ - 1 - i), node), 0xff, node) for i in range(n_)]
                    if order == 'little':
                        out.reverse()
                    return AList(out, 'bytes')
            if base is dict and name == 'fromkeys' and 1 <= len(args) <= 2 and not kwargs:
                keys = self.iterate(args[0], node, keep_vars=True)
                if all(_hashable_const(k) for k in keys):
                    return ADict({k: (args[1] if len(args) > 1 else None) for k in keys})
                return Opaque('dict.fromkeys of symbolic keys')
            if _is_concrete(base) and all(_is_concrete(a) for a in args) and not kwargs and (
                    isinstance(base, (frozenset, tuple, str, int, float, bytes)) or name in ('__contains__', 'get', 'count', 'index', '__getitem__')):
                try:
                    return getattr(base, name)(*args)
                except (ValueError, TypeError, KeyError, IndexError) as ex:
                    raise AbsRaise(type(ex).__name__, node, implicit=True)
                except AttributeError:
                    raise AbsRaise('AttributeError', node, implicit=True)
            if name == '__contains__' and len(args) == 1:
                r = self.compare(ast.In(), args[0], base, node)
                return r if r is not None else self.decide(node, 'membership')
            if name == '__getitem__' and len(args) == 1 and not kwargs and isinstance(base, (ADict, dict, AList, list, tuple)):
                return self.index(base, args[0], node)          # d.__getitem__(k) is d[k]
            if isinstance(base, (AList, ADict, str)) or (isinstance(base, tuple) and base and base[0] == 'repattern') or hasattr(base, 'segs'):
                return self.method(base, name, list(args), dict(kwargs), node)
            if not isinstance(base, (Opaque, AObj)):
                # a bound method taken from an object first and called later (write = outfile.write; write(x)): the same
                # call as outfile.write(x)
                r = self.method(base, name, list(args), dict(kwargs), node)
                if r is not _NO:
                    return r
        if isinstance(f, tuple) and len(f) == 3 and f[0] == 'partial':
            pa, pk = f[2]
            kw = dict(pk)
            kw.update(kwargs)
            return self.apply(f[1], list(pa) + list(args), kw, node)
        if isinstance(f, tuple) and len(f) == 3 and f[0] == 'methodcaller' and len(args) == 1:
            ma, mk = f[2]
            callee = self._v_Attribute(ast.copy_location(ast.Attribute(value=ast.Name(id='__mc_obj__', ctx=ast.Load()), attr=f[1], ctx=ast.Load()), node),
                                       {'__mc_obj__': args[0]}, None)
            return self.apply(callee, list(ma), dict(mk), node)
        if isinstance(f, tuple) and len(f) == 3 and f[0] == 'ntmethod':
            obj, name = f[1], f[2]
            flds = obj.attrs['__fields__']
            if name == '_asdict' and not args and not kwargs:
                return ADict({k: obj.attrs[k] for k in flds})
            if name == '_replace' and not args and set(kwargs) <= set(flds):
                new = AObj(obj.cls, dict(obj.attrs), name=obj.name)
                new.attrs.update(kwargs)
                return new
            raise AbsRaise('TypeError', node, implicit=True)
        if isinstance(f, tuple) and len(f) == 2 and f[0] == 'excclass':
            return AExcValue(f[1], {'args': AList(list(args), 'tuple')})
        if isinstance(f, ANTClass):
            return AObj(None, nt_bind(f.fields, f.defaults, list(args), dict(kwargs), node), name=f.name)
        if isinstance(f, tuple) and len(f) == 2 and f[0] == 'ntmake':
            items = self.iterate(args[0], node, keep_vars=True) if len(args) == 1 else None
            if items is None:
                raise AbsRaise('TypeError', node, implicit=True)
            return self.apply(f[1], items, {}, node)
        if isinstance(f, tuple) and len(f) == 3 and f[0] == 'objectmethod':
            obj, name = f[1], f[2]
            if name in ('__init__', '__init_subclass__'):
                if args or kwargs:
                    raise AbsRaise('TypeError', node, implicit=True, msg='object.__init__() takes exactly one argument')
                return None
            if name == '__setattr__' and len(args) == 2 and isinstance(args[0], str):
                obj.attrs[args[0]] = args[1]
                obj.stores.append((args[0], args[1], node))
                log_event('store', obj, args[0], args[1])
                return None
            if name == '__delattr__' and len(args) == 1 and isinstance(args[0], str):
                if args[0] not in obj.attrs:
                    raise AbsRaise('AttributeError', node, implicit=True)
                del obj.attrs[args[0]]
                log_event('store', obj, args[0], None)
                return None
            if name == '__getattribute__' and len(args) == 1 and isinstance(args[0], str) and args[0] in obj.attrs:
                return obj.attrs[args[0]]
            raise Unsupported(f'object.{name} with {args!r}')
        if isinstance(f, tuple) and len(f) == 3 and f[0] == 'structmethod':
            return f[1].call(self, f[2], list(args), dict(kwargs), node)
        if isinstance(f, tuple) and len(f) == 3 and f[0] == 'mockmethod':
            return self.method(f[1], f[2], list(args), dict(kwargs), node)
        if isinstance(f, tuple) and len(f) == 3 and f[0] == 'closure':
            return self.call_function(f[1], list(args), dict(kwargs), node, closure=f[2])
        if isinstance(f, ClassRef):
            key = f.info.qname
            if key in self.summaries:
                return self.summaries[key](self, args, kwargs, node)
            ek = enum_kind(self, f.info)
            if ek == 'int' and len(args) == 1 and not kwargs:
                if isinstance(args[0], int):
                    for mem in enum_members(self, f.info).values():
                        if int(mem) == int(args[0]):
                            return mem
                    raise AbsRaise('ValueError', node, implicit=True, msg=f'{args[0]!r} is not a valid {f.info.name}')
                raise Unsupported(f'{f.info.name}(symbolic value)')
            if ek == 'other' and len(args) == 1 and not kwargs and _is_concrete(args[0]):
                for mem in plain_enum_members(self, f.info).values():
                    if type(mem.value) is type(args[0]) and mem.value == args[0]:
                        return mem
                raise AbsRaise('ValueError', node, implicit=True, msg=f'{args[0]!r} is not a valid {f.info.name}')
            if ek == 'other':
                raise Unsupported(f'{f.info.name}(...) in this form is not modelled')
            obj = AObj(f.info, {}, name=f.info.name)
            o, init = self.p.lookup_method(f.info, '__init__')
            dcs = dataclass_spec(self, f.info) if init is None else None
            if dcs is not None:
                obj.attrs.update(dataclass_bind(self, f.info, dcs, list(args), dict(kwargs), node))
                obj.attrs['__dataclass_fields__'] = tuple(n for n, d, m_ in dcs[0])
                if dcs[1].get('frozen'):
                    obj.attrs['__frozen__'] = True
                o_, post = self.p.lookup_method(f.info, '__post_init__')
                if post is not None:
                    self.call_function(post, [obj], {}, node)
                return obj
            nts = nt_spec(self, f.info) if init is None else None
            if nts is not None:
                if self.p.lookup_method(f.info, '__new__')[1] is not None:
                    raise Unsupported(f'namedtuple subclass {f.info.name} with its own __new__')
                obj.attrs.update(nt_bind(nts[0], nts[1], list(args), dict(kwargs), node))
                return obj
            if init is not None:
                self.call_function(init, [obj] + list(args), dict(kwargs), node)
            elif args or kwargs:
                # tuple/list/exception subclasses etc.: keep the arguments
                obj.attrs['__args__'] = AList(list(args), 'tuple')
            return obj
        if isinstance(f, ExtRef):
            key = f.name
            if key in self.summaries:
                return self.summaries[key](self, args, kwargs, node)
            if key in ('collections.deque', 'deque') and len(args) <= 2 and set(kwargs) <= {'maxlen'}:
                # the iterable is walked to its end (whatever it does on the way - deque(map(check, items), maxlen=0) is a way
                # of running the checks), the last maxlen items are kept
                items_ = self.iterate(args[0], node, keep_vars=True) if args else []
                ml_ = kwargs.get('maxlen', args[1] if len(args) > 1 else None)
                if isinstance(ml_, int) and not isinstance(ml_, bool):
                    if any(isinstance(x, SeqVar) for x in items_) and ml_ != 0:
                        raise Unsupported('bounded deque over a symbolic run')
                    items_ = items_[len(items_) - ml_:] if ml_ else []
                r_ = AList(items_, 'deque')
                r_.maxlen = ml_
                return r_
            if key in ('struct.pack', 'struct.unpack', 'struct.calcsize') and not kwargs and args and isinstance(args[0], str) \
                    and all(isinstance(a, (int, bytes)) and not isinstance(a, bool) for a in args[1:]):
                # the struct module on constants (a table of byte patterns built at import): computed, as any constant expression
                import struct as _struct
                try:
                    return getattr(_struct, key.split('.')[1])(*args)
                except _struct.error as se:
                    raise AbsRaise('struct.error', node, implicit=True, msg=str(se))
            if key in ('itertools.chain.from_iterable', 'chain.from_iterable') and len(args) == 1 and isinstance(args[0], (ALazy, AGen)):
                return ALazy('flatten', None, args[0])          # lazy in both levels: a part is asked for when the one before is used up
            if key in ('itertools.chain', 'chain') and any(isinstance(a, (ALazy, AGen)) for a in args):
                return ALazy('flatten', None, AList(list(args), 'tuple'))
            if key in ('itertools.chain.from_iterable', 'chain.from_iterable') and len(args) == 1:
                out = []
                for part in self.iterate(args[0], node, keep_vars=True):
                    out.extend(self.iterate(part, node, keep_vars=True))
                return AList(out, 'list')
            if key in ('itertools.product', 'product') and set(kwargs) <= {'repeat'} and isinstance(kwargs.get('repeat', 1), int):
                import itertools as _it
                cols = [self.iterate(a, node) for a in args] * kwargs.get('repeat', 1)
                return AList([AList(list(t), 'tuple') if not all(_is_concrete(x) for x in t) else tuple(t) for t in _it.product(*cols)], 'list')
            if key in ('itertools.repeat', 'repeat') and len(args) == 1 and not kwargs:
                return ALazy('repeat_forever', None, args[0])
            if key in ('itertools.starmap', 'starmap') and len(args) == 2 and isinstance(args[1], (ALazy, AGen)):
                return ALazy('starmap', args[0], args[1])
            if key in ('itertools.starmap', 'starmap') and len(args) == 2:
                return AList([self.apply(args[0], self.iterate(t, node, keep_vars=True), {}, node)
                              for t in self.iterate(args[1], node, keep_vars=True)], 'list')
            if key in ('itertools.chain', 'chain'):
                out = []
                for part in args:
                    out.extend(self.iterate(part, node, keep_vars=True))
                return AList(out, 'list')
            if key == 'struct.Struct' and len(args) == 1 and isinstance(args[0], str):
                return AStruct(args[0])
            if key in ('collections.namedtuple', 'namedtuple') and len(args) >= 2 and isinstance(args[0], str):
                flds = args[1]
                if isinstance(flds, str):
                    flds = flds.replace(',', ' ').split()
                else:
                    flds = self.iterate(flds, node)
                if all(isinstance(x, str) for x in flds) and set(kwargs) <= {'defaults', 'module'}:
                    dfl = tuple(self.iterate(kwargs['defaults'], node)) if kwargs.get('defaults') is not None else ()
                    return ANTClass(args[0], flds, dfl)
            if key == 're.compile' and args and isinstance(args[0], str) and not kwargs and (len(args) == 1 or args[1] == 0):
                return ('repattern', args[0], 0)
            if key in ('itertools.filterfalse', 'filterfalse') and len(args) == 2:
                return ALazy('filterfalse', args[0], args[1])
            if key in ('itertools.repeat', 'repeat') and len(args) == 2 and isinstance(args[1], int):
                return AList([args[0]] * args[1], 'list')
            if key in ('functools.reduce', 'reduce') and len(args) >= 2:
                items = self.iterate(args[1], node, keep_vars=True)
                if len(args) > 2:
                    acc = args[2]
                elif items:
                    acc, items = items[0], items[1:]
                else:
                    raise AbsRaise('TypeError', node, implicit=True)
                for it in items:
                    acc = self.apply(args[0], [acc, it], {}, node)
                return acc
            if key in ('contextlib.nullcontext', 'nullcontext') and len(args) <= 1 and not kwargs:
                return ('nullctx', args[0] if args else None)
            if key in ('contextlib.closing', 'closing') and len(args) == 1 and not kwargs:
                return ('closingctx', args[0])
            if key in ('contextlib.suppress', 'suppress') and not kwargs:
                names = []
                for a_ in args:
                    if isinstance(a_, tuple) and len(a_) == 2 and a_[0] == 'excclass':
                        names.append(a_[1])
                    elif isinstance(a_, ExtRef):
                        names.append(a_.name)
                    elif isinstance(a_, ClassRef):
                        names.append(a_.info.name)
                    else:
                        return Opaque('suppress of something that is not an exception class')
                return ('suppressctx', tuple(names))
            if key in ('typing.cast', 'cast') and len(args) == 2 and not kwargs:
                return args[1]
            if key in ('functools.singledispatch', 'singledispatch') and len(args) == 1 and not kwargs:
                return ADispatch(args[0])
            if key in ('logging.getLogger', 'getLogger'):
                return ALogger()
            if key.startswith('logging.') and key.split('.')[-1] in ('debug', 'info', 'warning', 'error', 'exception', 'critical', 'log'):
                return None
            if key in ('contextlib.ExitStack', 'ExitStack') and not args and not kwargs:
                return AExitStack()
            if key in ('functools.partial', 'partial') and args:
                return ('partial', args[0], (tuple(args[1:]), dict(kwargs)))
            if key in ('operator.methodcaller', 'methodcaller') and args and isinstance(args[0], str):
                return ('methodcaller', args[0], (tuple(args[1:]), dict(kwargs)))
            if key in ('itertools.accumulate', 'accumulate') and args:
                items = self.iterate(args[0], node, keep_vars=True)
                fn_ = args[1] if len(args) > 1 else kwargs.get('func')
                out = []
                if kwargs.get('initial') is not None:
                    out.append(kwargs['initial'])
                for it in items:
                    if not out:
                        out.append(it)
                    elif fn_ is None:
                        out.append(self.binop(ast.Add(), out[-1], it, node))
                    else:
                        out.append(self.apply(fn_, [out[-1], it], {}, node))
                return AList(out, 'list')
            if key in ('itertools.pairwise', 'pairwise') and len(args) == 1:
                items = self.iterate(args[0], node, keep_vars=True)
                return AList([AList([a, b], 'tuple') for a, b in zip(items, items[1:])], 'list')
            if key in ('itertools.takewhile', 'takewhile', 'itertools.dropwhile', 'dropwhile') and len(args) == 2:
                items = self.iterate(args[1], node, keep_vars=True)
                i = 0
                while i < len(items) and self.truth(self.apply(args[0], [items[i]], {}, node), node):
                    i += 1
                return AList(items[:i] if key.endswith('takewhile') else items[i:], 'list')
            if key in ('itertools.zip_longest', 'zip_longest') and args:
                cols = [self.iterate(a, node, keep_vars=True) for a in args]
                fill = kwargs.get('fillvalue')
                n_ = max(len(c) for c in cols)
                return AList([AList([c[i] if i < len(c) else fill for c in cols], 'tuple') for i in range(n_)], 'list')
            if key in ('itertools.islice', 'islice') and len(args) in (3, 4) and all(a is None or isinstance(a, int) for a in args[1:]):
                return AList(self.iterate(args[0], node, keep_vars=True)[slice(*args[1:])], 'list')
            if key in ('itertools.count', 'count') and all(isinstance(a, int) for a in args) and not kwargs:
                raise Unsupported('itertools.count(): unbounded iterator')
            if key in ('itertools.groupby', 'groupby') and args:
                items = self.iterate(args[0], node, keep_vars=True)
                kf = args[1] if len(args) > 1 else kwargs.get('key')
                groups = []
                for it in items:
                    kv = self.apply(kf, [it], {}, node) if kf is not None else it
                    if groups:
                        r = kv is groups[-1][0] or self.compare(ast.Eq(), kv, groups[-1][0], node)
                        if r is None:
                            raise Unsupported('groupby on keys whose equality is undecided')
                        if r:
                            groups[-1][1].append(it)
                            continue
                    groups.append((kv, [it]))
                return AList([AList([k_, AList(g, 'list')], 'tuple') for k_, g in groups], 'list')
            if key in ('operator.attrgetter', 'attrgetter') and len(args) == 1 and isinstance(args[0], str):
                return ('attrgetter', args[0])
            if key in ('operator.itemgetter', 'itemgetter') and len(args) == 1:
                return ('itemgetter', args[0])
            if key in ('operator.attrgetter', 'attrgetter') and len(args) > 1 and all(isinstance(a, str) for a in args) and not kwargs:
                return ('attrgetter', ('__several__',) + tuple(args))          # several names: the call gives a tuple, read in this order
            if key in ('operator.itemgetter', 'itemgetter') and len(args) > 1 and not kwargs:
                return ('itemgetter', ('__several__',) + tuple(args))
            if key in ('itertools.islice', 'islice') and len(args) == 2 and isinstance(args[1], int):
                return AList(self.iterate(args[0], node, keep_vars=True)[:args[1]], 'list')
            # an un-modelled library call: it may raise.  Rules can ask for the k-th such call of a run to fail.
            self.ext_calls = getattr(self, 'ext_calls', 0) + 1
            self.ext_call_names = getattr(self, 'ext_call_names', []) + [f.name]
            if getattr(self, 'inject_fault_at', None) == self.ext_calls:
                raise AbsRaise('InjectedFault', node)
            return Opaque(f'external {f.name}')
        if f is isinstance:
            return self.isinstance_(args, node)
        if f is len:
            return self.length_of(args[0], node)
        if f is map and len(args) == 2:
            return ALazy('map', args[0], args[1])
        if f is map and len(args) > 2:
            cols = [self.iterate(a, node, keep_vars=True) for a in args[1:]]
            return AList([self.apply(args[0], list(t), {}, node) for t in zip(*cols)], 'list')
        if f is filter and len(args) == 2:
            return ALazy('filter', args[0], args[1])
        if f is enumerate and args and not _is_concrete(args[0]):
            return ALazy('enumerate', kwargs.get('start', args[1] if len(args) > 1 else 0), args[0])
        if f is iter and len(args) == 2:
            return ALazy('callsentinel', args[0], args[1])
        if f is iter and len(args) == 1:
            src = args[0]
            if isinstance(src, (AGen, ALazy)):
                return src
            g = self.as_generator(src, node)
            if g is None and isinstance(src, AList) and src.kind in ('list', 'tuple', 'bytes', 'bytearray') and not src.has_var() \
                    and getattr(src, 'cls', None) is None:
                # every position is known: an iterator that can be advanced one item at a time (next() in a loop)
                return AList(list(src.items), 'iterator')
            return g if g is not None else ALazy('iter', None, src)
        if f is next and args:
            src = args[0]
            if isinstance(src, ALazy) and src.kind == 'pull':
                src = src.src
            if isinstance(src, AObj) and src.cls is not None and self.p.lookup_method(src.cls, '__next__')[1] is not None:
                try:
                    return self.pull_next(src, node)
                except AbsRaise as ex:
                    if ex.exc == 'StopIteration' and len(args) > 1:
                        return args[1]
                    raise
            if isinstance(src, ALazy) and src.steppable():
                if not src.done and src.pos < len(src.seq()):
                    src.pos += 1
                    return src.seq()[src.pos - 1]
                src.done = True
                if len(args) > 1:
                    return args[1]
                raise AbsRaise('StopIteration', node, implicit=True)
            if isinstance(src, AGen) and (getattr(src, 'buffer', None) is not None or (
                    not src.done and getattr(src, 'env', None) is not None and not src.info.name.startswith('<') and self.pure_generator(src.info))):
                if getattr(src, 'buffer', None) is None:
                    src.buffer = self.run_generator(src)
                if src.buffer:
                    return src.buffer.pop(0)
                if len(args) > 1:
                    return args[1]
                raise AbsRaise('StopIteration', node, implicit=True)
            if isinstance(src, (AGen, ALazy)):
                if src.done:
                    raise Unsupported(f'next() on an iterator that was already advanced (resumable iterators are not modelled): {src!r:.200}')

                def found(v):
                    raise _NextFound(v)
                if isinstance(src, AGen):
                    src.advanced = True
                try:
                    self.for_each(src, node, found)
                except _NextFound as nf:
                    return nf.value
                if len(args) > 1:
                    return args[1]
                raise AbsRaise('StopIteration', node, implicit=True)
            if isinstance(src, (AList, list)) and not (isinstance(src, AList) and src.has_var()):
                # generator expressions are evaluated eagerly into lists by this interpreter: take the first item
                items = src.items if isinstance(src, AList) else src
                if items:
                    return items.pop(0)
                if len(args) > 1:
                    return args[1]
                raise AbsRaise('StopIteration', node, implicit=True)
            return Opaque('next of a non-iterator')
        if f is setattr and len(args) == 3 and isinstance(args[0], AObj) and isinstance(args[1], str):
            tgt = ast.copy_location(ast.Attribute(value=ast.Name(id='__setattr_obj__', ctx=ast.Load()), attr=args[1], ctx=ast.Store()), node)
            ast.fix_missing_locations(tgt)
            self.assign(tgt, args[2], {'__setattr_obj__': args[0]}, args[0].cls.module if args[0].cls is not None else None)
            return None
        if f is getattr and len(args) >= 2 and hasattr(args[0], 'absint_getattr') and isinstance(args[1], str):
            try:
                return args[0].absint_getattr(self, args[1], node)
            except AbsRaise as ex:
                if ex.exc == 'AttributeError' and len(args) > 2:
                    return args[2]
                raise
        if f is getattr and len(args) >= 2 and isinstance(args[0], AObj) and isinstance(args[1], str):
            src = ast.copy_location(ast.Attribute(value=ast.Name(id='__getattr_obj__', ctx=ast.Load()), attr=args[1], ctx=ast.Load()), node)
            ast.fix_missing_locations(src)
            try:
                return self._v_Attribute(src, {'__getattr_obj__': args[0]}, args[0].cls.module if args[0].cls is not None else None)
            except AbsRaise as ex:
                if ex.exc == 'AttributeError' and len(args) > 2:
                    return args[2]
                raise
        if f in (list, tuple, bytearray, bytes):
            if not args:
                return AList([], f.__name__)
            src = args[0]
            if f is bytes and len(args) == 1 and not kwargs and getattr(src, 'py_type', None) == 'bytes':
                return src              # bytes(b) of an immutable bytes value is that value
            if f in (bytearray, bytes) and isinstance(src, int) and not isinstance(src, bool) and 0 <= src <= 4096:
                return AList([0] * src, f.__name__)         # bytearray(5) is five zero bytes, not an error
            if isinstance(src, AList) and src.kind == 'array' and f in (bytearray, bytes):
                # the buffer of an array whose items are wider than a byte: the raw memory, not the items
                return Opaque('raw memory of an array of wide items')
            if isinstance(src, (AList, SeqVar)):
                if isinstance(src, AList) and src.kind in ('iterator', 'fickle', 'generator'):
                    items = self.iterate(src, node, keep_vars=True)         # (uses the iterator up)
                else:
                    items = src.items if isinstance(src, AList) else [src]
                if f in (bytearray, bytes):
                    for it in items:
                        if isinstance(it, SeqVar):
                            continue
                        if isinstance(it, bool) or not isinstance(it, (int, AV)):
                            if isinstance(it, (str, float, type(None), list, tuple)):
                                raise AbsRaise('TypeError', node, implicit=True, msg='an integer is required')
                            continue
                        if isinstance(it, int) and not 0 <= it <= 255:
                            raise AbsRaise('ValueError', node, implicit=True, msg='byte must be in range(0, 256)')
                return AList(items, f.__name__)
            if isinstance(src, ADict):
                return list(src.d.keys())
            if isinstance(src, (AGen, ALazy)) or (isinstance(src, AObj) and src.cls is not None and self.p.lookup_method(src.cls, '__iter__')[1] is not None):
                return AList(self.iterate(src, node, keep_vars=True), f.__name__)
            if isinstance(src, (list, tuple)) and not _is_concrete(src):
                return AList(list(src), f.__name__)
            if _is_concrete(src):
                try:
                    return AList(list(src), f.__name__) if not all(_is_concrete(x) for x in src) else f(src)
                except Exception:
                    raise AbsRaise('TypeError', node, implicit=True)
            return Opaque(f'{f.__name__}()')
        if f is reversed and len(args) == 1 and isinstance(args[0], (AList, list, tuple)):
            return AList(list(reversed(self.iterate(args[0], node, keep_vars=True))), 'list')
        if f is zip:
            forever = [i for i, a in enumerate(args) if isinstance(a, ALazy) and a.kind == 'repeat_forever']
            lazy = [i for i, a in enumerate(args) if isinstance(a, (AGen, ALazy)) and i not in forever]
            if len(lazy) == 1 and set(kwargs) <= {'strict'}:
                # one lazy source next to constants that repeat for ever and finite sequences: pairs are made as the lazy source
                # is driven (zip(repeat(port), port.iter_pending()) takes nothing before it is asked)
                others = [None if i == lazy[0] else (('const', a.src) if i in forever else ('seq', self.iterate(a, node))) for i, a in enumerate(args)]
                return ALazy('zip1', (lazy[0], others), args[lazy[0]])
            if forever and len(forever) < len(args) and not lazy:
                seqs = [self.iterate(a, node) for i, a in enumerate(args) if i not in forever]
                nmin = min(len(q) for q in seqs)
                it_ = iter(seqs)
                cols = [[args[i].src] * nmin if i in forever else next(it_)[:nmin] for i in range(len(args))]
                return [AList(list(t), 'tuple') for t in zip(*cols)]
            seqs = [self.iterate(a, node) for a in args]
            return [AList(list(t), 'tuple') for t in zip(*seqs)]
        if f is dict:
            d = {}
            if args:
                src = args[0]
                if isinstance(src, ADict):
                    d.update(src.d)
                elif isinstance(src, dict):
                    d.update(src)
                else:
                    for pair in self.iterate(src, node):
                        k, v = self.iterate(pair, node)
                        d[k] = v
            d.update(kwargs)
            return ADict(d)
        if f in (set, frozenset) and args and isinstance(args[0], (AList, list, tuple)) and not _is_concrete(args[0]):
            items = self.iterate(args[0], node, keep_vars=True)
            if any(isinstance(x, SeqVar) for x in items):
                return Opaque('set of symbolic')
            # an unordered collection: canonical order by text so that two sets with the same members are the same value
            uniq = {}
            for x in items:
                uniq.setdefault(repr(x), x)
            return AList([uniq[k] for k in sorted(uniq)], f.__name__)
        if f in (int,) and args and isinstance(args[0], AV):
            return args[0]
        if getattr(self, 'str_domain', False) and (f is repr or (isinstance(f, Opaque) and f.why == 'global repr')) and len(args) == 1 \
                and not _is_concrete(args[0]):
            from . import strdom
            r = strdom.render_repr(args[0], self)
            return strdom.norm(r) if r is not None else Opaque('repr')
        if getattr(self, 'str_domain', False) and f in (str, int, float) and len(args) == 1:
            from . import strdom
            a0 = args[0]
            if f is str and isinstance(a0, (AV, strdom.FloatSym)):
                r = strdom.render(a0)
                if r is not None:
                    return strdom.norm(r)
            if f is str and isinstance(a0, strdom.SStr):
                return a0
            if f is int and isinstance(a0, strdom.SStr):
                try:
                    return strdom.parse_int(a0)
                except AbsRaise:
                    raise AbsRaise('ValueError', node)
            if f is float and isinstance(a0, strdom.SStr):
                try:
                    return strdom.parse_float(a0)
                except AbsRaise:
                    raise AbsRaise('ValueError', node)
            if f is float and isinstance(a0, strdom.FloatSym):
                return a0
        if isinstance(f, tuple) and f and f[0] == 'lambda':
            return self.call_lambda(f, list(args))
        if isinstance(f, tuple) and len(f) == 2 and f[0] in ('attrgetter', 'itemgetter') and len(args) == 1 \
                and isinstance(f[1], tuple) and f[1][:1] == ('__several__',):
            vals = [self.apply((f[0], k), [args[0]], {}, node) for k in f[1][1:]]
            return tuple(vals) if all(_is_concrete(x) for x in vals) else AList(vals, 'tuple')
        if isinstance(f, tuple) and len(f) == 2 and f[0] == 'attrgetter' and len(args) == 1:
            obj = args[0]
            if isinstance(obj, AObj) and f[1] in obj.attrs:
                return obj.attrs[f[1]]
            if isinstance(obj, AObj) or hasattr(obj, 'absint_getattr'):
                return self.apply(getattr, [obj, f[1]], {}, node)
            return Opaque('attrgetter')
        if isinstance(f, tuple) and len(f) == 2 and f[0] == 'itemgetter' and len(args) == 1:
            return self.index(args[0], f[1], node)
        if f in (round, int, float, abs) and len(args) == 1 and isinstance(args[0], (Poly, Wrapped)):
            if f is float or (f is abs and isinstance(args[0], Poly) and args[0].sign() in (0, 1)):
                return args[0]
            return Wrapped(f.__name__, args[0])
        if f in (sum, sorted, any, all, min, max) and args and (isinstance(args[0], (AGen, ALazy)) or (
                isinstance(args[0], AObj) and args[0].cls is not None and self.p.lookup_method(args[0].cls, '__iter__')[1] is not None)):
            args = [AList(self.iterate(args[0], node, keep_vars=True), 'list')] + list(args[1:])
        if f is sum and args and isinstance(args[0], (AList, list)) and not _is_concrete(args[0]):
            tot = args[1] if len(args) > 1 else 0
            for it in self.iterate(args[0], node):
                tot = self.binop(ast.Add(), tot, it, node)
            return tot
        if f is sorted and args and isinstance(args[0], (AList, list, tuple)) and not _is_concrete(args[0]):
            src = args[0].items if isinstance(args[0], AList) else list(args[0])
            return AList(self.sort_items(list(src), kwargs, node), 'list')
        if isinstance(f, tuple) and len(f) == 3 and f[0] == 'attr' and f[1] in (bytearray, bytes) and f[2] == 'fromhex' and len(args) == 1 \
                and getattr(self, 'str_domain', False):
            from . import strdom
            try:
                r = strdom.fromhex(args[0])
            except AbsRaise:
                raise AbsRaise('ValueError', node)
            if r is None:
                return Opaque('fromhex of non-text')
            return AList(r, 'bytearray')
        if isinstance(f, tuple) and len(f) == 3 and f[0] == 'attr' and f[1] is str and f[2] == 'join' and len(args) == 2:
            return self.method(args[0], 'join', [args[1]], {}, node)
        if f in (any, all) and len(args) == 1 and isinstance(args[0], (AList, list)) and not _is_concrete(args[0]):
            want = f is any
            for it in self.iterate(args[0], node):
                if self.truth(it, node) == want:
                    return want
            return not want
        if f in (min, max) and len(args) == 2 and (isinstance(args[0], AV) or isinstance(args[1], AV)):
            x, y = _as_av(args[0]), _as_av(args[1])
            if x is not None and y is not None and not x.is_top and not y.is_top:
                (xl, xh), (yl, yh) = x.interval(), y.interval()
                if f is min:
                    if xh <= yl:
                        return args[0]
                    if yh <= xl:
                        return args[1]
                else:
                    if xl >= yh:
                        return args[0]
                    if yl >= xh:
                        return args[1]
            return Opaque(f'{f.__name__} of overlapping ranges')
        if f in (min, max) and len(args) == 1 and not kwargs and isinstance(args[0], (AList, list, tuple)) and not _is_concrete(args[0]):
            # the largest / smallest of a list of symbolic integers: one of them when its range lies beyond all the others,
            # else a number within the hull of the ranges
            al = _as_alist(args[0])
            if not al.has_var() and al.items:
                avs = [_as_av(x) for x in al.items]
                if all(a is not None and not a.is_top for a in avs):
                    ivs = [a.interval() for a in avs]
                    for i, (lo, hi) in enumerate(ivs):
                        others = ivs[:i] + ivs[i + 1:]
                        if (f is max and all(lo >= oh for _, oh in others)) or (f is min and all(hi <= ol for ol, _ in others)):
                            return al.items[i]
                    hull_lo = (max if f is max else min)(lo for lo, _ in ivs)
                    hull_hi = (max if f is max else min)(hi for _, hi in ivs)
                    if hull_lo >= 0:
                        self._fresh = getattr(self, '_fresh', 0) + 1
                        return AV.of_sym(Sym(f'{f.__name__}#{self._fresh}', hull_hi))
            elif not al.items:
                raise AbsRaise('ValueError', node, implicit=True)
        if f is format and 1 <= len(args) <= 2 and not kwargs and getattr(self, 'str_domain', False) and not _is_concrete(args[0]) \
                and (len(args) == 1 or isinstance(args[1], str)):
            # format(value, spec) is what an f-string field does
            from . import strdom
            r = strdom.render(args[0], args[1] if len(args) > 1 else '', None, self)
            if r is not None:
                return strdom.norm(strdom.SStr([r]))
        if f is bool and len(args) == 1 and not _is_concrete(args[0]):
            return self.truth(args[0], node)
        if f is ord and len(args) == 1 and isinstance(args[0], AList):
            if len(args[0].items) == 1 and not isinstance(args[0].items[0], SeqVar):
                it = args[0].items[0]
                if isinstance(it, (int, AV)):
                    return it
                return Opaque(f'ord of {it!r}')
            raise AbsRaise('TypeError', node, implicit=True)
        if f is divmod and len(args) == 2:
            x, y = _as_av(args[0]), _as_av(args[1])
            if x is not None and y is not None and not (x.is_const and y.is_const):
                k = pow2_exp(y.const) if y.is_const else None
                if k is None:
                    return AList([AV.TOP('divmod by a non power of two')] * 2, 'tuple')
                return AList([x.shr(k), x.mod_pow2(k)], 'tuple')
        if any(isinstance(a, AV) and a.is_const for a in args):
            args = [a.const if isinstance(a, AV) and a.is_const else a for a in args]
        if f in _BUILTINS.values() and all(_is_concrete(a) for a in args) and all(_is_concrete(v) for v in kwargs.values()):
            try:
                r = f(*args, **kwargs)
            except (ValueError, TypeError, KeyError, IndexError, ZeroDivisionError, OverflowError) as ex:
                raise AbsRaise(type(ex).__name__, node, implicit=True)
            if isinstance(r, (zip, enumerate, reversed)):
                r = list(r)
            return r
        if isinstance(f, Opaque):
            return Opaque('call of opaque')
        return Opaque(f'call {unparse(node.func) if hasattr(node, "func") else f!r}')

    def type_of(self, v):
        """type(v) for values whose exact type is known (or known to be one of the numeric ones)."""
        if isinstance(v, (AV, Poly, LenV)) and not isinstance(v, bool):
            if isinstance(v, AEnumInt):
                return None
            return ATypeOf(v)
        if isinstance(v, (bool, int, float, complex, str, bytes, bytearray, type(None), tuple, list, dict, set, frozenset, range)):
            return type(v)
        if isinstance(v, AList) and v.kind in ('list', 'tuple', 'bytes', 'bytearray', 'set', 'frozenset') \
                and getattr(v, 'cls', None) is None:
            return {'list': list, 'tuple': tuple, 'bytes': bytes, 'bytearray': bytearray, 'set': set, 'frozenset': frozenset}[v.kind]
        if isinstance(v, ADict) and getattr(v, 'owner', None) is None:
            return dict
        if type(v).__name__ == 'SStr':
            return str
        if isinstance(v, AList) and getattr(v, 'cls', None) is None and v.kind in ('iterator', 'fickle', 'generator', 'deque', 'array'):
            # not one of the sequence types a shortcut may test for: the type of a list iterator / generator / deque / array
            import array as _array
            import collections as _collections
            import types as _types
            return {'iterator': type(iter([])), 'fickle': type(iter([])), 'generator': _types.GeneratorType, 'deque': _collections.deque,
                    'array': _array.array}[v.kind]
        return None

    def _type_names(self, t):
        """The names of the classes an isinstance() second argument stands for (evaluated, so that a local alias or a
        hoisted name counts for what it is); None when one of them is not known."""
        out = []
        items = t.items if isinstance(t, AList) else (list(t) if isinstance(t, (tuple, list)) else [t])
        for c in items:
            if isinstance(c, type):
                out.append(c.__name__)
            elif isinstance(c, ExtRef):
                out.append(c.name.split('.')[-1])
            elif isinstance(c, ClassRef):
                out.append(c.info.name)
            elif isinstance(c, (tuple, list, AList)):
                sub = self._type_names(c)
                if sub is None:
                    return None
                out.extend(sub)
            else:
                return None
        return out

    def isinstance_(self, args, node):
        v, t = args
        tn = self._type_names(t)
        if tn is not None:
            names_txt = ' '.join(tn)
        else:
            names_txt = unparse(node.args[1])
        return self._isinstance(v, t, names_txt, node)

    def _issubclass(self, a, b):
        """issubclass(a, b) for classes of the program, builtin exception classes and plain builtin types; None = unknown."""
        cands = list(b) if isinstance(b, (tuple, list)) and not (len(b) == 2 and b[0] == 'excclass') else (list(b.items) if isinstance(b, AList) else [b])
        verdicts = []
        for c in cands:
            if isinstance(a, tuple) and len(a) == 2 and a[0] == 'excclass' and isinstance(c, tuple) and len(c) == 2 and c[0] == 'excclass':
                verdicts.append(exc_is(a[1], c[1], self.extra_exc_parents))
            elif isinstance(a, ClassRef) and isinstance(c, ClassRef):
                verdicts.append(self.p.is_subclass(a.info, c.info))
            elif isinstance(a, type) and isinstance(c, type):
                verdicts.append(issubclass(a, c))
            elif isinstance(a, ClassRef) and isinstance(c, tuple) and len(c) == 2 and c[0] == 'excclass':
                names = [k.name for k in self.p.mro(a.info)] + [unparse(x) for k in self.p.mro(a.info) for x in k.node.bases]
                verdicts.append(any(exc_is(nm.split('.')[-1], c[1], self.extra_exc_parents) for nm in names))
            elif isinstance(a, (type, ClassRef)) and isinstance(c, (type, ClassRef)) or \
                    (isinstance(a, tuple) and len(a) == 2 and a[0] == 'excclass' and isinstance(c, (type, ClassRef))):
                verdicts.append(c is object)
            else:
                verdicts.append(None)
        if any(v is True for v in verdicts):
            return True
        if verdicts and all(v is False for v in verdicts):
            return False
        return None

    def _isinstance(self, v, t, names_txt, node):
        if isinstance(v, AObj) and v.cls is not None:
            cands = t if isinstance(t, (tuple, list)) else [t]
            if isinstance(t, AList):
                cands = t.items
            if all(isinstance(c, ClassRef) for c in cands):
                return any(self.p.is_subclass(v.cls, c.info) for c in cands)
        if isinstance(t, ClassRef) and not isinstance(v, (AObj, Opaque)):
            # a plain value is never an instance of a class of the program
            return False
        if isinstance(v, Poly):
            names = names_txt
            return 'Real' in names or 'float' in names or 'Number' in names
        if hasattr(v, 'py_type'):
            names = names_txt
            return any(tok in names for tok in v.py_type.split())
        if isinstance(v, AV):
            names = names_txt
            if 'Integral' in names or 'int' in names or 'Real' in names or 'Number' in names:
                return True
            return False
        if v is None:
            return 'NoneType' in names_txt
        if isinstance(v, (bytes, bytearray)):
            return 'bytes' in names_txt
        if isinstance(v, bool):
            names = names_txt
            return 'Integral' in names or 'int' in names or 'Real' in names or 'bool' in names
        if isinstance(v, AList) and v.kind in ('list', 'tuple', 'bytes', 'bytearray', 'set', 'frozenset') or isinstance(v, (list, tuple)):
            # precise for the builtin container kinds
            mine = {'list': list, 'tuple': tuple, 'bytes': bytes, 'bytearray': bytearray, 'set': set, 'frozenset': frozenset}[v.kind] \
                if isinstance(v, AList) else type(v)
            cands = list(t) if isinstance(t, (tuple, list)) else (list(t.items) if isinstance(t, AList) else [t])
            verdicts = []
            for c in cands:
                if isinstance(c, type):
                    verdicts.append(issubclass(mine, c))
                elif isinstance(c, ExtRef):
                    last = c.name.split('.')[-1]
                    if last in ('Iterable', 'Sequence', 'Collection', 'Sized', 'Container', 'Reversible'):
                        verdicts.append(last != 'Sequence' and last != 'Reversible' or mine not in (set, frozenset))
                    elif last in ('Mapping', 'MutableMapping', 'Integral', 'Real', 'Number', 'str', 'Hashable'):
                        verdicts.append(False if last != 'Hashable' else mine in (tuple, bytes, frozenset))
                    elif last in ('MutableSequence',):
                        verdicts.append(mine in (list, bytearray))
                    elif last in ('ByteString',):
                        verdicts.append(mine in (bytes, bytearray))
                    else:
                        verdicts.append(None)
                elif isinstance(c, ClassRef):
                    verdicts.append(False)
                else:
                    verdicts.append(None)
            if any(x is True for x in verdicts):
                return True
            if verdicts and all(x is False for x in verdicts):
                return False
        if isinstance(v, (list, tuple, AList, ADict, dict)):
            names = names_txt
            if not any(k in names for k in ('list', 'tuple', 'dict', 'Sequence', 'Iterable', 'Mapping', 'bytearray')):
                return False
        if isinstance(v, int) and not isinstance(v, bool) or isinstance(v, float) or isinstance(v, str):
            names = names_txt
            if isinstance(v, int):
                return 'Integral' in names or 'int' in names or 'Real' in names
            if isinstance(v, float):
                return 'Real' in names or 'float' in names
            if isinstance(v, str):
                return 'str' in names
        if isinstance(v, complex):
            return any(k in names_txt.split() or k in names_txt.replace('.', ' ').replace(',', ' ').replace('(', ' ').replace(')', ' ').split()
                       for k in ('complex', 'Complex', 'Number', 'object'))
        return self.decide(node, 'isinstance')

    def length_of(self, v, node=None):
        if hasattr(v, 'absint_len'):
            return v.absint_len()
        if nt_items(v) is not None and (v.cls is None or self.p.lookup_method(v.cls, '__len__')[1] is None):
            return len(nt_items(v))
        if isinstance(v, AList) and v.kind == 'deque':
            log_event('deque', 'test', v, node)
        if isinstance(v, AList) and v.kind == 'iterator':
            raise AbsRaise('TypeError', node, implicit=True, msg='len() of an iterator')
        if isinstance(v, AList):
            c = sum(1 for x in v.items if not isinstance(x, SeqVar))
            c = 0
            vs = []
            for x in v.items:
                if isinstance(x, SeqVar):
                    VAR_MINLEN[x.name] = x.minlen
                    vs.append(x.name)
                elif hasattr(x, 'size_var'):
                    sv = x.size_var()
                    if isinstance(sv, int):
                        c += sv
                    else:
                        vs.append(sv)
                else:
                    c += 1
            if not vs:
                return c
            return LenV(c, vs)
        if isinstance(v, SeqVar):
            VAR_MINLEN[v.name] = v.minlen
            return LenV(0, (v.name,))
        if isinstance(v, ADict):
            return len(v.d)
        if _is_concrete(v):
            try:
                return len(v)
            except TypeError:
                raise AbsRaise('TypeError', node, implicit=True)
        if isinstance(v, (dict, set, frozenset)) or (isinstance(v, (list, tuple)) and not any(isinstance(x, SeqVar) for x in v)):
            return len(v)           # a table whose entries are classes, functions or objects: its size is known all the same
        if isinstance(v, AObj) and v.cls is not None and '__fields__' not in v.attrs:
            if self.p.lookup_method(v.cls, '__len__')[1] is not None:
                return self.method_call(v, '__len__', [], {}, node)
        return Opaque('len')

    def method(self, base, name, args, kwargs, node):
        if isinstance(base, str) and name == 'format':
            # more replacement fields than arguments: IndexError (KeyError for a name) whatever the values are
            import string as _string
            try:
                auto = 0
                for _, field, spec, _conv in _string.Formatter().parse(base):
                    if field is None:
                        continue
                    head = field.split('.')[0].split('[')[0]
                    if head == '':
                        idx, auto = auto, auto + 1
                    elif head.isdigit():
                        idx = int(head)
                    else:
                        if head not in kwargs:
                            raise AbsRaise('KeyError', node, implicit=True, msg=head)
                        continue
                    if idx >= len(args):
                        raise AbsRaise('IndexError', node, implicit=True, msg='Replacement index out of range for positional args tuple')
            except ValueError:
                raise AbsRaise('ValueError', node, implicit=True)
        if isinstance(base, AList) and getattr(base, 'cls', None) is not None and not name.startswith('__'):
            # a list subclass of the program: its own methods come before the ones it inherits from list
            o, fn = self.p.lookup_method(base.cls, name)
            if fn is not None and not any(isinstance(d, ast.Name) and d.id == 'property' for d in fn.node.decorator_list):
                return self.call_function(fn, [base] + list(args), dict(kwargs), node)
        if isinstance(base, AGen) and name in ('__enter__', '__exit__', 'send', 'throw', 'close', '__next__'):
            # a generator (or generator-based context manager) driven by hand: it would have to be suspended at its yield between
            # two calls, which this interpreter cannot do - refuse rather than pretend the call did nothing
            raise Unsupported(f'{name}() called by hand on the generator object {base.info.qname} (line {getattr(node, "lineno", "?")}): '
                              'suspended generators are not modelled')
        if isinstance(base, ALogger):
            if name in ('isEnabledFor',):
                return False
            if name in ('getEffectiveLevel',):
                return 30
            if name in ('getChild',):
                return ALogger()
            return None
        if isinstance(base, AExitStack):
            return base.absint_method(self, name, list(args), dict(kwargs), node)
        if isinstance(base, AStruct):
            return base.call(self, name, list(args), dict(kwargs), node)
        if isinstance(base, tuple) and len(base) == 3 and base[0] == 'repattern':
            # a compiled regular expression: p.sub(repl, text) is re.sub(pattern, repl, text)
            summ = self.summaries.get(f're.{name}')
            if summ is not None and base[2] in (0, None):
                return summ(self, [base[1]] + list(args), dict(kwargs), node)
            if name in ('fullmatch', 'match', 'search') and len(args) == 1 and isinstance(args[0], str) and isinstance(base[1], str) \
                    and base[2] in (0, None) and not kwargs:
                # a pattern applied to a constant (a table computed at import): whether it matches is a constant
                import re as _re
                return True if getattr(_re, name)(base[1], args[0]) else None
            return Opaque(f'compiled pattern .{name}')
        if isinstance(base, AList) and base.kind == 'deque':
            log_event('deque', name, base, node)
        for hook in self.method_hooks:
            r = hook(self, base, name, args, kwargs, node)
            if r is not _NO:
                return r
        if isinstance(base, ADict):
            if name == 'update':
                new = {}
                for a in args:
                    if isinstance(a, ADict):
                        new.update(a.d)
                    elif isinstance(a, dict):
                        new.update(a)
                    else:
                        # an iterable of (key, value) pairs
                        try:
                            pairs = self.iterate(a, node, keep_vars=True)
                        except Unsupported:
                            raise Unsupported(f'dict.update with {a!r} at line {node.lineno}')
                        for pr in pairs:
                            kv = self.iterate(pr, node, keep_vars=True)
                            if len(kv) != 2 or not _hashable_const(kv[0]):
                                raise Unsupported(f'dict.update with {a!r} at line {node.lineno}')
                            new[kv[0]] = kv[1]
                new.update(kwargs)
                base.d.update(new)
                if getattr(base, 'owner', None) is not None:
                    for k, v in new.items():
                        base.owner.stores.append((k, v, node))
                        log_event('store', base.owner, k, v)
                return None
            if name == 'get':
                if _hashable_const(args[0]):
                    return base.d.get(args[0], args[1] if len(args) > 1 else None)
                return Opaque('dict.get')
            if name == 'copy':
                return ADict(base.d)
            if name == 'setdefault' and args and _hashable_const(args[0]):
                if args[0] not in base.d:
                    base.d[args[0]] = args[1] if len(args) > 1 else None
                    if getattr(base, 'owner', None) is not None:
                        base.owner.stores.append((args[0], base.d[args[0]], node))
                        log_event('store', base.owner, args[0], base.d[args[0]])
                return base.d[args[0]]
            if name == 'items':
                return [AList([k, v], 'tuple') for k, v in base.d.items()]
            if name == 'keys':
                return KeysView(base.d.keys())
            if name == 'values':
                return AList(list(base.d.values()))
            if name == 'pop':
                if _hashable_const(args[0]) and args[0] in base.d:
                    return base.d.pop(args[0])
                if len(args) > 1:
                    return args[1]
                raise AbsRaise('KeyError', node, implicit=True)
            return Opaque(f'dict.{name}')
        if isinstance(base, dict):
            if name == 'get' and args and (_hashable_const(args[0]) or isinstance(args[0], FuncRef)):
                return base.get(args[0], args[1] if len(args) > 1 else None)
            if name in ('items', 'keys', 'values', 'copy') and not args:
                r = getattr(base, name)()
                if name == 'keys':
                    return KeysView(r)
                return list(r) if name != 'copy' else ADict(r)
            if name == 'get' and args and isinstance(args[0], AV) and not args[0].is_top:
                lo, hi = args[0].interval()
                keys = [k for k in base if isinstance(k, int) and lo <= k <= hi]
                dflt = args[1] if len(args) > 1 else None
                if not keys:
                    return dflt
                vals = [base[k] for k in keys]
                if len(keys) == hi - lo + 1 and all(v is vals[0] or v == vals[0] for v in vals):
                    return vals[0]
                return Opaque('dict.get with a symbolic key')
            if name == 'get':
                return Opaque('dict.get')
            return _NO
        if isinstance(base, AList) and name in ('startswith', 'endswith') and len(args) == 1 and isinstance(args[0], (bytes, bytearray)) \
                and len(args[0]) == 1:
            if not base.items:
                return False
            it = base.items[0] if name == 'startswith' else base.items[-1]
            if isinstance(it, int):
                return it == args[0][0]
            if isinstance(it, AV) and not it.is_top:
                lo, hi = it.interval()
                if not lo <= args[0][0] <= hi:
                    return False
            return self.decide(node, f'{name} on symbolic bytes')
        if isinstance(base, AList):
            if name == 'append':
                base.items.append(args[0])
                return None
            if name == 'extend':
                # item by item: when the source raises half way, what it had produced so far is in the list
                if isinstance(args[0], AGen):
                    self.run_generator(args[0], base.items.append)
                elif isinstance(args[0], ALazy):
                    args[0].drive(self, node, base.items.append)
                else:
                    base.items.extend(self.iterate(args[0], node, keep_vars=True))
                return None
            if name == 'copy':
                return AList(base.items, base.kind)
            if name == 'reverse' and not base.has_var():
                base.items.reverse()
                return None
            if name == 'sort' and not base.has_var() and not args:
                base.items[:] = self.sort_items(list(base.items), kwargs, node)
                return None
            if name == 'insert' and len(args) == 2 and isinstance(args[0], int) and not base.has_var():
                base.items.insert(args[0], args[1])
                return None
            if name == 'clear' and not args:
                del base.items[:]
                return None
            if name == 'remove' and len(args) == 1 and not base.has_var():
                for i_, it_ in enumerate(base.items):
                    same_ = it_ is args[0]
                    plain_obj = isinstance(it_, AObj) and it_.cls is not None and self.p.lookup_method(it_.cls, '__eq__')[1] is None \
                        and '__fields__' not in it_.attrs
                    if not same_ and not plain_obj:
                        # (an object of a class without __eq__ equals only itself)
                        r_ = self.compare(ast.Eq(), it_, args[0], node)
                        if r_ is None:
                            raise Unsupported(f'list.remove(): equality with an element is undecided at line {getattr(node, "lineno", "?")}')
                        same_ = bool(r_)
                    if same_:
                        del base.items[i_]
                        return None
                raise AbsRaise('ValueError', node, implicit=True, msg='list.remove(x): x not in list')
            if name in ('pop',) and not base.has_var():
                try:
                    return base.items.pop(*[a for a in args if isinstance(a, int)])
                except IndexError:
                    raise AbsRaise('IndexError', node, implicit=True)
            if name == 'pop' and base.kind in ('list', 'bytearray', 'deque') and (not args or (len(args) == 1 and isinstance(args[0], int))):
                # a list with a symbolic run in it: an element outside the run is popped as usual
                k = args[0] if args else -1
                its = base.items
                if k < 0 and -k <= len(its) and not any(isinstance(x, SeqVar) for x in its[k:]):
                    return its.pop(k)
                if k >= 0 and k < len(its) and not any(isinstance(x, SeqVar) for x in its[:k + 1]):
                    return its.pop(k)
                if k in (-1, 0) and isinstance(its[k], SeqVar) and its[k].minlen >= 1:
                    sv = its[k]
                    its[k] = _shrunk(sv)
                    return AV.of_sym(sv.sym)
                raise Unsupported(f'pop({k}) inside a symbolic run at line {getattr(node, "lineno", "?")}')
            if name in ('find', 'index', 'count') and len(args) == 1 and not base.has_var():
                needle = args[0]
                if isinstance(needle, (bytes, bytearray)) and len(needle) == 1:
                    needle = needle[0]
                hits = 0
                for i, it in enumerate(base.items):
                    r = self.compare(ast.Eq(), it, needle, node)
                    if r is None:
                        return Opaque(f'{name} among symbolic items')
                    if r:
                        if name != 'count':
                            return i
                        hits += 1
                if name == 'count':
                    return hits
                if name == 'find':
                    return -1
                raise AbsRaise('ValueError', node, implicit=True)
            if name == 'clear':
                base.items.clear()
                return None
            if name == 'translate' and base.kind in ('bytes', 'bytearray') and 1 <= len(args) <= 2 and not kwargs:
                # bytes.translate(table[, delete]): every byte not in `delete` goes through the 256 byte table
                table = args[0]
                delete = args[1] if len(args) > 1 else b''
                if isinstance(delete, AList) and _is_concrete(delete.items):
                    delete = bytes(delete.items)
                if isinstance(table, AList) and _is_concrete(table.items):
                    table = bytes(table.items)
                if (table is None or (isinstance(table, (bytes, bytearray)) and len(table) == 256)) and isinstance(delete, (bytes, bytearray)):
                    out, ok = [], True
                    dele = set(delete)
                    for it in base.items:
                        sym_it = AV.of_sym(it.sym) if isinstance(it, SeqVar) else _as_av(it)
                        if sym_it is None or sym_it.is_top:
                            ok = False
                            break
                        lo, hi = sym_it.interval()
                        inside = [v in dele for v in range(lo, hi + 1)] if hi - lo < 4096 else [None]
                        if all(inside):
                            continue                # deleted whatever its value
                        if any(inside):
                            ok = False
                            break
                        if table is None:
                            out.append(it)
                            continue
                        r = _table_lookup(table, sym_it)
                        if r is None or (isinstance(it, SeqVar) and r is not sym_it):
                            ok = False
                            break
                        out.append(it if isinstance(it, SeqVar) else r)
                    if ok:
                        return AList(out, base.kind)
                return Opaque('bytes.translate')
            if name in ('remove', 'clear', 'rotate', 'extendleft', '__delitem__', '__setitem__', '__iadd__', '__imul__'):
                # (never pretend a call that changes the list did nothing)
                raise Unsupported(f'{base.kind}.{name}() in this form is not modelled (line {getattr(node, "lineno", "?")})')
            return Opaque(f'list.{name}')
        if isinstance(base, (list,)) and name in ('append', 'extend'):
            if name == 'append':
                base.append(args[0])
            else:
                base.extend(self.iterate(args[0], node, keep_vars=True))
            return None
        if isinstance(base, int) and not isinstance(base, bool) and name == 'bit_length' and not args:
            return base.bit_length()
        if isinstance(base, str):
            if all(_is_concrete(a) for a in args) and all(_is_concrete(v) for v in kwargs.values()) and hasattr(str, name) \
                    and not name.startswith('_'):
                try:
                    r = getattr(base, name)(*args, **kwargs)
                except (ValueError, TypeError, IndexError, KeyError, UnicodeError) as ex:
                    raise AbsRaise(type(ex).__name__ if not isinstance(ex, UnicodeError) else 'UnicodeError', node, implicit=True)
                return list(r) if isinstance(r, (map, filter)) else r
            return Opaque('str')
        if isinstance(base, (bytes, tuple)) and _is_concrete(base) and all(_is_concrete(a) for a in args) and hasattr(type(base), name) \
                and not name.startswith('_') and not kwargs:
            try:
                return getattr(base, name)(*args)
            except (ValueError, TypeError, IndexError, UnicodeError) as ex:
                raise AbsRaise(type(ex).__name__, node, implicit=True)
        if isinstance(base, Opaque):
            return Opaque(f'method {name} of opaque')
        return _NO


def _table_lookup(table, idx):
    """table[idx] for an index known as a range: a constant when the table is constant over the range, the index itself when
    the table maps every value of the range to itself; else None."""
    lo, hi = idx.interval()
    if not (0 <= lo <= hi < len(table)):
        return None
    vals = list(table[lo:hi + 1])
    if all(v == vals[0] for v in vals):
        return vals[0]
    if all(v == lo + i for i, v in enumerate(vals)):
        return idx
    return None


def _shrunk(sv):
    nv = SeqVar(sv.name + "'", sv.sym.umax, sv.minlen - 1)
    nv.sym = sv.sym
    nv.parent = sv
    return nv


VAR_MINLEN = {}     # name of a symbolic length -> its minimum
LEN_BOUNDS = {}     # path-local: name of a symbolic length -> [lo, hi] as narrowed by the length tests decided on this path


class assuming:
    """with assuming(outcome): ... - compare values under the length bounds that hold on the path of that outcome."""
    def __init__(self, out):
        self.b = getattr(out, 'len_bounds', None) or {}

    def __enter__(self):
        self.saved = {k: list(v) for k, v in LEN_BOUNDS.items()}
        LEN_BOUNDS.clear()
        LEN_BOUNDS.update({k: list(v) for k, v in self.b.items()})
        return self

    def __exit__(self, *a):
        LEN_BOUNDS.clear()
        LEN_BOUNDS.update(self.saved)
        return False


def only_length_splits(outs):
    """Several outcomes that all return and differ by nothing but tests on symbolic lengths (short payload / long payload):
    each is then judged on its own, under its bounds."""
    return len(outs) >= 1 and all(o.kind == 'return' for o in outs) and _length_forks(outs)


def _length_forks(outs):
    return len(outs) == 1 or all(o.decisions and all(str(d[2]).startswith('length:') for d in o.decisions) for o in outs)


def same_ending_length_splits(outs):
    """Like only_length_splits, for calls that may also raise: all outcomes end the same way (return, or the same exception)."""
    return len(outs) >= 1 and len({(o.kind, o.exc) for o in outs}) == 1 and _length_forks(outs)


def len_interval(lv):
    """(lo, hi) of const + sum(len(var)) under the minimum lengths and the tests decided so far on this path."""
    lo = hi = lv.const
    for v in lv.vars:
        b = LEN_BOUNDS.get(v)
        lo += max(VAR_MINLEN.get(v, 0), b[0] if b else 0)
        hi += b[1] if b and b[1] is not None else 10 ** 9
    return lo, min(hi, 10 ** 9)


def _narrow_len(op, lv, n, truth):
    """Record what a decided test `lv op n` says about a length with one symbolic part."""
    if len(lv.vars) != 1 or not isinstance(n, int) or isinstance(n, bool):
        return
    v = lv.vars[0]
    k = n - lv.const                     # len(v) op k
    t = type(op)
    if not truth:
        t = {ast.Lt: ast.GtE, ast.LtE: ast.Gt, ast.Gt: ast.LtE, ast.GtE: ast.Lt, ast.Eq: ast.NotEq, ast.NotEq: ast.Eq}.get(t)
    b = LEN_BOUNDS.setdefault(v, [VAR_MINLEN.get(v, 0), None])
    if t is ast.Lt:
        b[1] = k - 1 if b[1] is None else min(b[1], k - 1)
    elif t is ast.LtE:
        b[1] = k if b[1] is None else min(b[1], k)
    elif t is ast.Gt:
        b[0] = max(b[0], k + 1)
    elif t is ast.GtE:
        b[0] = max(b[0], k)
    elif t is ast.Eq:
        b[0] = max(b[0], k)
        b[1] = k if b[1] is None else min(b[1], k)


class LenV:
    """len() of a sequence with symbolic parts: const + sum(len(var))."""
    def __init__(self, const, vars_, minvar=None):
        self.const = const
        self.vars = tuple(sorted(vars_))
        self.minvar = sum(VAR_MINLEN.get(v, 0) for v in self.vars) if minvar is None else minvar

    def __repr__(self):
        return ' + '.join([str(self.const)] + [f'len({v})' for v in self.vars])

    def __eq__(self, other):
        return isinstance(other, LenV) and self.const == other.const and self.vars == other.vars

    def __hash__(self):
        return hash((self.const, self.vars))


_NO = object()


import builtins as _bi
_BUILTIN_EXCEPTIONS = frozenset(n for n in dir(_bi) if isinstance(getattr(_bi, n), type) and issubclass(getattr(_bi, n), BaseException))
_SAFE_DECORATORS = {'property', 'classmethod', 'staticmethod', 'contextmanager', 'setter', 'deleter', 'getter', 'abstractmethod', 'wraps',
                    'dataclass', 'unique', 'final', 'overload', 'runtime_checkable'}
_gen_cache = {}
_glob_cache = {}


_nonlocal_cache = {}


def _nonlocal_names(fn):
    k = id(fn)
    if k not in _nonlocal_cache:
        names = set()
        todo = list(fn.body)
        while todo:
            n = todo.pop()
            if isinstance(n, ast.Nonlocal):
                names.update(n.names)
            if isinstance(n, (ast.FunctionDef, ast.AsyncFunctionDef, ast.Lambda, ast.ClassDef)):
                continue
            todo.extend(ast.iter_child_nodes(n))
        _nonlocal_cache[k] = frozenset(names)
    return _nonlocal_cache[k]


def _global_names(fn):
    k = id(fn)
    if k not in _glob_cache:
        names = set()
        todo = list(fn.body)
        while todo:
            n = todo.pop()
            if isinstance(n, ast.Global):
                names.update(n.names)
            if isinstance(n, (ast.FunctionDef, ast.AsyncFunctionDef, ast.Lambda, ast.ClassDef)):
                continue
            todo.extend(ast.iter_child_nodes(n))
        _glob_cache[k] = frozenset(names)
    return _glob_cache[k]


def _is_generator(fn):
    k = id(fn)
    if k not in _gen_cache:
        found = False
        todo = list(fn.body)
        while todo:
            n = todo.pop()
            if isinstance(n, (ast.Yield, ast.YieldFrom)):
                found = True
                break
            if isinstance(n, (ast.FunctionDef, ast.AsyncFunctionDef, ast.Lambda, ast.ClassDef)):
                continue
            todo.extend(ast.iter_child_nodes(n))
        _gen_cache[k] = found
    return _gen_cache[k]


def _is_staticmethod(fn):
    return any(isinstance(d, ast.Name) and d.id == 'staticmethod' for d in fn.decorator_list)


def _is_classmethod(fn):
    return any(isinstance(d, ast.Name) and d.id == 'classmethod' for d in fn.decorator_list)


def _is_concrete(v):
    if isinstance(v, (bool, int, float, str, bytes, type(None), range)):
        return True
    if isinstance(v, (tuple, list, set, frozenset)):
        return all(_is_concrete(x) for x in v)
    if isinstance(v, dict):
        return all(_is_concrete(x) for x in v.values())
    return False


def _hashable_const(k):
    return isinstance(k, (str, int, float, bool, type(None), tuple)) and _is_concrete(k)


def _as_av(v):
    if isinstance(v, AV):
        return v
    if isinstance(v, bool):
        return AV(int(v))
    if isinstance(v, int):
        return AV(v)
    return None


def _as_alist(v):
    if isinstance(v, AList):
        return v
    if isinstance(v, (list, tuple)):
        return AList(list(v), 'tuple' if isinstance(v, tuple) else 'list')
    if isinstance(v, SeqVar):
        return AList([v])
    if isinstance(v, AObj) and '__fields__' in v.attrs and (v.cls is None or '__getitem__' not in v.cls.methods):
        return AList(nt_items(v), 'tuple')      # a namedtuple instance indexes, slices and unpacks like the tuple it is
    return None


def _flip(op):
    return {ast.Lt: ast.Gt, ast.LtE: ast.GtE, ast.Gt: ast.Lt, ast.GtE: ast.LtE,
            ast.Eq: ast.Eq, ast.NotEq: ast.NotEq}.get(type(op), type(op))()


def _cmp_interval(op, lo, hi):
    """Truth of (d op 0) for d in [lo, hi], None if undecided."""
    t = type(op) if not isinstance(op, type) else op
    if t is ast.Eq:
        if lo == hi == 0:
            return True
        if lo > 0 or hi < 0:
            return False
    elif t is ast.NotEq:
        if lo == hi == 0:
            return False
        if lo > 0 or hi < 0:
            return True
    elif t is ast.Lt:
        if hi < 0:
            return True
        if lo >= 0:
            return False
    elif t is ast.LtE:
        if hi <= 0:
            return True
        if lo > 0:
            return False
    elif t is ast.Gt:
        if lo > 0:
            return True
        if hi <= 0:
            return False
    elif t is ast.GtE:
        if lo >= 0:
            return True
        if hi < 0:
            return False
    return None


def _cmp_len(op, lv: LenV, n):
    lo, hi = len_interval(lv)
    lo = max(lo, lv.const + lv.minvar)
    return _cmp_interval(op, lo - n, hi - n)


def concretize(v, memo=None):
    """Abstract value -> plain Python value where it is fully known (for folded tables); other values stay abstract.
    With a memo, one abstract object becomes one concrete object however often it is reached (tables share their rows)."""
    if memo is not None and id(v) in memo:
        return memo[id(v)][1]
    r = _concretize(v, memo)
    if memo is not None and isinstance(v, (ADict, AList, dict, list)):
        memo[id(v)] = (v, r)
    return r


def _concretize(v, memo):
    if isinstance(v, AV) and v.is_const:
        return v.const
    if isinstance(v, (dict, list, tuple, set, frozenset)) and _is_concrete(v):
        return v                    # already a plain value: keep the very object (tables share their rows)
    if isinstance(v, ADict):
        try:
            return {concretize(k, memo): concretize(x, memo) for k, x in v.d.items()}
        except TypeError:
            return v
    if isinstance(v, AList) and not v.has_var() and v.kind in ('list', 'tuple', 'set', 'frozenset'):
        items = [concretize(x, memo) for x in v.items]
        try:
            return {'list': list, 'tuple': tuple, 'set': set, 'frozenset': frozenset}[v.kind](items)
        except TypeError:
            return v
    if isinstance(v, list):
        return [concretize(x, memo) for x in v]
    if isinstance(v, tuple) and not (v and v[0] in ('closure', 'bound', 'lambda', 'attrgetter', 'itemgetter', 'attr', 'mockmethod', 'signed', 'repattern', 'objectmethod', 'ntmake', 'ntmethod', 'excclass', 'partial', 'methodcaller', 'nullctx', 'closingctx', 'suppressctx', 'dispatch-register', 'dispatch-register-as')):
        return tuple(concretize(x, memo) for x in v)
    if isinstance(v, dict):
        return {k: concretize(x, memo) for k, x in v.items()}
    return v


def _unsafe_decorators(node):
    out = []
    for d in node.decorator_list:
        dn = unparse(d.func) if isinstance(d, ast.Call) else unparse(d)
        if dn.split('.')[-1] not in _SAFE_DECORATORS:
            out.append(d)
    return out


def module_is_effectful(m):
    """Does importing this module do more than bind names to the values of expressions?  (Statements run for their effect:
    calls, loops, item assignments, decorators that are not the well-known transparent ones.)  Such a module's globals
    are what is left after the whole body has run, not what the last assignment to each name says."""
    cached = getattr(m, '_effectful', None)
    if cached is not None:
        return cached

    def main_guard(st):
        return isinstance(st, ast.If) and isinstance(st.test, ast.Compare) and isinstance(st.test.left, ast.Name) and st.test.left.id == '__name__'
    eff = False
    for st in m.tree.body:
        if isinstance(st, ast.Expr) and not isinstance(st.value, ast.Constant):
            eff = True
        elif isinstance(st, (ast.For, ast.While, ast.With, ast.AugAssign, ast.Delete)):
            eff = True
        elif isinstance(st, (ast.If, ast.Try)) and not main_guard(st):
            eff = True
        elif isinstance(st, ast.Assign) and any(not isinstance(t, (ast.Name, ast.Tuple, ast.List)) for t in st.targets):
            eff = True
        elif isinstance(st, (ast.FunctionDef, ast.AsyncFunctionDef)) and _unsafe_decorators(st):
            eff = True
        elif isinstance(st, ast.ClassDef):
            if _unsafe_decorators(st):
                eff = True
            for b in st.body:
                if isinstance(b, (ast.FunctionDef, ast.AsyncFunctionDef)) and _unsafe_decorators(b):
                    eff = True
    m._effectful = eff
    return eff


class _ModuleEnv(dict):
    """The namespace of a module while its body runs: every binding is also visible to the functions called meanwhile."""
    def __init__(self, ai, m):
        super().__init__()
        self._ai, self._m = ai, m

    def __setitem__(self, k, v):
        super().__setitem__(k, v)
        self._ai.global_store[(self._m.name, k)] = v

    def pop(self, k, *d):
        self._ai.global_store.pop((self._m.name, k), None)
        return super().pop(k, *d)


def execute_module(folder, m):
    """Run the top-level statements of a module in order with the abstract interpreter and return its final namespace
    (name -> value), or None when that cannot be done on one path.  Used for modules whose import has effects (tables
    filled by registration decorators, loops or calls)."""
    from .model import FuncInfo as _FI
    ai = AbsInt(folder)
    ai._def_defaults = {}
    transparent = set()

    def decorate(st, val, env, info):
        for d in reversed(st.decorator_list):
            dn = unparse(d.func) if isinstance(d, ast.Call) else unparse(d)
            if dn.split('.')[-1] in _SAFE_DECORATORS:
                continue
            dv = ai.ev(d, env, m)
            val = ai.apply(dv, [val], {}, d)
        if _unsafe_decorators(st):
            same = (isinstance(val, FuncRef) and info is not None and val.info == info) or \
                (isinstance(val, tuple) and len(val) == 3 and val[0] == 'closure' and info is not None and val[1] == info) or \
                (isinstance(val, ClassRef) and info is not None and val.info is info)
            if same and info is not None:
                transparent.add(info.qname)
        return val

    def run():
        env = _ModuleEnv(ai, m)
        for st in m.tree.body:
            ai.steps += 1
            if isinstance(st, (ast.Import, ast.ImportFrom)):
                continue                        # imported names resolve on demand
            if isinstance(st, ast.If) and isinstance(st.test, ast.Compare) and isinstance(st.test.left, ast.Name) and st.test.left.id == '__name__':
                continue
            if isinstance(st, (ast.FunctionDef, ast.AsyncFunctionDef)):
                info = m.functions.get(st.name)
                if info is None or info.node is not st:
                    info = _FI(st.name, m, st)
                    val = ('closure', info, env)
                else:
                    val = FuncRef(info)
                # the defaults are evaluated now, in the namespace as it is at this point
                a_ = st.args
                pos_ = a_.posonlyargs + a_.args
                for di_, d_ in enumerate(a_.defaults):
                    try:
                        ai._def_defaults[(info.qname, ('pos', di_))] = ai.ev(d_, env, m)
                    except (AbsRaise, Unsupported):
                        pass
                for ko_, kd_ in zip(a_.kwonlyargs, a_.kw_defaults):
                    if kd_ is not None:
                        try:
                            ai._def_defaults[(info.qname, ('kw', ko_.arg))] = ai.ev(kd_, env, m)
                        except (AbsRaise, Unsupported):
                            pass
                env[st.name] = decorate(st, val, env, info)
            elif isinstance(st, ast.ClassDef):
                cinfo = m.classes.get(st.name)
                if cinfo is None or cinfo.node is not st:
                    raise Unsupported(f'class {st.name} is defined more than once')
                for b in st.body:
                    if isinstance(b, (ast.FunctionDef, ast.AsyncFunctionDef)) and _unsafe_decorators(b):
                        finfo = cinfo.methods.get(b.name)
                        if finfo is None or finfo.node is not b:
                            raise Unsupported(f'decorated method {st.name}.{b.name} cannot be resolved')
                        got = decorate(b, FuncRef(finfo), env, finfo)
                        if not (isinstance(got, FuncRef) and got.info == finfo):
                            raise Unsupported(f'decorator replaces method {st.name}.{b.name}')
                # a base class that registers its subclasses: __init_subclass__ runs when the class statement has been executed
                for k in folder.p.mro(cinfo)[1:]:
                    hook = k.methods.get('__init_subclass__')
                    if hook is not None:
                        kw = {kw_.arg: ai.ev(kw_.value, env, m) for kw_ in st.keywords if kw_.arg and kw_.arg != 'metaclass'}
                        ai.call_function(hook, [ClassRef(cinfo)], kw, st)
                        break
                env[st.name] = decorate(st, ClassRef(cinfo), env, cinfo)
            else:
                ai.ex(st, env, m)
        return env
    saved = list(EVENT_LOG)
    try:
        outs = ai.explore(run)
    except (AnalysisError, RecursionError):
        return None
    finally:
        EVENT_LOG[:] = saved
    if len(outs) != 1 or outs[0].kind != 'return':
        return None
    ns = {}
    memo = {}
    for k, v in outs[0].value.items():
        if k.startswith('__') and k.endswith('__') and k != '__all__':
            continue
        c = concretize(v, memo)
        if isinstance(c, Opaque):
            continue
        ns[k] = c
    folder.transparent_decorated |= transparent
    return ns


def install_fold_fallback(folder):
    """Module-level values the restricted folder cannot compute (comprehensions with helpers, closures made by a factory,
    generator helpers, dict merges...) are computed by the abstract interpreter instead, when they come out on one path."""
    ai = AbsInt(folder)

    def fallback(expr, module):
        saved = list(EVENT_LOG)
        try:
            outs = ai.explore(lambda: ai.ev(expr, {}, module))
        except (AnalysisError, RecursionError) as e:
            raise Unfoldable(f'not foldable: {e}')
        finally:
            EVENT_LOG[:] = saved
        if len(outs) != 1 or outs[0].kind != 'return':
            raise Unfoldable(f'module level value comes out as {outs!r}')
        v = concretize(outs[0].value)
        if isinstance(v, Opaque):
            raise Unfoldable(f'module level value is {v!r}')
        return v
    folder.fallback = fallback
    folder.module_exec = lambda m: execute_module(folder, m)
