"""Symbolic string domain for the text codecs (C14, C19).

An SStr is a sequence of segments:
  str literal           known text
  Dec(v)                decimal text of an integer valued abstract value   chars [-0-9]
  Flt(f)                repr() of a symbolic float                          chars [-+.0-9a-z]
  Hex2(v, upper)        two hex digits of a byte valued abstract value
None of the symbolic segments can contain whitespace, '=', '(', ')', ',' or '#',
so splitting on those is decided by the literal parts alone.
"""
from __future__ import annotations

import re

from .absint import _NO, AbsRaise, AList, Opaque
from .bits import AV


class FloatSym:
    py_type = 'Real float'

    def __init__(self, name):
        self.name = name

    def __repr__(self):
        return f'float:{self.name}'


class Dec:
    def __init__(self, v):
        self.v = v

    def __repr__(self):
        return f'<dec {self.v!r}>'


class Flt:
    def __init__(self, f):
        self.f = f

    def __repr__(self):
        return f'<flt {self.f!r}>'


class Hex2:
    def __init__(self, v, upper=True):
        self.v = v
        self.upper = upper

    def __repr__(self):
        return f'<hex {self.v!r}>'


class HexN:
    """Hexadecimal digits of a symbolic non-negative integer WITHOUT padding (one digit for values below 16)."""
    def __init__(self, v, upper=True):
        self.v = v
        self.upper = upper

    def __repr__(self):
        return f'hex({self.v!r})'


class SStr:
    py_type = 'str'

    def __init__(self, segs):
        out = []
        for s in segs:
            if isinstance(s, SStr):
                for x in s.segs:
                    _push(out, x)
            else:
                _push(out, s)
        self.segs = out

    def is_literal(self):
        return all(isinstance(s, str) for s in self.segs)

    def literal(self):
        return ''.join(self.segs)

    def __repr__(self):
        return 'S' + repr(self.segs)


def _push(out, x):
    if isinstance(x, str):
        if not x:
            return
        if out and isinstance(out[-1], str):
            out[-1] += x
            return
    out.append(x)


def norm(s):
    """SStr -> python str when fully literal."""
    if isinstance(s, SStr) and s.is_literal():
        return s.literal()
    return s


def to_sstr(x):
    if isinstance(x, SStr):
        return x
    if isinstance(x, str):
        return SStr([x])
    return None


def render_repr(value, interp=None):
    """repr(value) as segments (ints, floats, strings, tuples/lists of those, message objects)."""
    from .absint import AObj
    if isinstance(value, AV) and not value.is_top:
        return SStr([str(value.const)]) if value.is_const else SStr([Dec(value)])
    if isinstance(value, FloatSym):
        return SStr([Flt(value)])
    if isinstance(value, (bool, int, float, str, bytes, type(None))):
        return SStr([repr(value)])
    if type(value).__name__ == 'StrSym':
        return SStr([StrRepr(value)])
    if isinstance(value, AList) and getattr(value, 'cls', None) is not None and interp is not None:
        o, fn = interp.p.lookup_method(value.cls, '__repr__')
        if fn is not None:
            return to_sstr(interp.call_function(fn, [value], {}))
    if isinstance(value, (tuple, list)) or (isinstance(value, AList) and not value.has_var()):
        items = list(value.items) if isinstance(value, AList) else list(value)
        kind = value.kind if isinstance(value, AList) else ('tuple' if isinstance(value, tuple) else 'list')
        op, cl = ('(', ')') if kind == 'tuple' else ('[', ']')
        segs = [op]
        for i, it in enumerate(items):
            r = render_repr(it, interp)
            if r is None:
                return None
            if i:
                segs.append(', ')
            segs.append(r)
        if kind == 'tuple' and len(items) == 1:
            segs.append(',')
        segs.append(cl)
        return SStr(segs)
    if isinstance(value, AObj) and interp is not None and value.cls is not None:
        o, fn = interp.p.lookup_method(value.cls, '__repr__')
        if fn is not None:
            r = interp.call_function(fn, [value], {})
            return to_sstr(r)
    return None


class StrRepr:
    """repr() of a symbolic text (a quoted string literal)."""
    def __init__(self, s):
        self.s = s

    def __repr__(self):
        return f'<strrepr {self.s!r}>'


def render(value, spec='', conv=None, interp=None):
    """format(value, spec) as segments, or None when not representable."""
    if conv == 'r' and spec == '':
        return render_repr(value, interp)
    from .absint import AObj
    if isinstance(value, AObj) and interp is not None and value.cls is not None and spec == '' and conv in (None, 's'):
        o, fn = interp.p.lookup_method(value.cls, '__str__')
        if fn is None:
            o, fn = interp.p.lookup_method(value.cls, '__repr__')
        if fn is not None:
            return to_sstr(interp.call_function(fn, [value], {}))
    if isinstance(value, (tuple, list)) and spec == '' and conv in (None, 's') and not all(isinstance(x, (int, float, str)) for x in value):
        return render_repr(value, interp)
    if isinstance(value, AList) and spec == '' and conv in (None, 's'):
        return render_repr(value, interp)
    if isinstance(value, (SStr, str)) and spec == '' and conv in (None, 's'):
        return to_sstr(value)
    if isinstance(value, AV) and not value.is_top:
        if value.is_const:
            return SStr([format(value.const, spec)])
        if spec in ('', 'd'):
            return SStr([Dec(value)])
        if spec in ('02X', '02x'):
            lo, hi = value.interval()
            if 0 <= lo and hi <= 255:
                return SStr([Hex2(value, spec == '02X')])
        if spec in ('X', 'x', '2X', '2x'):
            lo, hi = value.interval()
            if 0 <= lo:
                return SStr([HexN(value, spec.endswith('X'))] if spec in ('X', 'x') or lo >= 16 else [' ', HexN(value, spec.endswith('X'))])
        return None
    if isinstance(value, FloatSym) and spec == '':
        return SStr([Flt(value)])
    if isinstance(value, (int, float, bool, type(None), tuple)) or isinstance(value, str):
        try:
            if conv == 'r':
                return SStr([format(repr(value), spec)])
            return SStr([format(value, spec)])
        except Exception:
            return None
    return None


def split_ws(s: SStr):
    """s.split()"""
    toks = []
    cur = []
    for seg in s.segs:
        if isinstance(seg, str):
            parts = re.split(r'(\s+)', seg)
            for p in parts:
                if not p:
                    continue
                if p.isspace():
                    if cur:
                        toks.append(norm(SStr(cur)))
                        cur = []
                else:
                    cur.append(p)
        else:
            cur.append(seg)
    if cur:
        toks.append(norm(SStr(cur)))
    return toks


def split_on(s: SStr, sep: str, maxsplit=-1):
    out = []
    cur = []
    n = 0
    for seg in s.segs:
        if isinstance(seg, str):
            rest = seg
            while True:
                i = rest.find(sep)
                if i < 0 or (maxsplit >= 0 and n >= maxsplit):
                    cur.append(rest)
                    break
                cur.append(rest[:i])
                out.append(norm(SStr(cur)))
                cur = []
                n += 1
                rest = rest[i + len(sep):]
        else:
            cur.append(seg)
    out.append(norm(SStr(cur)))
    return out


def first_char_literal(s: SStr):
    return s.segs[0][0] if s.segs and isinstance(s.segs[0], str) else None


def last_char_literal(s: SStr):
    return s.segs[-1][-1] if s.segs and isinstance(s.segs[-1], str) else None


_SYM_CHARS = set('-+.0123456789abcdefABCDEFinfty')


def install(ai):
    """Hook the string domain into an abstract interpreter."""
    def hook(interp, base, name, args, kwargs, node):
        if isinstance(base, str) and name == 'join' and args and not kwargs:
            items = interp.iterate(args[0], node)
            segs = []
            for i, it in enumerate(items):
                ss = to_sstr(it)
                if ss is None:
                    return Opaque('join of non-strings')
                if i:
                    segs.append(base)
                segs.append(ss)
            return norm(SStr(segs))
        if isinstance(base, str) and name == 'format':
            return fmt(interp, base, args, kwargs)
        if isinstance(base, SStr):
            if name == 'split':
                if not args or args[0] is None:
                    return AList(split_ws(base), 'list')
                sep = args[0]
                if isinstance(sep, str) and sep and not (set(sep) & _SYM_CHARS):
                    mx = args[1] if len(args) > 1 else kwargs.get('maxsplit', -1)
                    return AList(split_on(base, sep, mx), 'list')
                return Opaque('split on a separator that symbolic text may contain')
            if name in ('startswith', 'endswith') and len(args) == 1 and isinstance(args[0], str) and len(args[0]) == 1:
                ch = first_char_literal(base) if name == 'startswith' else last_char_literal(base)
                if ch is not None:
                    return ch == args[0]
                if not base.segs:
                    return False
                return False if args[0] not in _SYM_CHARS else interp.decide(node, f'{name} on symbolic text')
            if name in ('removeprefix', 'removesuffix') and len(args) == 1 and isinstance(args[0], str) and not kwargs \
                    and not (set(args[0]) & _SYM_CHARS):
                # the affix is made of characters symbolic text never holds: whether it is there shows in the literal end segment
                segs = list(base.segs)
                if not args[0] or not segs:
                    return base
                if name == 'removeprefix':
                    if isinstance(segs[0], str) and len(segs[0]) >= len(args[0]):
                        if segs[0].startswith(args[0]):
                            segs[0] = segs[0][len(args[0]):]
                        return norm(SStr(segs))
                    if not isinstance(segs[0], str):
                        return base
                else:
                    if isinstance(segs[-1], str) and len(segs[-1]) >= len(args[0]):
                        if segs[-1].endswith(args[0]):
                            segs[-1] = segs[-1][:len(segs[-1]) - len(args[0])]
                        return norm(SStr(segs))
                    if not isinstance(segs[-1], str):
                        return base
                return Opaque(f'str.{name} across a symbolic segment')
            if name == 'strip' and not args:
                segs = list(base.segs)
                if segs and isinstance(segs[0], str):
                    segs[0] = segs[0].lstrip()
                if segs and isinstance(segs[-1], str):
                    segs[-1] = segs[-1].rstrip()
                return norm(SStr(segs))
            if name == 'replace' and len(args) == 2 and isinstance(args[0], str) and isinstance(args[1], str) and not (set(args[0]) & _SYM_CHARS):
                return norm(SStr([s.replace(args[0], args[1]) if isinstance(s, str) else s for s in base.segs]))
            if name == 'encode':
                return ('encoded', base)
            if name == 'lower' or name == 'upper':
                return Opaque('case change of symbolic text')
            return Opaque(f'str.{name} on symbolic text')
        if isinstance(base, tuple) and len(base) == 2 and base[0] == 'encoded' and name == 'decode':
            return base[1]
        return _NO
    ai.method_hooks.insert(0, hook)
    ai.str_domain = True

    def s_resub(interp, args, kwargs, node):
        pat, repl, text = args[0], args[1], args[2]
        ss = to_sstr(text)
        if ss is None or not isinstance(pat, str) or not isinstance(repl, str):
            return Opaque('re.sub')
        try:
            rx = re.compile(pat)
        except re.error:
            return Opaque('re.sub pattern')
        # only patterns that cannot match inside a symbolic segment (hex digits) are supported
        if rx.search('0123456789abcdefABCDEF'):
            return Opaque('re.sub pattern may match symbolic text')
        return norm(SStr([rx.sub(repl, x) if isinstance(x, str) else x for x in ss.segs]))
    ai.summaries.setdefault('re.sub', s_resub)


_PCT = re.compile(r'%(?P<flags>[-+ #0]*)(?P<width>\d*)(?:\.(?P<prec>\d+))?(?P<type>[diouxXeEfFgGcrsa%])')


def percent(interp, template, arg):
    """template % arg for a literal template, as segments; None when not representable."""
    from .absint import AList as _AL
    if isinstance(arg, _AL) and arg.kind == 'tuple':
        values = list(arg.items)
    elif isinstance(arg, tuple):
        values = list(arg)
    else:
        values = [arg]
    segs = []
    pos = 0
    vi = 0
    for m in _PCT.finditer(template):
        segs.append(template[pos:m.start()])
        pos = m.end()
        ty = m.group('type')
        if ty == '%':
            segs.append('%')
            continue
        if vi >= len(values) or '-' in m.group('flags') or '#' in m.group('flags') or '+' in m.group('flags') or ' ' in m.group('flags'):
            return None
        v = values[vi]
        vi += 1
        spec = ('0' if '0' in m.group('flags') else '') + m.group('width') + ('.' + m.group('prec') if m.group('prec') else '')
        if ty in 'di':
            r = render(v, spec + 'd' if spec else '', None, interp)
        elif ty in 'xX':
            r = render(v, spec + ty, None, interp)
        elif ty == 's':
            r = render(v, '', None, interp) if not spec else None
        elif ty == 'r':
            r = render(v, '', 'r', interp) if not spec else None
        else:
            r = None
        if r is None:
            return None
        segs.append(r)
    if vi != len(values):
        return None
    segs.append(template[pos:])
    return norm(SStr(segs))


def fmt(interp, template, args, kwargs):
    """'..{}..{name!r:spec}..'.format(...)"""
    import string
    segs = []
    auto = 0
    try:
        parsed = list(string.Formatter().parse(template))
    except ValueError:
        return Opaque('format string')
    for lit, field, spec, conv in parsed:
        if lit:
            segs.append(lit)
        if field is None:
            continue
        if field == '':
            if auto >= len(args):
                raise AbsRaise('IndexError', None, implicit=True)
            val = args[auto]
            auto += 1
        elif field.isdigit():
            val = args[int(field)]
        elif field in kwargs:
            val = kwargs[field]
        else:
            return Opaque('format field')
        r = render(val, spec or '', conv, interp)
        if r is None:
            return Opaque(f'format of {val!r}')
        segs.append(r)
    return norm(SStr(segs))


def parse_int(s):
    """int(s) for symbolic text: value, or raises AbsRaise('ValueError')."""
    if isinstance(s, SStr):
        if len(s.segs) == 1 and isinstance(s.segs[0], Dec):
            return s.segs[0].v
        raise AbsRaise('ValueError', None)
    return None


def parse_float(s):
    if isinstance(s, SStr):
        if len(s.segs) == 1 and isinstance(s.segs[0], Flt):
            return s.segs[0].f
        if len(s.segs) == 1 and isinstance(s.segs[0], Dec):
            return s.segs[0].v
        raise AbsRaise('ValueError', None)
    return None


def fromhex(s):
    """bytearray.fromhex(text): pairs of adjacent hex digits, ASCII whitespace allowed between pairs only."""
    ss = to_sstr(s)
    if ss is None:
        return None
    out = []
    for seg in ss.segs:
        if isinstance(seg, str):
            i = 0
            n = len(seg)
            while i < n:
                if seg[i] in ' \t\n\r\f\v':
                    i += 1
                    continue
                pair = seg[i:i + 2]
                if len(pair) != 2 or not re.fullmatch(r'[0-9a-fA-F]{2}', pair):
                    raise AbsRaise('ValueError', None)
                out.append(int(pair, 16))
                i += 2
        elif isinstance(seg, Hex2):
            out.append(seg.v)
        elif isinstance(seg, HexN):
            lo, hi = seg.v.interval()
            if lo >= 16 and hi <= 255:
                out.append(seg.v)
            else:
                # a value below 16 prints as ONE digit: fromhex rejects the odd digit (values above 255 print three)
                raise AbsRaise('ValueError', None)
        else:
            raise AbsRaise('ValueError', None)
    return out
