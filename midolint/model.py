"""E1 - program model: parse mido, resolve names, classes, MRO, methods.

Nothing here imports or runs mido; everything comes from `ast`.
"""
from __future__ import annotations

import ast
import hashlib
import os
from dataclasses import dataclass, field


class AnalysisError(Exception):
    """The analysis cannot be carried out (anchor missing, parse error...)."""


class Unsupported(AnalysisError):
    """An anchored function uses a construct the analysis cannot follow, so the
    obligation cannot be established (reported as a failed obligation)."""


def add_parents(tree):
    for node in ast.walk(tree):
        for child in ast.iter_child_nodes(node):
            child._parent = node
    tree._parent = None
    return tree


def parent(node):
    return getattr(node, '_parent', None)


def enclosing(node, kinds):
    p = parent(node)
    while p is not None and not isinstance(p, kinds):
        p = parent(p)
    return p


def unparse(node):
    try:
        return ast.unparse(node)
    except Exception:  # pragma: no cover
        return '<%s>' % type(node).__name__


@dataclass
class ClassInfo:
    name: str
    module: 'Module'
    node: ast.ClassDef
    base_exprs: list
    methods: dict = field(default_factory=dict)     # name -> FunctionDef
    attrs: dict = field(default_factory=dict)       # name -> value node (class level assigns)
    bases: list = field(default_factory=list)       # ClassInfo | str (external)

    @property
    def qname(self):
        return f'{self.module.relpath}::{self.name}'

    def __repr__(self):
        return f'<class {self.qname}>'

    def __hash__(self):
        return hash(self.qname)

    def __eq__(self, other):
        return isinstance(other, ClassInfo) and other.qname == self.qname


@dataclass
class FuncInfo:
    name: str
    module: 'Module'
    node: ast.FunctionDef
    cls: ClassInfo | None = None

    @property
    def qname(self):
        if self.cls is not None:
            return f'{self.module.relpath}::{self.cls.name}.{self.name}'
        return f'{self.module.relpath}::{self.name}'

    @property
    def lineno(self):
        return self.node.lineno

    def params(self):
        a = self.node.args
        return [x.arg for x in a.posonlyargs + a.args]

    def __repr__(self):
        return f'<func {self.qname}>'

    def __hash__(self):
        return hash(self.qname)

    def __eq__(self, other):
        return isinstance(other, FuncInfo) and other.qname == self.qname


@dataclass
class Module:
    name: str            # dotted
    path: str
    relpath: str         # relative to repo root
    source: str
    tree: ast.Module
    is_package: bool
    functions: dict = field(default_factory=dict)   # name -> FuncInfo
    classes: dict = field(default_factory=dict)     # name -> ClassInfo
    imports: dict = field(default_factory=dict)     # local -> (module dotted, attr|None)
    assigns: dict = field(default_factory=dict)     # name -> [value nodes] (module level)

    def __repr__(self):
        return f'<module {self.name}>'


@dataclass
class Def:
    kind: str    # 'function' 'class' 'const' 'module' 'external'
    module: Module | None
    name: str
    obj: object = None   # FuncInfo / ClassInfo / value node / Module / dotted str


class Program:
    def __init__(self, root):
        self.root = os.path.abspath(root)
        self.modules: dict[str, Module] = {}
        self.consulted: set[str] = set()
        pkg = os.path.join(self.root, 'mido')
        if not os.path.isdir(pkg):
            raise AnalysisError(f'no mido package under {self.root}')
        for dirpath, dirnames, filenames in os.walk(pkg):
            dirnames[:] = sorted(d for d in dirnames if d != '__pycache__')
            for fn in sorted(filenames):
                if fn.endswith('.py'):
                    self._load(os.path.join(dirpath, fn))
        for m in self.modules.values():
            self._index(m)
        for m in self.modules.values():
            for c in m.classes.values():
                c.bases = [self._resolve_base(m, b) for b in c.base_exprs]

    # ------------------------------------------------------------------ load
    def _load(self, path):
        rel = os.path.relpath(path, self.root)
        parts = rel[:-3].split(os.sep)
        is_pkg = parts[-1] == '__init__'
        if is_pkg:
            parts = parts[:-1]
        name = '.'.join(parts)
        with open(path, encoding='utf-8') as f:
            src = f.read()
        try:
            tree = ast.parse(src, filename=rel)
        except SyntaxError as e:
            raise AnalysisError(f'{rel}: syntax error: {e}') from e
        add_parents(tree)
        self.modules[name] = Module(name, path, rel, src, tree, is_pkg)

    def _index(self, m: Module):
        for st in m.tree.body:
            self._index_stmt(m, st)

    def _index_stmt(self, m, st):
        if isinstance(st, (ast.FunctionDef, ast.AsyncFunctionDef)):
            m.functions[st.name] = FuncInfo(st.name, m, st)
        elif isinstance(st, ast.ClassDef):
            self._index_class(m, st, '')
        elif isinstance(st, ast.Import):
            for a in st.names:
                local = a.asname or a.name.split('.')[0]
                m.imports[local] = (a.name if a.asname else a.name.split('.')[0], None)
        elif isinstance(st, ast.ImportFrom):
            base = self._abs_module(m, st.module, st.level)
            for a in st.names:
                m.imports[a.asname or a.name] = (base, a.name)
        elif isinstance(st, ast.Assign):
            for t in st.targets:
                for n in self._target_names(t):
                    m.assigns.setdefault(n, []).append(st)
                if isinstance(t, ast.Attribute) and isinstance(t.value, ast.Name) and t.value.id in m.classes \
                        and t.value.id not in m.assigns:
                    # `Class.attr = value` at module level, after the class statement (a collaborator that only exists
                    # further down): a class attribute like one written in the class body
                    m.classes[t.value.id].attrs[t.attr] = st.value
        elif isinstance(st, ast.AnnAssign) and isinstance(st.target, ast.Name):
            m.assigns.setdefault(st.target.id, []).append(st)
        elif isinstance(st, (ast.If, ast.Try)):
            for s in ast.iter_child_nodes(st):
                if isinstance(s, ast.stmt):
                    self._index_stmt(m, s)

    def _index_class(self, m, st, prefix):
        ci = ClassInfo(prefix + st.name, m, st, list(st.bases))
        for s in st.body:
            if isinstance(s, (ast.FunctionDef, ast.AsyncFunctionDef)):
                # property setters/deleters share a name: keep the getter
                # under the name and the others under name@setter
                key = s.name
                for d in s.decorator_list:
                    if isinstance(d, ast.Attribute) and d.attr in ('setter', 'deleter'):
                        key = f'{s.name}@{d.attr}'
                ci.methods[key] = FuncInfo(s.name, m, s, ci)
            elif isinstance(s, ast.Assign):
                for t in s.targets:
                    if isinstance(t, ast.Name):
                        ci.attrs[t.id] = s.value
            elif isinstance(s, ast.AnnAssign) and isinstance(s.target, ast.Name) and s.value is not None:
                ci.attrs[s.target.id] = s.value
            elif isinstance(s, ast.ClassDef):
                # a class nested in a class: a class of the module under its dotted name, and an attribute of the outer class
                self._index_class(m, s, prefix + st.name + '.')
                ci.attrs[s.name] = ast.copy_location(ast.Name(id=prefix + st.name + '.' + s.name, ctx=ast.Load()), s)
        m.classes[prefix + st.name] = ci

    @staticmethod
    def _target_names(t):
        if isinstance(t, ast.Name):
            yield t.id
        elif isinstance(t, (ast.Tuple, ast.List)):
            for e in t.elts:
                yield from Program._target_names(e)

    def _abs_module(self, m: Module, mod, level):
        if level == 0:
            return mod
        parts = m.name.split('.')
        if not m.is_package:
            parts = parts[:-1]
        if level > 1:
            parts = parts[:len(parts) - (level - 1)]
        if mod:
            parts = parts + mod.split('.')
        return '.'.join(parts)

    # --------------------------------------------------------------- resolve
    def module(self, name) -> Module:
        m = self.modules.get(name)
        if m is None:
            raise AnalysisError(f'module {name} not found')
        self.consulted.add(m.relpath)
        return m

    def resolve(self, m: Module, name: str, _seen=None) -> Def:
        """Resolve a global name of module m to its definition."""
        _seen = _seen or set()
        key = (m.name, name)
        if key in _seen:
            return Def('external', m, name, name)
        _seen.add(key)
        if name in m.functions:
            return Def('function', m, name, m.functions[name])
        if name in m.classes:
            return Def('class', m, name, m.classes[name])
        if name in m.assigns:
            return Def('const', m, name, m.assigns[name])
        if name in m.imports:
            modname, attr = m.imports[name]
            if attr is None:
                if modname in self.modules:
                    return Def('module', self.modules[modname], modname, self.modules[modname])
                return Def('external', None, modname, modname)
            sub = f'{modname}.{attr}' if modname else attr
            if sub in self.modules:
                return Def('module', self.modules[sub], sub, self.modules[sub])
            if modname in self.modules:
                return self.resolve(self.modules[modname], attr, _seen)
            return Def('external', None, f'{modname}.{attr}', f'{modname}.{attr}')
        return Def('external', m, name, name)

    def resolve_expr(self, m: Module, expr) -> Def | None:
        """Resolve Name or dotted Attribute expression at module scope."""
        if isinstance(expr, ast.Name):
            return self.resolve(m, expr.id)
        if isinstance(expr, ast.Attribute):
            base = self.resolve_expr(m, expr.value)
            if base is None:
                return None
            if base.kind == 'module':
                return self.resolve(base.obj, expr.attr)
            if base.kind == 'class':
                owner, fn = self.lookup_method(base.obj, expr.attr)
                if fn is not None:
                    return Def('function', fn.module, fn.name, fn)
                v = self.class_attr(base.obj, expr.attr)
                if v is not None:
                    return Def('const', base.obj.module, expr.attr, [v])
                return None
            if base.kind == 'external':
                return Def('external', None, f'{base.obj}.{expr.attr}', f'{base.obj}.{expr.attr}')
        return None

    def _resolve_base(self, m, expr):
        d = self.resolve_expr(m, expr)
        if d is not None and d.kind == 'class':
            return d.obj
        return unparse(expr)

    def _module_alias(self, m, name):
        """What a module-level `name = other` / `name = Class.method` binds name to (the value expression), if that is all."""
        found = None
        for st in m.tree.body:
            if isinstance(st, ast.Assign) and len(st.targets) == 1 and isinstance(st.targets[0], ast.Name) and st.targets[0].id == name:
                found = st.value
            elif isinstance(st, ast.AnnAssign) and isinstance(st.target, ast.Name) and st.target.id == name and st.value is not None:
                found = st.value
        return found

    def cls(self, modname, name, _depth=0) -> ClassInfo:
        m = self.module(modname)
        c = m.classes.get(name)
        if c is None and _depth < 6:
            # defined elsewhere in the package and imported (or aliased) under this name
            if name in m.imports:
                mod2, attr = m.imports[name]
                if attr is not None and mod2 in self.modules:
                    return self.cls(mod2, attr, _depth + 1)
            v = self._module_alias(m, name)
            if isinstance(v, ast.Name) and v.id != name:
                return self.cls(modname, v.id, _depth + 1)
        if c is None:
            raise AnalysisError(f'class {name} not found in {m.relpath}')
        return c

    def func(self, modname, name, _depth=0) -> FuncInfo:
        m = self.module(modname)
        if '.' in name:
            cn, fn = name.split('.', 1)
            c = self.cls(modname, cn)
            f = c.methods.get(fn)
            if f is None:
                o, f = self.lookup_method(c, fn)         # inherited (a mixin or private base class carries it)
            if f is None:
                raise AnalysisError(f'method {name} not found in {m.relpath}')
            return f
        f = m.functions.get(name)
        if f is None and _depth < 6:
            # moved to another module of the package and imported back, or an alias of a function / static method
            if name in m.imports:
                mod2, attr = m.imports[name]
                if attr is not None and mod2 in self.modules:
                    return self.func(mod2, attr, _depth + 1)
            v = self._module_alias(m, name)
            if isinstance(v, ast.Name) and v.id != name:
                return self.func(modname, v.id, _depth + 1)
            if isinstance(v, ast.Attribute) and isinstance(v.value, ast.Name):
                try:
                    return self.func(modname, f'{v.value.id}.{v.attr}', _depth + 1)
                except AnalysisError:
                    pass
        if f is None:
            raise AnalysisError(f'function {name} not found in {m.relpath}')
        return f

    def mro(self, c: ClassInfo):
        """C3 linearisation over the classes known to the program."""
        def merge(seqs):
            res = []
            seqs = [list(s) for s in seqs if s]
            while seqs:
                for s in seqs:
                    cand = s[0]
                    if not any(cand in t[1:] for t in seqs):
                        break
                else:
                    raise AnalysisError(f'inconsistent MRO for {c.qname}')
                res.append(cand)
                seqs = [[x for x in s if x != cand] for s in seqs]
                seqs = [s for s in seqs if s]
            return res
        bases = [b for b in c.bases if isinstance(b, ClassInfo)]
        return [c] + merge([self.mro(b) for b in bases] + [bases])

    def is_subclass(self, c: ClassInfo, base: ClassInfo):
        return base in self.mro(c)

    def subclasses(self, base: ClassInfo):
        out = []
        for m in self.modules.values():
            for c in m.classes.values():
                if c != base and self.is_subclass(c, base):
                    out.append(c)
        return out

    def lookup_method(self, c: ClassInfo, name: str):
        """(owner class, FuncInfo) through the MRO, following class-level
        aliases such as `__setattr__ = _setattr` or
        `__iter__ = BaseIOPort.iter_pending`."""
        for k in self.mro(c):
            if name in k.methods:
                return k, k.methods[name]
            if name in k.attrs:
                v = k.attrs[name]
                if isinstance(v, ast.Name):
                    if v.id in k.methods:
                        return k, k.methods[v.id]
                    if v.id in k.attrs:
                        o, f = self.lookup_method(k, v.id)
                        if f is not None:
                            return k, f
                    return k, None
                if isinstance(v, ast.Attribute):
                    d = self.resolve_expr(k.module, v)
                    if d is not None and d.kind == 'function':
                        return k, d.obj
                return k, None
        return None, None

    def class_attr(self, c: ClassInfo, name: str):
        for k in self.mro(c):
            if name in k.attrs:
                return k.attrs[name]
        return None

    def all_functions(self):
        for m in self.modules.values():
            for f in m.functions.values():
                yield f
            for c in m.classes.values():
                for f in c.methods.values():
                    yield f

    def digest(self, relpaths=None):
        h = hashlib.sha256()
        for m in sorted(self.modules.values(), key=lambda m: m.relpath):
            if relpaths is None or m.relpath in relpaths:
                h.update(m.relpath.encode())
                h.update(m.source.encode())
        return h.hexdigest()


def loc(m: Module, node):
    return f'{m.relpath}:{getattr(node, "lineno", 0)}'


def func_of(node):
    return enclosing(node, (ast.FunctionDef, ast.AsyncFunctionDef))


def calls_in(node):
    for n in ast.walk(node):
        if isinstance(n, ast.Call):
            yield n


def call_name(call: ast.Call):
    """Dotted textual name of the callee ('self.feed_byte', 'check_data')."""
    f = call.func
    parts = []
    while isinstance(f, ast.Attribute):
        parts.append(f.attr)
        f = f.value
    if isinstance(f, ast.Name):
        parts.append(f.id)
    elif isinstance(f, ast.Call) and isinstance(f.func, ast.Name) and f.func.id == 'super':
        parts.append('super()')
    else:
        parts.append('?')
    return '.'.join(reversed(parts))


def dotted(expr):
    parts = []
    f = expr
    while isinstance(f, ast.Attribute):
        parts.append(f.attr)
        f = f.value
    if isinstance(f, ast.Name):
        parts.append(f.id)
        return '.'.join(reversed(parts))
    return None
