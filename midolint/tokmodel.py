"""One-step abstract transitions of mido.tokenizer.Tokenizer.feed_byte.

For every abstract pre-state (idle / collecting a multi-byte message with k bytes
so far / inside a sysex with a symbolic payload) and every byte 0..255 the
method is abstractly interpreted once; the result is the set of outcomes with
the emitted tokens and the post-state.  No sequence of calls is explored: the
rules state inductive (one-step) obligations over these summaries.
"""
from __future__ import annotations

from . import reference
from .absint import AbsInt, AList, AObj, Opaque, SeqVar
from .bits import AV, Sym
from .model import AnalysisError

TOK_MOD = 'mido.tokenizer'


class Stale:
    def __repr__(self):
        return 'STALE'


class Pending:
    """A token that was already waiting in the queue before the call."""
    def __repr__(self):
        return 'PENDING'


class Pre:
    def __init__(self, kind, status=0, k=0):
        self.kind = kind      # 'idle' | 'collect' | 'sysex'
        self.status = status
        self.k = k            # number of bytes collected so far incl. status

    def __repr__(self):
        if self.kind == 'idle':
            return 'idle'
        if self.kind == 'sysex':
            return 'sysex[F0,P*]' if self.k else 'sysex[F0]'
        return f'collect[{self.status:#04x}+{self.k - 1}]'


class Trans:
    def __init__(self, pre, byte, outcome, obj, emitted, pre_bytes, stale_list):
        self.pre = pre
        self.byte = byte
        self.outcome = outcome
        self.obj = obj
        self.emitted = emitted
        self.pre_bytes = pre_bytes
        self.stale_list = stale_list


def ref_lengths():
    out = {}
    for status, t, names, length in reference.MIDI_SPECS:
        if status < 0xf0:
            for ch in range(16):
                out[status | ch] = length
        else:
            out[status] = length
    return out


def pre_states():
    L = ref_lengths()
    pres = [Pre('idle'), Pre('sysex', 0xf0, 1), Pre('sysex', 0xf0, 0)]
    reps = []
    for status, t, names, length in reference.MIDI_SPECS:
        if length in (2, 3):
            if status < 0xf0:
                reps += [status, status | 0x0f]
            else:
                reps.append(status)
    for s in reps:
        for k in range(1, L[s]):
            pres.append(Pre('collect', s, k))
    return pres


def make_obj(cls, pre, deque_cls=None):
    msgs = AList([Pending()], 'deque')
    stale = None
    if pre.kind == 'idle':
        stale = AList([Stale()], 'list')
        attrs = {'_status': 0, '_bytes': stale, '_messages': msgs}
        pre_bytes = []
    elif pre.kind == 'sysex':
        b = AList([0xf0, SeqVar('P', 127)] if pre.k else [0xf0], 'list')
        attrs = {'_status': 0xf0, '_bytes': b, '_messages': msgs, '_len': float('inf')}
        pre_bytes = list(b.items)
    else:
        L = ref_lengths()[pre.status]
        items = [pre.status] + [AV.of_sym(Sym(f'p{i}', 127)) for i in range(pre.k - 1)]
        b = AList(items, 'list')
        attrs = {'_status': pre.status, '_bytes': b, '_messages': msgs, '_len': L}
        pre_bytes = list(items)
    return AObj(cls, attrs, name='tokenizer'), pre_bytes, stale


def interp(ctx):
    ai = AbsInt(ctx.f)

    def s_deque(interp_, args, kwargs, node):
        return AList(list(interp_.iterate(args[0], node)) if args else [], 'deque')
    ai.summaries['collections.deque'] = s_deque
    return ai


def transitions(ctx, method='feed_byte', bytes_=range(256)):
    cls = ctx.p.cls(TOK_MOD, 'Tokenizer')
    o, fn = ctx.p.lookup_method(cls, method)
    if fn is None:
        raise AnalysisError(f'Tokenizer.{method} not found')
    ctx.fn(fn)
    ai = interp(ctx)
    out = []
    for pre in pre_states():
        for b in bytes_:
            holder = {}

            def thunk():
                obj, pre_bytes, stale = make_obj(cls, pre)
                holder['v'] = (obj, pre_bytes, stale)
                return ai.call_function(fn, [obj, b], {})
            outs = ai.explore(thunk, limit=16)
            for oc in outs:
                # explore() re-runs the thunk; the holder belongs to the last run only,
                # so re-run deterministically for each outcome when there are several
                pass
            if len(outs) == 1:
                obj, pre_bytes, stale = holder['v']
                out.append(Trans(pre, b, outs[0], obj, list(obj.attrs['_messages'].items) if isinstance(obj.attrs.get('_messages'), AList) else None,
                                 pre_bytes, stale))
            else:
                out.append(Trans(pre, b, outs, None, None, None, None))
    for q in ai.inlined:
        ctx.functions.add(q)
    return fn, out


def init_state(ctx):
    """Abstract state after Tokenizer() (no data)."""
    cls = ctx.p.cls(TOK_MOD, 'Tokenizer')
    o, fn = ctx.p.lookup_method(cls, '__init__')
    if fn is None:
        raise AnalysisError('Tokenizer.__init__ not found')
    ctx.fn(fn)
    ai = interp(ctx)
    holder = {}

    def thunk():
        obj = AObj(cls, {}, name='tokenizer')
        holder['obj'] = obj
        return ai.call_function(fn, [obj], {})
    outs = ai.explore(thunk)
    return fn, outs, holder.get('obj')


# ---------------------------------------------------------------------------------------------------------------------------
# The same obligations without looking inside the tokenizer.
#
# The rules above put the tokenizer into a pre-state by writing its fields (_status, _bytes, _len) - exact, with a sysex payload
# of arbitrary length, but tied to that representation.  When Tokenizer() does not have these fields (state regrouped, renamed,
# held in a helper object) the transitions are decided by observation instead: the pre-state is reached by FEEDING a prefix
# to a fresh tokenizer, the byte is fed, then a distinguishing suffix (two data bytes and an end-of-exclusive) is fed and the
# queue is drained.  The tokens that come out must be among those the reference transition relation allows for
# prefix + byte + suffix.  Two reference states always give different outputs on that suffix, so a wrong post-state shows.

def representation_known(ctx):
    fn, outs, obj = init_state(ctx)
    if len(outs) != 1 or outs[0].kind != 'return' or obj is None:
        return False
    a = obj.attrs
    # a field the pre-states below do not write (a countdown, a mode flag, a helper object) means the state is held
    # differently: writing _status/_bytes/_len alone would put the tokenizer into a state its own code never produces
    # (fields that are only ever assigned, never read, carry no state)
    import ast as _ast
    cls = ctx.p.cls(TOK_MOD, 'Tokenizer')
    read = {n.attr for n in _ast.walk(cls.node) if isinstance(n, _ast.Attribute) and isinstance(n.ctx, (_ast.Load, _ast.Del))
            and isinstance(n.value, _ast.Name) and n.value.id == 'self'}
    read |= {n.args[1].value for n in _ast.walk(cls.node) if isinstance(n, _ast.Call) and isinstance(n.func, _ast.Name)
             and n.func.id in ('getattr', 'hasattr') and len(n.args) >= 2 and isinstance(n.args[1], _ast.Constant)}
    if (set(a) - {'_status', '_bytes', '_messages', '_len'}) & read:
        return False
    return '_status' in a and isinstance(a.get('_bytes'), AList) and isinstance(a.get('_messages'), AList)


def pre_prefix(pre):
    """Bytes that bring a fresh reference tokenizer into the pre-state, one token already waiting in the queue."""
    if pre.kind == 'idle':
        return [0x91, AV.of_sym(Sym('s1', 127)), AV.of_sym(Sym('s2', 127))]       # a complete message: pending token + stale buffer
    if pre.kind == 'sysex':
        return [0xf8, 0xf0] + ([AV.of_sym(Sym('q1', 127))] if pre.k else [])
    return [0xf8, pre.status] + [AV.of_sym(Sym(f'p{i}', 127)) for i in range(pre.k - 1)]


SUFFIX = None


def suffix():
    global SUFFIX
    if SUFFIX is None:
        SUFFIX = [AV.of_sym(Sym('z1', 127)), AV.of_sym(Sym('z2', 127)), 0xf7]
    return SUFFIX


def observed_transitions(ctx, bytes_=range(256)):
    """[(pre, byte, outcomes, tokens | None)] - tokens: the drained queue after prefix + byte + suffix, as lists of items."""
    from .fold import ClassRef
    cls = ctx.p.cls(TOK_MOD, 'Tokenizer')
    o, fb = ctx.p.lookup_method(cls, 'feed_byte')
    o, it = ctx.p.lookup_method(cls, '__iter__')
    if fb is None or it is None:
        raise AnalysisError('Tokenizer.feed_byte / __iter__ not found')
    ctx.fn(fb)
    from . import smf
    ai = smf.make_interp(ctx)           # deque operations modelled (popleft, extend...)
    out = []
    for pre in pre_states():
        pfx = pre_prefix(pre)
        for b in bytes_:
            def thunk():
                ai.steps = 0
                tok = ai.apply(ClassRef(cls), [], {}, None)
                for x in pfx:
                    ai.call_function(fb, [tok, x], {})
                ai.call_function(fb, [tok, b], {})
                for x in suffix():
                    ai.call_function(fb, [tok, x], {})
                return ai.iterate(ai.call_function(it, [tok], {}), None, keep_vars=True)
            outs = ai.explore(thunk, limit=16)
            toks = None
            if len(outs) == 1 and outs[0].kind == 'return':
                toks = []
                for t in outs[0].value:
                    toks.append(list(t.items) if isinstance(t, AList) else list(t) if isinstance(t, (list, tuple)) else t)
            out.append((pre, b, outs, toks))
    for q in ai.inlined:
        ctx.functions.add(q)
    return fb, out
