"""C14 - text, dict and repr representations round-trip."""
from __future__ import annotations

import ast

from .. import astq, codec, reference, smf, strdom, wire
from ..absint import AbsRaise, ADict, AList, AObj, Opaque
from ..bits import AV
from ..fold import ClassRef
from ..model import AnalysisError, unparse

LEVEL = 'other'
EXPLANATION = (
    'str(m) -> Message.from_str is decided in a symbolic string domain (literal text interleaved with "decimal text of '
    'attribute a", "repr of float t" segments, none of which can contain a separator character): msg2str is abstractly '
    'interpreted for each of the 18 types with symbolic attribute values (pitch negative range included), sysex data of 0, 1 and 3 '
    'symbolic bytes, and integer / float symbolic times; the resulting text is fed to the interpreted from_str (str2msg, '
    '_parse_data, _parse_time, make_msgdict, the checked constructor) and the message must come back with every attribute '
    'symbol for symbol.  dict()/from_dict likewise.  parse_string must raise ValueError - and nothing else - for a catalogue of '
    'malformed texts (unknown type, empty text, missing "=", bad numbers, duplicated / unknown attributes, broken data lists), '
    'and parse_string_stream must report each as (None, text with its line number) and carry on, skipping blank lines and '
    'comments.  eval(repr(x)): the repr text of ~40 abstract objects (every message type, meta and unknown meta messages, '
    'frozen variants, tracks of 0-3 messages, files of 0-2 tracks) is computed in the string domain, symbolic segments are '
    'replaced by placeholders, the text is parsed with ast.parse and the expression must be a call of the object\'s class '
    'whose arguments rebuild exactly its attributes (names and values).')
TRUSTED = ['midolint abstract interpreter with the symbolic string domain (midolint.strdom)', 'Python: repr(float) round-trips through float()']
ASSUMPTIONS = ['times are finite ints or floats', 'a text that itself carries skip_checks=/self= as a word reaches the constructor flags '
               '(excluded by "valid message"; for invalid text the resulting TypeError is not decided)']

MSG = codec.MSG_MOD
STR = 'mido.messages.strings'


def make_interp(ctx):
    from . import c08
    ai = c08.strict_interp(ctx)
    strdom.install(ai)
    return ai


def sample_attrs(type_):
    row = next(r for r in reference.MIDI_SPECS if r[1] == type_)
    out = {}
    for n in row[2]:
        if n != 'data':
            lo, hi = reference.ATTR_DOMAINS[n]
            out[n] = smf.sym(n, hi - lo, lo)
    return out


def same_attrs(got, want):
    if set(got) != set(want):
        return False, f'attributes {sorted(got)} instead of {sorted(want)}'
    for k, v in want.items():
        g = got[k]
        if isinstance(v, strdom.FloatSym):
            if g is not v:
                return False, f'{k} = {g!r} instead of {v!r}'
        elif not wire.value_equal(g, v):
            return False, f'{k} = {g!r} instead of {v!r}'
    return True, ''


def r14_str(ctx):
    ai = make_interp(ctx)
    cls = ctx.p.cls(MSG, 'Message')
    o, strf = ctx.p.lookup_method(cls, '__str__')
    o, fromstr = ctx.p.lookup_method(cls, 'from_str')
    if strf is None or fromstr is None:
        raise AnalysisError('Message.__str__/from_str not found')
    ctx.fn(strf)
    ctx.fn(fromstr)
    w = ctx.where(fromstr)
    ws = ctx.where(strf)
    n = 0
    cases = []
    for status, t, names, ln in reference.MIDI_SPECS:
        if t == 'sysex':
            for k in (0, 1, 3):
                cases.append((t, {'data': AList([smf.sym(f'd{i}', 127) for i in range(k)], 'tuple')}, f'sysex[{k} bytes]'))
        else:
            cases.append((t, sample_attrs(t), t))
    for t, attrs, label in cases:
        for tm, tl in ((smf.sym('time', 10 ** 9), 'int time'), (strdom.FloatSym('time'), 'float time'), (0, 'time 0')):
            n += 1
            holder = {}

            def thunk():
                m = wire.make_message(ctx, t, dict(attrs), tm)
                text = ai.call_function(strf, [m], {})
                holder['text'] = text
                return ai.call_function(fromstr, [ClassRef(cls), text], {})
            outs = ai.explore(thunk)
            inst = f'from_str(str({label}, {tl}))'
            cons = f'{fromstr.qname}::{"sysex" if t == "sysex" else "plain"}::{tl}'
            if len(outs) != 1 or outs[0].kind != 'return' or not isinstance(outs[0].value, AObj):
                ctx.fail('R14.2', inst, w, f'str(m) = {holder.get("text")!r} does not parse back on one path: {outs}' +
                         (' (undecided: ' + '; '.join(d[2] for o_ in outs for d in o_.decisions)[:160] + ')' if any(o_.decisions for o_ in outs) else ''),
                         construct=cons + '::outcomes')
                continue
            want = dict(attrs)
            want['type'] = t
            want['time'] = tm
            ok, why = same_attrs(outs[0].value.attrs, want)
            ctx.require(ok and outs[0].value.cls == cls, 'R14.2', inst, w, f'str(m) = {holder["text"]!r} parses back differently: {why}',
                        construct=cons + '::roundtrip')
    ctx.floor('R14.2', n, 60)
    for q in ai.inlined:
        ctx.functions.add(q)


def r14_dict(ctx):
    ai = make_interp(ctx)
    cls = ctx.p.cls(MSG, 'Message')
    o, dictf = ctx.p.lookup_method(cls, 'dict')
    o, fromd = ctx.p.lookup_method(cls, 'from_dict')
    ctx.fn(dictf)
    ctx.fn(fromd)
    w = ctx.where(fromd)
    for t, attrs in (('note_on', sample_attrs('note_on')), ('pitchwheel', sample_attrs('pitchwheel')), ('clock', {}),
                     ('sysex', {'data': AList([smf.sym('d0', 127), smf.sym('d1', 127)], 'tuple')}), ('sysex', {'data': AList([], 'tuple')})):
        holder = {}

        def thunk():
            m = wire.make_message(ctx, t, dict(attrs), smf.sym('time', 10 ** 6))
            m.stores.clear()
            holder['m'] = m
            holder['before'] = dict(m.attrs)
            d = ai.call_function(dictf, [m], {})
            holder['d'] = d
            holder['after'] = dict(m.attrs)
            return ai.call_function(fromd, [ClassRef(cls), d], {})
        outs = ai.explore(thunk)
        inst = f'from_dict({t}.dict())'
        ok = len(outs) == 1 and outs[0].kind == 'return' and isinstance(outs[0].value, AObj)
        why = f'{outs}'
        if ok:
            want = dict(attrs)
            want.update(type=t, time=smf.sym('time', 10 ** 6))
            ok, why = same_attrs(outs[0].value.attrs, want)
            d = holder['d']
            ok = ok and isinstance(d, ADict) and d.d is not holder['m'].attrs
            if t == 'sysex' and isinstance(d, ADict):
                ok = ok and isinstance(d.d.get('data'), AList) and d.d['data'].kind == 'list'
        ctx.require(ok, 'R14.5', inst, w, why, construct=f'{fromd.qname}::roundtrip')
        # taking the dict leaves the message as it was: same attribute objects (sysex data still the tuple), nothing stored
        same = 'before' in holder and list(holder['before']) == list(holder['after']) and \
            all(holder['before'][k] is holder['after'][k] for k in holder['before']) and not holder['m'].stores
        ctx.require(same, 'R14.5', f'{t}.dict() leaves the message unchanged', ctx.where(dictf),
                    f'attributes before: {holder.get("before")!r}; after dict(): {holder.get("after")!r} (stores: {holder["m"].stores!r:.120}) - '
                    'the message must still equal what it was, or the next round trip compares against something else',
                    construct=f'{dictf.qname}::leaves-message-unchanged')


BAD_TEXTS = ['foo', '', '   ', 'note_on note', 'note_on note=', 'note_on note=x', 'note_on note=1.5', 'note_on note=300', 'note_on channel=16',
             'note_on bogus=1', 'note_on =5', 'note_on type=5', 'note_on note=1 note=200', 'note_on time=abc', 'note_on time=', 'pitchwheel pitch=9000',
             'sysex data=1,2', 'sysex data=(1,2', 'sysex data=1,2)', 'sysex data=(1,,2)', 'sysex data=(a)', 'sysex data=(200)', 'sysex data=', 'sysex data=)(',
             'clock note=1', 'NOTE_ON', 'note_on note==1', '=', 'note_on note=1 junk', 'sysex data=(1 2)',
             # words that are parameter names of the constructor rather than attributes of the message
             'note_on self=1', 'note_on skip_checks=1', 'note_on skip_checks=1 note=999 channel=99', 'clock skip_checks=1 foo=3',
             'sysex skip_checks=1 data=(999,-5)', 'note_on skip_checks=0', 'note_on args=1', 'note_on cl=1']
GOOD_TEXTS = [('note_on', {'type': 'note_on', 'channel': 0, 'note': 0, 'velocity': 64, 'time': 0}),
              ('note_on channel=2 note=60 velocity=0 time=0.5', {'type': 'note_on', 'channel': 2, 'note': 60, 'velocity': 0, 'time': 0.5}),
              ('  pitchwheel   pitch=-8192\ttime=3 ', {'type': 'pitchwheel', 'channel': 0, 'pitch': -8192, 'time': 3}),
              ('sysex data=() time=0', {'type': 'sysex', 'data': (), 'time': 0}),
              ('sysex data=(1,2,3)', {'type': 'sysex', 'data': (1, 2, 3), 'time': 0}),
              ('note_on note=1 note=2', {'type': 'note_on', 'channel': 0, 'note': 2, 'velocity': 64, 'time': 0}),
              ('clock time=1e3', {'type': 'clock', 'time': 1000.0})]


def r14_errors(ctx):
    ai = make_interp(ctx)
    m = ctx.p.module(MSG)
    ps = m.functions.get('parse_string')
    if ps is None:
        raise AnalysisError('parse_string not found')
    ctx.fn(ps)
    w = ctx.where(ps)
    n = 0
    for text in BAD_TEXTS:
        n += 1
        outs = ai.explore(lambda: ai.call_function(ps, [text], {}))
        ok = bool(outs) and all(o.kind == 'raise' and o.exc == 'ValueError' for o in outs)
        kinds = sorted({(o.exc if o.kind == 'raise' else 'returns a message') for o in outs})
        ctx.require(ok, 'R14.3', f'parse_string({text!r})', w, f'text that is not a valid message gives {kinds} - parse_string must raise ValueError',
                    construct=f'{ps.qname}::invalid-text::{"|".join(kinds)}')
    for text, want in GOOD_TEXTS:
        n += 1
        outs = ai.explore(lambda: ai.call_function(ps, [text], {}))
        ok = len(outs) == 1 and outs[0].kind == 'return' and isinstance(outs[0].value, AObj)
        why = f'{outs}'
        if ok:
            got = {k: (tuple(v.items) if isinstance(v, AList) else v) for k, v in outs[0].value.attrs.items()}
            ok = got == want
            why = f'parsed as {got}, expected {want}'
        ctx.require(ok, 'R14.2', f'parse_string({text!r})', w, why, construct=f'{ps.qname}::valid-text')
    ctx.floor('R14.3', n, 35)
    # stream parser
    pss = m.functions.get('parse_string_stream')
    ctx.fn(pss)
    wst = ctx.where(pss)
    lines = ['note_on note=1', '', '   # only a comment', 'foo', 'clock  # trailing comment', 'note_on note=x', '\t', 'sysex data=(1,2)', 'note_on bogus=1']
    outs = ai.explore(lambda: ai.call_function(pss, [list(lines)], {}))
    ok = len(outs) == 1 and outs[0].kind == 'return' and isinstance(outs[0].value, AList)
    why = f'{outs}'
    if ok:
        items = outs[0].value.items
        shape = []
        for it in items:
            a, b = (it.items if isinstance(it, AList) else list(it))
            shape.append(('msg', a.attrs.get('type')) if isinstance(a, AObj) else ('err', b))
        want_kinds = [('msg', 'note_on'), ('err', 4), ('msg', 'clock'), ('err', 6), ('msg', 'sysex'), ('err', 9)]
        ok = len(shape) == len(want_kinds)
        if ok:
            for s_, wk in zip(shape, want_kinds):
                if wk[0] == 'msg':
                    ok = ok and s_ == wk
                else:
                    txt = s_[1] if isinstance(s_[1], str) else str(s_[1])
                    ok = ok and s_[0] == 'err' and f'line {wk[1]}' in txt
        why = f'stream gives {shape}; expected messages/errors {want_kinds} (errors carrying their line number, blank and comment lines skipped)'
    ctx.require(ok, 'R14.4', 'parse_string_stream', wst, why, construct=f'{pss.qname}::stream')
    for q in ai.inlined:
        ctx.functions.add(q)


# the structural conversion scan (r14_repr) was retired in favour of the semantic eval(repr(x)) rule below:
# it would fire on behaviour-preserving rewrites (f-string <-> .format, repr() call <-> !r).
RULES = [('R14-str', r14_str), ('R14-dict', r14_dict), ('R14-errors', r14_errors)]


# ----------------------------------------------------------------------------- symbolic eval(repr(x))
def _to_source(s):
    """SStr -> (python source with placeholders, {placeholder: symbolic value})."""
    ss = strdom.to_sstr(s)
    if ss is None:
        return None, None
    out, table = [], {}
    for seg in ss.segs:
        if isinstance(seg, str):
            out.append(seg)
        else:
            nm = f'__SYM{len(table)}__'
            table[nm] = seg
            out.append(nm)
    return ''.join(out), table


def _node_matches(node, want, table):
    """Does the parsed expression node denote the abstract value `want`?"""
    if isinstance(node, ast.Name) and node.id in table:
        seg = table[node.id]
        if isinstance(seg, strdom.Dec):
            return wire.value_equal(seg.v, want)
        if isinstance(seg, strdom.Flt):
            return seg.f is want
        if isinstance(seg, strdom.StrRepr):
            return seg.s is want
        return False
    if isinstance(node, ast.UnaryOp) and isinstance(node.op, ast.USub) and isinstance(node.operand, ast.Constant):
        return isinstance(want, (int, float)) and -node.operand.value == want
    if isinstance(node, ast.Constant):
        w = want.const if isinstance(want, AV) and want.is_const else want
        return type(node.value) is type(w) and node.value == w
    if isinstance(node, (ast.Tuple, ast.List)):
        items = want.items if isinstance(want, AList) else list(want) if isinstance(want, (tuple, list)) else None
        return items is not None and len(items) == len(node.elts) and all(_node_matches(n, w, table) for n, w in zip(node.elts, items))
    if isinstance(node, ast.Call):
        return _call_matches(node, want, table)
    return False


def _call_matches(node, obj, table):
    """node is ClassName(...) that would rebuild the abstract object."""
    if isinstance(obj, AList) and getattr(obj, 'cls', None) is not None:        # MidiTrack([...]) / MidiTrack()
        if not (isinstance(node.func, ast.Name) and node.func.id == obj.cls.name and not node.keywords):
            return False
        if not obj.items:
            return len(node.args) == 0 or (len(node.args) == 1 and isinstance(node.args[0], ast.List) and not node.args[0].elts)
        return len(node.args) == 1 and isinstance(node.args[0], ast.List) and len(node.args[0].elts) == len(obj.items) and \
            all(_node_matches(n, w, table) for n, w in zip(node.args[0].elts, obj.items))
    if not isinstance(obj, AObj) or obj.cls is None or not isinstance(node.func, ast.Name) or node.func.id != obj.cls.name:
        return False
    attrs = dict(obj.attrs)
    if obj.cls.name in ('UnknownMetaMessage', 'FrozenUnknownMetaMessage'):
        kw = {k.arg: k.value for k in node.keywords}
        if node.args or set(kw) != {'type_byte', 'data', 'time'}:
            return False
        return all(_node_matches(kw[k], attrs[k], table) for k in kw)
    if obj.cls.name == 'MidiFile':
        kw = {k.arg: k.value for k in node.keywords}
        ok = not node.args and _node_matches(kw.get('type'), attrs['type'], table) and _node_matches(kw.get('ticks_per_beat'), attrs['ticks_per_beat'], table)
        tr = attrs['tracks'].items
        if not tr:
            return ok and set(kw) == {'type', 'ticks_per_beat'}
        return ok and set(kw) == {'type', 'ticks_per_beat', 'tracks'} and isinstance(kw['tracks'], ast.List) and len(kw['tracks'].elts) == len(tr) \
            and all(_node_matches(n, w, table) for n, w in zip(kw['tracks'].elts, tr))
    # Message / MetaMessage and frozen variants: ClassName('type', name=value, ..., time=...)
    if len(node.args) != 1 or not isinstance(node.args[0], ast.Constant) or node.args[0].value != attrs.get('type'):
        return False
    kw = {k.arg: k.value for k in node.keywords}
    want = {k: v for k, v in attrs.items() if k != 'type'}
    return set(kw) == set(want) and all(_node_matches(kw[k], want[k], table) for k in kw)


def r14_repr_eval(ctx):
    """repr(x) is an expression that rebuilds x: the repr text is computed in the string domain, parsed with `ast`,
    and matched against the object's class and attributes (symbolic values as placeholders)."""
    ai = make_interp(ctx)
    cls = ctx.p.cls(MSG, 'Message')
    n = 0
    objs = []
    for status, t, names, ln in reference.MIDI_SPECS:
        if t == 'sysex':
            for k in (0, 1, 3):
                objs.append((f'Message(sysex[{k}])', lambda t=t, k=k: wire.make_message(ctx, t, {'data': AList([smf.sym(f'd{i}', 127) for i in range(k)], 'tuple')}, smf.sym('time', 10 ** 9))))
        else:
            objs.append((f'Message({t})', lambda t=t: wire.make_message(ctx, t, sample_attrs(t), strdom.FloatSym('time') if t == 'note_on' else smf.sym('time', 10 ** 9))))
    objs.append(('Message(negative const)', lambda: wire.make_message(ctx, 'pitchwheel', {'channel': 0, 'pitch': -8192}, -1.5)))
    objs.append(('MetaMessage(set_tempo)', lambda: wire.make_meta(ai, ctx, 'set_tempo', {'tempo': smf.sym('tempo', 0xffffff)}, smf.sym('time', 10 ** 9))))
    objs.append(('MetaMessage(track_name)', lambda: wire.make_meta(ai, ctx, 'track_name', {'name': wire.StrSym('N')}, 0)))
    objs.append(('MetaMessage(text literal)', lambda: wire.make_meta(ai, ctx, 'text', {'text': "it's"}, 0)))
    objs.append(('MetaMessage(key_signature)', lambda: wire.make_meta(ai, ctx, 'key_signature', {'key': 'F#m'}, 3)))
    objs.append(('MetaMessage(end_of_track)', lambda: wire.make_meta(ai, ctx, 'end_of_track', {}, smf.sym('time', 10 ** 9))))
    objs.append(('MetaMessage(smpte_offset)', lambda: wire.make_meta(ai, ctx, 'smpte_offset', {'frame_rate': 29.97, 'hours': 1, 'minutes': smf.sym('m', 59), 'seconds': 0, 'frames': 0, 'sub_frames': 0}, 0)))
    um = ctx.p.cls(wire.META_MOD, 'UnknownMetaMessage')
    objs.append(('UnknownMetaMessage', lambda: AObj(um, {'type': 'unknown_meta', 'type_byte': 0x60, 'data': AList([smf.sym('u0', 255), smf.sym('u1', 255)], 'tuple'), 'time': smf.sym('time', 10 ** 9)})))
    objs.append(('UnknownMetaMessage(empty)', lambda: AObj(um, {'type': 'unknown_meta', 'type_byte': 0x0a, 'data': (), 'time': 0})))
    fz = ctx.p.func('mido.frozen', 'freeze_message')

    def frozen(f):
        return lambda: ai.call_function(fz, [f()], {})
    objs.append(('FrozenMessage', frozen(objs[1][1])))
    objs.append(('FrozenMetaMessage', frozen(lambda: wire.make_meta(ai, ctx, 'set_tempo', {'tempo': smf.sym('tempo', 0xffffff)}, 0))))
    objs.append(('FrozenUnknownMetaMessage', frozen(lambda: AObj(um, {'type': 'unknown_meta', 'type_byte': 0x60, 'data': AList([smf.sym('u0', 255)], 'tuple'), 'time': 0}))))
    trk = ctx.p.cls(wire.TR_MOD, 'MidiTrack')

    def track(k):
        def f():
            r = AList([wire.make_message(ctx, 'note_on', {'channel': 0, 'note': smf.sym(f'n{i}', 127), 'velocity': 64}, smf.sym(f't{i}', 1000)) for i in range(k)], 'MidiTrack')
            r.cls = trk
            return r
        return f
    for k in (0, 1, 2, 3):
        objs.append((f'MidiTrack[{k} messages]', track(k)))
    mfc = ctx.p.cls(smf.MF, 'MidiFile')
    from ..fold import ClassRef as _CR
    for nt in (0, 1, 2):
        objs.append((f'MidiFile[{nt} tracks]', lambda nt=nt: ai.apply(_CR(mfc), [], {'type': 1, 'ticks_per_beat': smf.sym('tpb', 32766, 1),
                                                                                     'tracks': AList([track(2 - i)() for i in range(nt)], 'list')}, None)))
    # a file as loaded from an SMPTE-division header (a negative ticks_per_beat): the constructor repr names must accept what the
    # loader stores
    for tpb_ in (-6360, 1, 32767):
        objs.append((f'MidiFile[ticks_per_beat={tpb_}]', lambda tpb_=tpb_: ai.apply(_CR(mfc), [], {'type': 1, 'ticks_per_beat': tpb_,
                                                                                          'tracks': AList([track(1)()], 'list')}, None)))
    for label, factory in objs:
        n += 1
        holder = {}

        def thunk():
            o = factory()
            holder['o'] = o
            return strdom.render_repr(o, ai)
        outs = ai.explore(thunk)
        o = holder.get('o')
        c = getattr(o, 'cls', None)
        o2, rp = ctx.p.lookup_method(c, '__repr__') if c is not None else (None, None)
        w = ctx.where(rp) if rp is not None else 'mido: __repr__'
        cons = f'{rp.qname if rp else label}::evaluable'
        if len(outs) != 1 or outs[0].kind != 'return' or outs[0].value is None:
            ctx.fail('R14.1', f'eval(repr({label}))', w, f'repr cannot be computed: {outs}', construct=cons)
            continue
        src, table = _to_source(outs[0].value)
        ok = src is not None
        why = f'repr is {outs[0].value!r}'
        if ok:
            try:
                node = ast.parse(src, mode='eval').body
                ok = _node_matches(node, o, table)
                if not ok:
                    why = f'repr text {src!r} does not rebuild the object (class, attribute names or values differ)'
            except SyntaxError as e:
                ok = False
                why = f'repr text {src!r} is not a Python expression ({e.msg})'
        ctx.require(ok, 'R14.1', f'eval(repr({label}))', w, why, construct=cons)
    ctx.floor('R14.1-eval', n, 42)
    for q in ai.inlined:
        ctx.functions.add(q)


RULES.append(('R14-repr-eval', r14_repr_eval))


def r14_state(ctx):
    """The round trips above start from messages in canonical form (sysex data a SysexData tuple, every attribute present).
    That every entry point - constructor, copy, attribute assignment - leaves messages in that form is shared with C03 (R03.1,
    R03.3): a list stored as data would print the same and compare unequal to what parses back."""
    from . import c03
    ctx.borrow(c03.r03_3_setattr, 'R14.0')
    ctx.borrow(c03.r03_3_init, 'R14.0')
    ctx.borrow(c03.r03_3_copy, 'R14.0')
    # the same for meta messages (shared with C15 R15.5): an UnknownMetaMessage made without a payload has data == () in vars(),
    # as the one eval(repr(x)) builds
    from . import c15
    ctx.borrow(c15.r15_canonical, 'R14.0')
    # "raises ValueError for any text that is not a valid message" includes values outside the documented domains: the text
    # entry points go through the same checks as the constructor, and those accept exactly the documented values (shared with
    # C03 R03.2)
    ctx.borrow(c03.r03_2, 'R14.6')


RULES.append(('R14.0', r14_state))


def r14_refusals(ctx):
    """Text that is not a valid message is refused with ValueError - also where the refusal comes out of a number conversion:
    a fraction, an exponent, an infinity or a not-a-number for an integer attribute (int(float('inf')) raises OverflowError,
    which parse_string_stream does not catch: the stream would stop at that line instead of reporting it).  Shared with
    C03 R03.5, restricted to from_str."""
    from . import c03
    ctx.borrow(lambda c: c03.r03_5(c, parts=('str',)), 'R14.7')


RULES.append(('R14.7', r14_refusals))
