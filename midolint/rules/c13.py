"""C13 - playback timing follows the tempo map."""
from __future__ import annotations

import ast

from .. import astq, smf, wire
from ..absint import AbsRaise, AList, AObj, Opaque, log_event
from ..poly import Poly, Wrapped
from ..model import AnalysisError, unparse

LEVEL = 'other'
EXPLANATION = (
    'Symbolic evaluation in a polynomial domain over positive real symbols (ticks t_i, tempos M_k, ticks_per_beat B, '
    'clock readings c_i): MidiFile.__iter__ (with merged_track, merge_tracks and tick2second inlined) is abstractly '
    'interpreted on a track with two tempo changes, zero and non-zero deltas; each yielded time must be the monomial '
    't_i * M / (10^6 * B) with M the tempo in force *before* the message (500000 until the first set_tempo, a set_tempo '
    'applies only to later deltas), zero deltas give 0; length must be the sum of those; a type 2 file must refuse both.  '
    'play() is interpreted with a symbolic clock: the sleep argument must be (sum of message times so far) - (now() - start) '
    'with start read once, sleep only when positive, the message yielded after the sleep decision, meta messages only on '
    'request.  tick2second/second2tick/bpm2tempo/tempo2bpm are evaluated as monomials: second2tick(tick2second(t)) = '
    'int(round(t)), bpm2tempo(tempo2bpm(x)) = int(round(x)).  Floating point rounding of the cumulative sums is not decided.')
TRUSTED = ['midolint abstract interpreter with the polynomial domain (midolint.poly)', 'SMF default tempo 500000']
ASSUMPTIONS = ['all symbols are strictly positive reals; float rounding error (cumulative sums vs the exact integral, extreme tempos) is a '
               'numeric clause that no static argument in reach bounds - not decided']

MF = smf.MF
UNITS = 'mido.midifiles.units'


def P(name):
    return Poly.sym(name)


def _file(ctx, ai, type_, tracks, tpb):
    cls = ctx.p.cls(MF, 'MidiFile')
    from ..fold import ClassRef
    return ai.apply(ClassRef(cls), [], {'type': type_, 'ticks_per_beat': tpb, 'tracks': tracks}, None)


def _track(ai, ctx):
    n = lambda k: wire.make_message(ctx, 'note_on', {'channel': 0, 'note': k, 'velocity': 64}, None)   # noqa: E731
    msgs = []
    m = n(1); m.attrs['time'] = P('t1'); msgs.append(m)
    m = wire.make_meta(ai, ctx, 'set_tempo', {'tempo': smf.sym('M1', 0xffffff)}, P('t2')); msgs.append(m)
    m = n(2); m.attrs['time'] = P('t3'); msgs.append(m)
    m = wire.make_meta(ai, ctx, 'set_tempo', {'tempo': smf.sym('M2', 0xffffff)}, 0); msgs.append(m)
    m = n(3); m.attrs['time'] = 0; msgs.append(m)
    m = n(4); m.attrs['time'] = P('t4'); msgs.append(m)
    # a meta event of a type the library has no name for, with a delta of its own: its time is converted like any other
    from ..fold import ClassRef
    m = ai.apply(ClassRef(ctx.p.cls(wire.META_MOD, 'UnknownMetaMessage')), [0x60], {'data': AList([1, 2], 'tuple'), 'time': 0}, None)
    m.attrs['time'] = P('t6'); m.stores.clear(); msgs.append(m)
    m = wire.make_meta(ai, ctx, 'end_of_track', {}, P('t5')); msgs.append(m)
    return AList(msgs, 'MidiTrack')


def expected_times():
    B = P('B')
    d = lambda t, M: t.mul(M).mul(Poly.const(1e-6)).div(B)      # noqa: E731
    D = Poly.const(500000)
    return [d(P('t1'), D), d(P('t2'), D), d(P('t3'), P('M1')), Poly(), Poly(), d(P('t4'), P('M2')), d(P('t6'), P('M2')), d(P('t5'), P('M2'))]


def _as_poly(x):
    if isinstance(x, Poly):
        return x
    if isinstance(x, (int, float)) and not isinstance(x, bool):
        return Poly.const(x)
    return None


def r13_iter(ctx):
    ai = smf.make_interp(ctx)
    cls = ctx.p.cls(MF, 'MidiFile')
    o, it = ctx.p.lookup_method(cls, '__iter__')
    o, ln = ctx.p.lookup_method(cls, 'length')
    if it is None or ln is None:
        raise AnalysisError('MidiFile.__iter__/length not found')
    ctx.fn(it)
    ctx.fn(ln)
    w = ctx.where(it)
    exp = expected_times()
    for type_ in (0, 1):
        holder = {}

        def thunk():
            mf = _file(ctx, ai, type_, AList([_track(ai, ctx)], 'list'), P('B'))
            holder['mf'] = mf
            return ai.call_function(it, [mf], {})
        outs = ai.explore(thunk)
        inst = f'iter(type {type_})'
        cons = f'{it.qname}'
        if len(outs) != 1 or outs[0].kind != 'return' or not isinstance(outs[0].value, AList):
            ctx.fail('R13.1', inst, w, f'iteration does not complete on one path: {outs}' +
                     (' (undecided: ' + '; '.join(d[2] for o_ in outs for d in o_.decisions)[:200] + ')' if any(o_.decisions for o_ in outs) else ''),
                     construct=cons + '::outcomes')
            continue
        items = outs[0].value.items
        ctx.require(len(items) == len(exp), 'R13.1', f'{inst}.count', w, f'{len(items)} messages yielded for {len(exp)} in the track', construct=cons + '::count')
        labels = ['note before any tempo', 'first set_tempo itself', 'note after first set_tempo', 'second set_tempo at delta 0',
                  'note at delta 0', 'note after second set_tempo', 'unknown meta event', 'end_of_track']
        for i, (x, e) in enumerate(zip(items, exp)):
            t = _as_poly(x.attrs.get('time')) if isinstance(x, AObj) else None
            ok = t is not None and t.close_to(e)
            rule = 'R13.5' if not e.terms else 'R13.1'
            ctx.require(ok, rule, f'{inst}.time[{labels[i]}]', w,
                        f'{labels[i]}: yielded time is {x.attrs.get("time") if isinstance(x, AObj) else x!r}, the tempo map gives {e!r}',
                        construct=cons + f'::time({labels[i]})')
        # originals untouched (copies are yielded)
        src = holder['mf'].attrs['tracks'].items[0].items
        ctx.require(all(not m.stores for m in src) and all(not any(y is m for m in src) for y in items), 'R16.2', f'{inst}.copies', w,
                    'iteration yields or modifies the stored messages instead of copies', construct=cons + '::copies')
        # length = sum of the yielded times
        outs2 = ai.explore(lambda: ai.call_function(ln, [_file(ctx, ai, type_, AList([_track(ai, ctx)], 'list'), P('B'))], {}))
        tot = Poly()
        for e in exp:
            tot = tot.add(e)
        ok = len(outs2) == 1 and outs2[0].kind == 'return' and _as_poly(outs2[0].value) is not None and _as_poly(outs2[0].value).close_to(tot)
        ctx.require(ok, 'R13.3', f'length(type {type_})', ctx.where(ln), f'length is {outs2}, the cumulative time of the last message is {tot!r}',
                    construct=f'{ln.qname}::sum')
    # type 2 refuses both
    # (whatever it holds: tracks with messages, no track at all, tracks without messages)
    contents = (('one track', lambda: [_track(ai, ctx)]), ('no tracks', lambda: []), ('an empty track', lambda: [AList([], 'MidiTrack')]),
                ('two empty tracks', lambda: [AList([], 'MidiTrack'), AList([], 'MidiTrack')]),
                ('an empty and a full track', lambda: [AList([], 'MidiTrack'), _track(ai, ctx)]))
    for fn, label in ((it, 'iteration'), (ln, 'length')):
        for cname, mk in contents:
            outs = ai.explore(lambda: ai.call_function(fn, [_file(ctx, ai, 2, AList(mk(), 'list'), P('B'))], {}))
            ok = bool(outs) and all(o_.kind == 'raise' and o_.exc in ('TypeError', 'ValueError') and not any(e[0] == 'yield' for e in o_.log) for o_ in outs)
            ctx.require(ok, 'R13.3', f'type2.{label}({cname})', ctx.where(fn), f'a type 2 file ({cname}) must refuse {label}: {outs}',
                        construct=f'{fn.qname}::type2')
    dt = ctx.f.table(MF, 'DEFAULT_TEMPO')
    ctx.require(dt == 500000, 'R13.1', 'DEFAULT_TEMPO', f'{it.module.relpath}:1 DEFAULT_TEMPO', f'default tempo is {dt}, SMF says 500000 us per beat',
                construct=f'{it.module.relpath}::DEFAULT_TEMPO')
    for q in ai.inlined:
        ctx.functions.add(q)


def r13_units(ctx):
    ai = smf.make_interp(ctx)
    t2s = ctx.fn(ctx.p.func(UNITS, 'tick2second'))
    s2t = ctx.fn(ctx.p.func(UNITS, 'second2tick'))
    b2t = ctx.fn(ctx.p.func(UNITS, 'bpm2tempo'))
    t2b = ctx.fn(ctx.p.func(UNITS, 'tempo2bpm'))
    T, B, M, S = P('T'), P('B'), P('M'), P('S')
    o = ai.explore(lambda: ai.call_function(t2s, [T, B, M], {}))
    want = T.mul(M).mul(Poly.const(1e-6)).div(B)
    ok = len(o) == 1 and o[0].kind == 'return' and isinstance(o[0].value, Poly) and o[0].value.close_to(want)
    ctx.require(ok, 'R13.2', 'tick2second', ctx.where(t2s), f'tick2second(T, B, M) = {o}, expected {want!r}', construct=f'{t2s.qname}::monomial')
    o = ai.explore(lambda: ai.call_function(s2t, [S, B, M], {}))
    want = S.mul(B).mul(Poly.const(1e6)).div(M)
    v = o[0].value if len(o) == 1 and o[0].kind == 'return' else None
    ok = isinstance(v, Wrapped) and v.fn == 'int' and isinstance(v.arg, Wrapped) and v.arg.fn == 'round' and isinstance(v.arg.arg, Poly) \
        and v.arg.arg.close_to(want)
    ctx.require(ok, 'R13.2', 'second2tick', ctx.where(s2t),
                f'second2tick(S, B, M) = {o}, expected int(round({want!r})) (truncation alone loses ticks to float error)', construct=f'{s2t.qname}::monomial')
    # inverse on ticks: second2tick(tick2second(T)) = int(round(T))
    def thunk():
        s = ai.call_function(t2s, [T, B, M], {})
        return ai.call_function(s2t, [s, B, M], {})
    o = ai.explore(thunk)
    v = o[0].value if len(o) == 1 and o[0].kind == 'return' else None
    ok = isinstance(v, Wrapped) and v.fn == 'int' and isinstance(v.arg, Wrapped) and v.arg.fn == 'round' and isinstance(v.arg.arg, Poly) \
        and v.arg.arg.close_to(T)
    ctx.require(ok, 'R13.2', 'second2tick(tick2second)', ctx.where(s2t), f'second2tick(tick2second(T)) = {o}, expected int(round(T))',
                construct=f'{s2t.qname}::inverse')
    X = P('X')
    o = ai.explore(lambda: ai.call_function(t2b, [X], {}))
    want = Poly.const(6e7).div(X)
    ok = len(o) == 1 and o[0].kind == 'return' and isinstance(o[0].value, Poly) and o[0].value.close_to(want)
    ctx.require(ok, 'R13.2', 'tempo2bpm', ctx.where(t2b), f'tempo2bpm(X) = {o}, expected {want!r}', construct=f'{t2b.qname}::monomial')
    o = ai.explore(lambda: ai.call_function(b2t, [X], {}))
    v = o[0].value if len(o) == 1 and o[0].kind == 'return' else None
    ok = isinstance(v, Wrapped) and v.fn == 'int' and isinstance(v.arg, Wrapped) and v.arg.fn == 'round' and isinstance(v.arg.arg, Poly) \
        and v.arg.arg.close_to(want)
    ctx.require(ok, 'R13.2', 'bpm2tempo', ctx.where(b2t), f'bpm2tempo(X) = {o}, expected int(round({want!r}))', construct=f'{b2t.qname}::monomial')
    # time signature scaling: (n, 8) doubles the tempo value
    o = ai.explore(lambda: ai.call_function(t2b, [X, (6, 8)], {}))
    want8 = Poly.const(1.2e8).div(X)
    ok = len(o) == 1 and o[0].kind == 'return' and isinstance(o[0].value, Poly) and o[0].value.close_to(want8)
    ctx.require(ok, 'R13.2', 'tempo2bpm(6/8)', ctx.where(t2b), f'{o} expected {want8!r}', construct=f'{t2b.qname}::time-signature')


def r13_play(ctx):
    ai = smf.make_interp(ctx)
    cls = ctx.p.cls(MF, 'MidiFile')
    o, play = ctx.p.lookup_method(cls, 'play')
    if play is None:
        raise AnalysisError('MidiFile.play not found')
    ctx.fn(play)
    w = ctx.where(play)
    clock = {'n': 0}

    def now(interp, args, kwargs, node):
        c = P(f'c{clock["n"]}')
        if clock['n'] == 0 and clock.get('zero'):
            c = 0.0                 # a clock that reads exactly zero when playback starts (a stream position, a simulated clock)
        log_event('now', clock['n'])
        clock['n'] += 1
        return c
    ai.summaries['test.now'] = now
    from ..fold import ExtRef

    def s_sleep(interp, args, kwargs, node):
        log_event('sleep', args[0] if args else None)
        if args and isinstance(args[0], (int, float)) and not isinstance(args[0], bool):
            clock['slept'] = clock.get('slept', 0.0) + args[0]
        return None
    ai.summaries['time.sleep'] = s_sleep
    B = P('B')
    D = Poly.const(500000)
    d1 = P('t1').mul(D).mul(Poly.const(1e-6)).div(B)
    d2 = P('t2').mul(D).mul(Poly.const(1e-6)).div(B)
    for meta_on, zero in ((False, False), (True, False), (False, True), (True, True)):
        def thunk():
            clock['n'] = 0
            clock['zero'] = zero
            a = wire.make_message(ctx, 'note_on', {'channel': 0, 'note': 1, 'velocity': 64}, None)
            a.attrs['time'] = P('t1')
            b = wire.make_meta(ai, ctx, 'marker', {'text': 'x'}, P('t2'))
            mf = _file(ctx, ai, 1, AList([AList([a, b], 'MidiTrack')], 'list'), B)
            return ai.call_function(play, [mf], {'meta_messages': meta_on, 'now': ExtRef('test.now')})
        outs = ai.explore(thunk, limit=64)
        inst = f'play(meta_messages={meta_on}{", clock reads 0.0 at the start" if zero else ""})'
        c0 = Poly.const(0) if zero else P('c0')
        cons = f'{play.qname}'
        if not outs or not all(o_.kind == 'return' for o_ in outs):
            ctx.fail('R13.4', inst, w, f'play outcomes: {outs}', construct=cons + '::outcomes')
            continue
        # every outcome (= pattern of sleep / no sleep decisions) must use the right sleep arguments
        ok_all = True
        why = ''
        for oc in outs:
            log = oc.log
            nows = [e for e in log if e[0] == 'now']
            # events in order: now(0) start; per message: now(k) ... [sleep] ... yield
            sleeps = [e for e in log if e[0] == 'sleep']
            # expected sleep arguments
            exp1 = d1.sub(P('c1').sub(c0))
            exp2 = d1.add(d2).sub(P('c2').sub(c0))
            exp3 = d1.add(d2).sub(P('c3').sub(c0))
            # every wait is "scheduled time of a message, minus the time that has passed since the start": the elapsed time is taken
            # from the latest clock reading before the wait (whichever reading that is - a loop that does not look at the clock
            # for messages it passes over is as good), the scheduled time is that of one of the three messages
            for pos_, sl in enumerate(log):
                if sl[0] != 'sleep':
                    continue
                arg = sl[1]
                j_ = sum(1 for e_ in log[:pos_] if e_[0] == 'now') - 1
                latest = P(f'c{j_}') if j_ >= 1 else None
                cands = [cum.sub(latest.sub(c0)) for cum in (d1, d1.add(d2))] if latest is not None else []
                if not isinstance(arg, Poly) or not any(arg.close_to(c_) for c_ in cands):
                    ok_all = False
                    why = f'sleep({arg!r}); the remaining time is {exp1!r} resp. {exp2!r} (schedule relative to the start time, not the previous message)'
            # the start time is read once, before anything is waited for or handed out, and the clock is looked at before every
            # message that is handed out
            first_other = next((i for i, e_ in enumerate(log) if e_[0] in ('sleep',)), len(log))
            n_yield = len([x for x in (oc.value.items if isinstance(oc.value, AList) else []) if isinstance(x, AObj)])
            if not nows or log.index(nows[0]) > first_other or len(nows) < 1 + n_yield:
                ok_all = False
                why = why or f'{len(nows)} clock readings for {n_yield} messages handed out (one for the start and one before each message expected)'
            ys = [e for e in log if e[0] == 'yield' and isinstance(e[1], AObj) and e[1].attrs.get('type') in ('note_on', 'marker')
                  and isinstance(e[1].attrs.get('time'), Poly) and e[1].attrs.get('time').close_to(d1) or
                  (e[0] == 'yield' and isinstance(e[1], AObj) and e[1].attrs.get('type') == 'marker')]
            vals = oc.value.items if isinstance(oc.value, AList) else []
            types = [x.attrs.get('type') for x in vals if isinstance(x, AObj)]
            want_types = ['note_on', 'marker', 'end_of_track'] if meta_on else ['note_on']
            if types != want_types:
                ok_all = False
                why = why or f'play yields {types}, expected {want_types}'
            # play() yields the messages iteration yields: each with the time iteration gives it (the seconds since the previous
            # event of the file, yielded or not) - what is filtered out is not added to its neighbour
            want_times = [d1, d2, Poly.const(0)] if meta_on else [d1]
            got_times = [x.attrs.get('time') for x in vals if isinstance(x, AObj)]
            if len(got_times) == len(want_times) and not all((isinstance(g, Poly) and g.close_to(wt)) or (not isinstance(g, Poly) and wt.close_to(Poly.const(g if isinstance(g, (int, float)) else 1e99)))
                                                            for g, wt in zip(got_times, want_times)):
                ok_all = False
                why = why or f'the yielded messages carry the times {got_times}; iteration gives them {want_times}'
            # the yield of the note comes after its sleep decision: position of first sleep (if any with exp1) before first yield from play
            idx_y = next((i for i, e in enumerate(log) if e[0] == 'yield' and isinstance(e[1], AObj) and e[1].attrs.get('type') == 'note_on'
                          and i > next((j for j, x in enumerate(log) if x[0] == 'now' and x[1] == 1), 0)), None)
            idx_s = next((i for i, e in enumerate(log) if e[0] == 'sleep' and isinstance(e[1], Poly) and e[1].close_to(exp1)), None)
            if idx_s is not None and idx_y is not None and idx_s > idx_y:
                ok_all = False
                why = why or 'the message is yielded before the sleep that waits for its scheduled time'
        # some outcome must sleep for message 1 and some must not (decision on the sign), i.e. sleep is guarded by > 0
        slept = [any(e[0] == 'sleep' for e in oc.log) for oc in outs]
        if not (any(slept) and not all(slept)):
            ok_all = False
            why = why or 'sleep is not conditional on the remaining time being positive'
        # every message that is handed out has its scheduled time waited for - meta messages too when they are yielded:
        # for each of the three messages some outcome must sleep for exactly its remaining time
        exp = [d1.sub(P('c1').sub(c0)), d1.add(d2).sub(P('c2').sub(c0)), d1.add(d2).sub(P('c3').sub(c0))]
        cums = [d1, d1.add(d2), d1.add(d2)]
        for k, (ek, what) in enumerate(zip(exp, ('the note_on', 'the marker (a meta message)', 'the closing end_of_track'))):
            if k > 0 and not meta_on:
                continue            # a message that is not handed out need not be waited for (the next one has its own schedule)
            hit = any(e[0] == 'sleep' and isinstance(e[1], Poly) and any(e[1].close_to(cums[k].sub(P(f'c{j}').sub(c0))) for j in range(1, 8))
                      for oc in outs for e in oc.log)
            if not hit and ok_all:
                ok_all = False
                why = f'no execution waits for the scheduled time of {what}: it is handed out (or passed over) the moment its predecessor was - before its time'
        ctx.require(ok_all, 'R13.4', inst, w, why, construct=cons + f'::schedule(meta={meta_on}{", zero clock" if zero else ""})')
    # a note behind a meta message that is filtered out: the note is yielded with its own time, as iteration gives it - the time
    # of the message that was passed over is not added to it (message equality includes the time)
    def thunk_f():
        clock['n'] = 0
        clock['zero'] = False
        mk = wire.make_meta(ai, ctx, 'marker', {'text': 'x'}, P('t1'))
        nt = wire.make_message(ctx, 'note_on', {'channel': 0, 'note': 1, 'velocity': 64}, None)
        nt.attrs['time'] = P('t2')
        mf = _file(ctx, ai, 1, AList([AList([mk, nt], 'MidiTrack')], 'list'), B)
        return ai.call_function(play, [mf], {'now': ExtRef('test.now')})
    outs = ai.explore(thunk_f, limit=64)
    ok = bool(outs) and all(o_.kind == 'return' for o_ in outs)
    why = f'{outs}'
    if ok:
        for oc in outs:
            vals = oc.value.items if isinstance(oc.value, AList) else []
            times = [x.attrs.get('time') for x in vals if isinstance(x, AObj)]
            if len(times) != 1 or not (isinstance(times[0], Poly) and times[0].close_to(d2)):
                ok = False
                why = f'play() of [marker after t1 ticks, note_on after t2 more] yields messages with the times {times}; the note carries {d2!r} in iteration'
            # ... and it is waited for until ITS time: the ticks of the marker that was passed over count (whether or not the marker's
            # own time was waited for on the way)
            for pos_, sl in enumerate(oc.log):
                if sl[0] != 'sleep':
                    continue
                j_ = sum(1 for e_ in oc.log[:pos_] if e_[0] == 'now') - 1
                cands = [cum.sub(P(f'c{j_}').sub(P('c0'))) for cum in (d1, d1.add(d2))] if j_ >= 1 else []
                if not isinstance(sl[1], Poly) or not any(sl[1].close_to(c_) for c_ in cands):
                    ok = False
                    why = f'play() of [marker after t1 ticks, note_on after t2 more] waits sleep({sl[1]!r}); the note is due {d1.add(d2)!r} after the start'
        slept_for_note = any(e_[0] == 'sleep' and isinstance(e_[1], Poly) and any(e_[1].close_to(d1.add(d2).sub(P(f'c{j}').sub(P('c0')))) for j in range(1, 6))
                             for oc in outs for e_ in oc.log)
        if ok and not slept_for_note:
            ok = False
            why = 'no execution waits for the scheduled time of the note behind the filtered marker'
    ctx.require(ok, 'R13.4', 'play(): the time of a message behind a filtered meta message', w, why, construct=f'{play.qname}::yielded-time')
    # "sleeping exactly the remaining time", however little remains: with concrete numbers - one tick at 960 ticks per beat and
    # 120 bpm is 0.52 ms, two ticks at 480 and 300 bpm are 0.83 ms, one tick at 30000 ticks per beat is 17 microseconds - and a clock that moves only while the player sleeps, the one message is waited for
    # by exactly that long (a threshold other than "> 0" on the remaining time hands such a message out early)
    for tpb_, tempo_, ticks_ in ((960, 500000, 1), (480, 200000, 2), (480, 500000, 1), (96, 500000, 3), (30000, 500000, 1), (480, 1000, 1)):
        due = ticks_ * tempo_ * 1e-6 / tpb_

        def still(interp, args, kwargs, node):
            log_event('now', 0)
            return 10.0 + clock.get('slept', 0.0)          # (time passes only while the player sleeps)
        ai.summaries['test.still'] = still

        def thunk_c():
            clock['slept'] = 0.0
            msgs = []
            if tempo_ != 500000:
                msgs.append(wire.make_meta(ai, ctx, 'set_tempo', {'tempo': tempo_}, 0))
            nt = wire.make_message(ctx, 'note_on', {'channel': 0, 'note': 1, 'velocity': 64}, None)
            nt.attrs['time'] = ticks_
            msgs.append(nt)
            mf = _file(ctx, ai, 1, AList([AList(msgs, 'MidiTrack')], 'list'), tpb_)
            return ai.call_function(play, [mf], {'now': ExtRef('test.still')})
        outs = ai.explore(thunk_c, limit=16)
        ok = len(outs) == 1 and outs[0].kind == 'return'
        sl = [e_[1] for e_ in outs[0].log if e_[0] == 'sleep'] if ok else []
        ok = ok and len(sl) >= 1 and all(isinstance(x, (int, float)) for x in sl) and abs(sl[0] - due) < 1e-9 * due \
            and all(abs(x) < 1e-9 for x in sl[1:])            # (a rounding residue may be waited for at the closing end_of_track)
        ctx.require(ok, 'R13.4', f'play(): one note {ticks_} tick(s) in at {tpb_} ticks per beat and tempo {tempo_}, time passes only in sleep()', w,
                    f'sleeps {sl if len(outs) == 1 else outs}; the note is due {due * 1000:.3f} ms after the start and must be waited for by exactly that',
                    construct=f'{play.qname}::short-wait({tpb_},{tempo_},{ticks_})')
    for q in ai.inlined:
        ctx.functions.add(q)


def r13_premises(ctx):
    """Timing is computed over the merged track of the file's current contents: the merge puts every event at its absolute
    tick in (tick, track, index) order (shared with C12) and is recomputed from the tracks as they are now (shared with C16)."""
    from . import c12, c16
    ctx.borrow(c12.r12_scenarios, 'R13.0')
    ctx.borrow(c16.r16_1, 'R13.0')
    ctx.borrow(c16.r16_3, 'R13.0')


def r13_length_layouts(ctx):
    """length is the cumulative time of the last message of the iteration - wherever the tempo changes sit.  The tempo map of
    a type 1 file is the merge of ALL tracks: a set_tempo in the second or third track, behind an empty first track, or in
    several tracks at once applies to the deltas after it exactly as in iteration.  Concrete small files (the merge has to
    order the events), each decided by interpreting __iter__ and length on the same contents and comparing both with the
    tempo-map integral computed here."""
    ai = smf.make_interp(ctx)
    cls = ctx.p.cls(MF, 'MidiFile')
    o, it = ctx.p.lookup_method(cls, '__iter__')
    o, ln = ctx.p.lookup_method(cls, 'length')
    if it is None or ln is None:
        raise AnalysisError('MidiFile.__iter__/length not found')
    ctx.fn(it)
    ctx.fn(ln)

    def build(spec):
        out = []
        for kind, delta, val in spec:
            if kind == 'n':
                m = wire.make_message(ctx, 'note_on', {'channel': 0, 'note': val, 'velocity': 64}, None)
                m.attrs['time'] = delta
            elif kind == 't':
                m = wire.make_meta(ai, ctx, 'set_tempo', {'tempo': val}, delta)
            else:
                m = wire.make_meta(ai, ctx, 'end_of_track', {}, delta)
            m.stores.clear()
            out.append(m)
        return AList(out, 'MidiTrack')

    def integral(tracks, tpb):
        ev = []
        for ti, tr in enumerate(tracks):
            now = 0
            for mi, (kind, delta, val) in enumerate(tr):
                now += delta
                if kind != 'e':
                    ev.append((now, ti, mi, kind, val))
        end = max([sum(d for _, d, _ in tr) for tr in tracks] or [0])
        ev.sort(key=lambda e: e[0])         # stable: ties in track order, then in-track order
        tempo, last, tot = 500000, 0, 0.0
        for now, ti, mi, kind, val in ev + [(end, 0, 0, 'e', None)]:
            tot += (now - last) * tempo * 1e-6 / tpb
            last = now
            if kind == 't':
                tempo = val
        return tot

    layouts = {
        'set_tempo in the second track only': [[('n', 10, 1), ('e', 40, None)], [('t', 4, 250000), ('n', 20, 2), ('e', 0, None)]],
        'set_tempo in the third track, first track empty': [[], [('n', 30, 1), ('e', 0, None)], [('t', 10, 1000000), ('e', 0, None)]],
        'set_tempo in the first and in the second track': [[('t', 5, 250000), ('n', 30, 1), ('e', 0, None)], [('n', 2, 2), ('t', 18, 750000), ('e', 40, None)]],
        'set_tempo in the first track only, longest track is the second': [[('t', 8, 200000), ('e', 0, None)], [('n', 60, 1), ('e', 4, None)]],
        'no set_tempo at all, two tracks': [[('n', 7, 1), ('e', 0, None)], [('n', 3, 2), ('e', 30, None)]],
        'one track whose set_tempo comes last': [[('n', 12, 1), ('t', 12, 100000), ('e', 0, None)]],
    }
    n = 0
    for name, tracks in layouts.items():
        for type_ in ((0, 1) if len(tracks) == 1 else (1,)):
            mk = lambda: _file(ctx, ai, type_, AList([build(t) for t in tracks], 'list'), 100)      # noqa: E731
            outs = ai.explore(lambda: ai.call_function(it, [mk()], {}))
            outs2 = ai.explore(lambda: ai.call_function(ln, [mk()], {}))
            n += 1
            want = integral(tracks, 100)
            inst = f'length[{name}, type {type_}]'
            if len(outs) != 1 or outs[0].kind != 'return' or not isinstance(outs[0].value, AList):
                ctx.fail('R13.6', inst, ctx.where(it), f'iteration does not complete on one path: {outs}', construct=f'{it.qname}::layout-outcomes')
                continue
            times = [_as_poly(x.attrs.get('time')) if isinstance(x, AObj) else None for x in outs[0].value.items]
            cum = Poly()
            for t in times:
                cum = cum.add(t) if t is not None else cum
            ok_it = all(t is not None for t in times) and cum.close_to(Poly.const(want))
            ctx.require(ok_it, 'R13.6', f'{inst}.iteration', ctx.where(it),
                        f'the yielded times add up to {cum!r}; the tempo map of all tracks gives {want!r}', construct=f'{it.qname}::layout-sum')
            got = _as_poly(outs2[0].value) if len(outs2) == 1 and outs2[0].kind == 'return' else None
            ctx.require(got is not None and got.close_to(Poly.const(want)), 'R13.6', inst, ctx.where(ln),
                        f'length is {outs2}; the cumulative time of the last message is {want!r}', construct=f'{ln.qname}::layout-length')
    ctx.floor('R13.6', n, 7)
    for q in ai.inlined:
        ctx.functions.add(q)


RULES = [('R13.6', r13_length_layouts), ('R13-iter', r13_iter), ('R13-units', r13_units), ('R13-play', r13_play), ('R13.0', r13_premises)]
