"""C19 - SYX files round-trip sysex messages."""
from __future__ import annotations

import ast
import re

from .. import astq, smf, strdom, wire
from ..absint import _NO, AbsRaise, AList, AObj, Opaque
from ..bits import AV
from ..model import AnalysisError, unparse
from . import c08

LEVEL = 'other'
EXPLANATION = (
    'write_syx_file and read_syx_file are abstractly interpreted on a file double (open() is a summary that records writes and '
    'serves them back), with message lists that mix sysex messages of 0, 1 and 3 symbolic payload bytes with other messages: '
    'in binary mode the bytes written are served to the reader, whose Parser/Tokenizer/Message.from_bytes chain is interpreted; '
    'in text mode message.hex() is evaluated in the symbolic string domain (two-hex-digit segments per symbolic byte) and the text '
    'is served back through decode / whitespace substitution / bytearray.fromhex.  The list read back must be exactly the sysex '
    'messages, in order, with equal data; an empty list or a list without sysex gives an empty file and reads back as []; hex text '
    'with other whitespace layouts parses to the same messages; text that is not two-digit hex raises ValueError; the format is '
    'detected from the first byte (0xF0) after the empty-file guard.')
TRUSTED = ['midolint abstract interpreter, string domain, file double in midolint/rules/c19.py', 'C04/C06 for the parser, C01 for hex()/bin()',
           'bytearray.fromhex semantics (two hex digits per byte, ASCII whitespace skipped)']
ASSUMPTIONS = ['file system behaviour is not modelled']

SYX = 'mido.syx'


class EncodedText:
    """bytes of a text file whose characters are (partly symbolic) latin-1 text."""
    py_type = 'bytes'         # what isinstance() sees: the content of a file opened in binary mode

    def __init__(self, text):
        self.text = text          # str | SStr

    def absint_len(self):
        t = self.text
        if isinstance(t, str):
            return len(t)
        # every symbolic segment has at least one character
        n = sum(len(s) if isinstance(s, str) else 1 for s in t.segs)
        return n if t.is_literal() else max(n, 1) + 10 ** 6      # "some positive length"

    def absint_index(self, interp, idx, node):
        t = self.text
        first = t[:1] if isinstance(t, str) else (t.segs[0][:1] if t.segs and isinstance(t.segs[0], str) else None)
        if idx == 0 and first:
            return ord(first)
        if idx == 0 and first == '':
            raise AbsRaise('IndexError', node, implicit=True)
        return Opaque('byte of symbolic text')

    def __repr__(self):
        return f'enc({self.text!r})'


class SyxFile:
    def __init__(self, fs, name, mode):
        self.fs, self.name, self.mode = fs, name, mode
        if 'w' in mode:
            fs[name] = {'mode': mode, 'chunks': []}


def make_interp(ctx):
    ai = c08.strict_interp(ctx)
    strdom.install(ai)
    fs = {}
    ai.fs = fs

    def s_open(interp, args, kwargs, node):
        name = args[0]
        mode = args[1] if len(args) > 1 else kwargs.get('mode', 'r')
        if 'w' not in mode and name not in fs:
            raise AbsRaise('FileNotFoundError', node)
        return SyxFile(fs, name, mode)
    ai.builtin_summaries['open'] = s_open

    def hook(interp, base, name, args, kwargs, node):
        if isinstance(base, SyxFile):
            ent = base.fs[base.name]
            if name == 'write':
                ent['chunks'].append(args[0])
                return None
            if name == 'writelines':
                for it in interp.iterate(args[0], node, keep_vars=True):
                    ent['chunks'].append(it)
                return None
            if name == 'read':
                chunks = ent['chunks']
                if 'b' in ent['mode']:
                    items = []
                    for c in chunks:
                        if isinstance(c, AList):
                            items.extend(c.items)
                        elif isinstance(c, (bytes, bytearray)):
                            items.extend(c)
                        else:
                            return Opaque('binary file holding non-bytes')
                    if 'b' in base.mode:
                        return AList(items, 'bytes')
                    return Opaque('binary file opened as text')
                text = strdom.norm(strdom.SStr([strdom.to_sstr(c) if strdom.to_sstr(c) is not None else Opaque('x') for c in chunks])) \
                    if all(strdom.to_sstr(c) is not None for c in chunks) else None
                if text is None:
                    return Opaque('text file holding non-text')
                return EncodedText(text) if 'b' in base.mode else text
            if name in ('close', 'flush', '__enter__', '__exit__'):
                return None
            return Opaque(f'file.{name}')
        if isinstance(base, EncodedText) and name == 'decode':
            # the bytes are latin-1 text: a single-byte codec gives the characters back; a stricter codec (ascii, utf-8)
            # refuses the bytes above 0x7f - unless told to drop or replace them, which changes the text
            codec = args[0] if args else kwargs.get('encoding', 'utf-8')
            errors = args[1] if len(args) > 1 else kwargs.get('errors', 'strict')
            if not isinstance(codec, str) or not isinstance(errors, str):
                return Opaque('decode with a symbolic codec')
            lit = [s for s in ([base.text] if isinstance(base.text, str) else base.text.segs) if isinstance(s, str)]
            high = any(ord(ch) > 0x7f for s in lit for ch in s)
            c_ = codec.lower().replace('_', '-')
            if c_ in ('latin1', 'latin-1', 'iso-8859-1', 'iso8859-1', 'l1', '8859', 'cp819', 'latin') or not high:
                return base.text
            if c_ not in ('ascii', 'us-ascii', 'utf-8', 'utf8'):
                return Opaque(f'decode({codec})')
            if errors == 'strict':
                raise AbsRaise('UnicodeDecodeError', node, implicit=True)
            conv = (lambda ch: '') if errors == 'ignore' else (lambda ch: '\ufffd')
            fix = lambda s_: ''.join(ch if ord(ch) <= 0x7f else conv(ch) for ch in s_)      # noqa: E731
            if isinstance(base.text, str):
                return fix(base.text)
            return strdom.norm(strdom.SStr([fix(s_) if isinstance(s_, str) else s_ for s_ in base.text.segs]))
        if isinstance(base, EncodedText) and name == 'translate' and len(args) == 1 and not kwargs:
            # a 256-entry byte translation table applied to latin-1 text: character for character on the literal parts; the
            # symbolic parts are hex digits, which the table has to leave alone for this to be decided
            tb = args[0]
            tbl = list(tb.items) if isinstance(tb, AList) and not tb.has_var() else (list(tb) if isinstance(tb, (bytes, bytearray)) else None)
            if tbl is None or len(tbl) != 256 or not all(isinstance(x, int) for x in tbl) or any(tbl[ord(ch)] != ord(ch) for ch in '0123456789abcdefABCDEF'):
                return Opaque('bytes.translate with a table that is not a constant leaving hex digits alone')
            conv_t = lambda s_: ''.join(chr(tbl[ord(ch)]) if ord(ch) < 256 else ch for ch in s_)      # noqa: E731
            if isinstance(base.text, str):
                return EncodedText(conv_t(base.text))
            return EncodedText(strdom.norm(strdom.SStr([conv_t(s_) if isinstance(s_, str) else s_ for s_ in base.text.segs])))
        if isinstance(base, EncodedText) and name == 'startswith' and len(args) == 1 and isinstance(args[0], (bytes, bytearray)) and len(args[0]) == 1:
            if base.absint_len() == 0:
                return False
            first = base.absint_index(interp, 0, node)
            return first == args[0][0] if isinstance(first, int) else interp.decide(node, 'first byte of symbolic text')
        return _NO
    ai.method_hooks.insert(0, hook)

    def s_resub(interp, args, kwargs, node):
        pat, repl, text = args[0], args[1], args[2]
        ss = strdom.to_sstr(text)
        if ss is None or not isinstance(pat, str) or not isinstance(repl, str):
            return Opaque('re.sub')
        try:
            rx = re.compile(pat)
        except re.error:
            return Opaque('re.sub pattern')
        # only patterns that cannot match inside a symbolic segment (hex digits) are supported
        if rx.search('0123456789abcdefABCDEF'):
            return Opaque('re.sub pattern may match symbolic text')
        return strdom.norm(strdom.SStr([rx.sub(repl, s) if isinstance(s, str) else s for s in ss.segs]))
    ai.summaries['re.sub'] = s_resub
    return ai


def sysex(ctx, tag, k):
    return wire.make_message(ctx, 'sysex', {'data': AList([smf.sym(f'{tag}{i}', 127) for i in range(k)], 'tuple')}, 0)


def _frozen(ctx, msg):
    msg.cls = ctx.p.cls('mido.frozen', 'FrozenMessage')
    return msg


def _timed(msg, t):
    msg.attrs['time'] = t
    return msg


def r19_roundtrip(ctx):
    m = ctx.p.module(SYX)
    wr = m.functions.get('write_syx_file')
    rd = m.functions.get('read_syx_file')
    if wr is None or rd is None:
        raise AnalysisError('read_syx_file/write_syx_file not found')
    ctx.fn(wr)
    ctx.fn(rd)
    w = ctx.where(rd)
    n = 0
    lists = {
        'mixed': lambda: [sysex(ctx, 'a', 3), wire.make_message(ctx, 'note_on', {'channel': 1, 'note': 2, 'velocity': 3}, 0), sysex(ctx, 'b', 0),
                          wire.make_message(ctx, 'clock', {}, 0), sysex(ctx, 'c', 1)],
        'single-empty-payload': lambda: [sysex(ctx, 'a', 0)],
        'two-adjacent': lambda: [sysex(ctx, 'a', 1), sysex(ctx, 'b', 3)],
        'no-sysex': lambda: [wire.make_message(ctx, 'note_on', {'channel': 1, 'note': 2, 'velocity': 3}, 0)],
        'empty-list': lambda: [],
        # a sysex message is one whatever class of message object carries it: frozen ones (what a set or a dictionary of
        # messages holds) are written like the others
        'frozen-and-plain': lambda: [_frozen(ctx, sysex(ctx, 'a', 2)), sysex(ctx, 'b', 1), _frozen(ctx, wire.make_message(ctx, 'clock', {}, 0)),
                                     _frozen(ctx, sysex(ctx, 'c', 0))],
        'all-frozen': lambda: [_frozen(ctx, sysex(ctx, 'a', 3)), _frozen(ctx, sysex(ctx, 'b', 1))],
        # the order is the order of the list, whatever the messages carry otherwise (their times run backwards here)
        'times-running-backwards': lambda: [_timed(sysex(ctx, 'a', 2), 9), _timed(sysex(ctx, 'b', 1), 5),
                                            _timed(wire.make_message(ctx, 'clock', {}, 0), 7), _timed(sysex(ctx, 'c', 3), 0.5)],
    }
    for name, factory in lists.items():
        for plaintext in (False, True):
            n += 1
            ai = make_interp(ctx)
            holder = {}

            def thunk():
                msgs = factory()
                holder['msgs'] = msgs
                ai.call_function(wr, ['f.syx', AList(msgs, 'list')], {'plaintext': plaintext})
                return ai.call_function(rd, ['f.syx'], {})
            outs = ai.explore(thunk)
            inst = f'read(write({name}, {"text" if plaintext else "binary"}))'
            cons = f'{rd.qname}::{"text" if plaintext else "binary"}'
            if len(outs) != 1 or outs[0].kind != 'return':
                ctx.fail('R19.2', inst, w, f'write then read does not complete on one path: {outs}' +
                         (' (undecided: ' + '; '.join(d[2] for o_ in outs for d in o_.decisions)[:200] + ')' if any(o_.decisions for o_ in outs) else ''),
                         construct=cons + '::outcomes')
                continue
            res = outs[0].value
            items = res.items if isinstance(res, AList) else list(res) if isinstance(res, list) else None
            want = [x for x in holder['msgs'] if x.attrs.get('type') == 'sysex']
            ok = items is not None and len(items) == len(want)
            why = f'{len(items) if items is not None else res!r} messages read, {len(want)} sysex written'
            if ok:
                for g, e in zip(items, want):
                    if not (isinstance(g, AObj) and g.attrs.get('type') == 'sysex' and wire.value_equal(g.attrs.get('data'), e.attrs['data'])):
                        ok = False
                        why = f'read {g!r}, written {e!r}'
            ctx.require(ok, 'R19.1' if name in ('mixed', 'no-sysex') else 'R19.2', inst, w, why, construct=cons + f'::{name}')
            ent = ai.fs.get('f.syx')
            if ent is not None and not plaintext:
                # what reached the file: the encodings of the sysex messages and nothing else (other messages are dropped on writing)
                flat = []
                for ch in ent['chunks']:
                    flat.extend(ch.items if isinstance(ch, AList) else list(ch) if isinstance(ch, (list, tuple, bytes, bytearray)) else [ch])
                exp = []
                for x in want:
                    exp.extend([0xf0] + list(x.attrs['data'].items) + [0xf7])
                ctx.require(len(flat) == len(exp) and all(wire.value_equal(a, b) for a, b in zip(flat, exp)), 'R19.1', f'{inst}.file-content', ctx.where(wr),
                            f'the binary file holds {smf.describe(flat)}; the sysex messages of the list encode to {smf.describe(exp)}',
                            construct=f'{wr.qname}::content(binary)')
            ctx.require(ent is not None and ('b' in ent['mode']) == (not plaintext), 'R19.2', f'{inst}.mode', ctx.where(wr),
                        f'file opened with mode {ent["mode"] if ent else None!r}', construct=f'{wr.qname}::mode({"text" if plaintext else "binary"})')
            for q in ai.inlined:
                ctx.functions.add(q)
    ctx.floor('R19.2', n, 10)


def r19_text_layouts(ctx):
    m = ctx.p.module(SYX)
    rd = ctx.fn(m.functions['read_syx_file'])
    w = ctx.where(rd)
    good = {
        'newlines-and-tabs': ('F0 01\n02\tF7\r\nF0 F7\n', [(1, 2), ()]),
        'lowercase': ('f0 7f 00 f7', [(127, 0)]),
        'no-separators': ('F00102F7', [(1, 2)]),
        'leading-whitespace': ('  \n F0 05 F7', [(5,)]),
        'other-messages-dropped': ('90 01 02 F0 09 F7 F8', [(9,)]),
        'only-whitespace': (' \n ', []),
        # "any whitespace": what str.split and the regular expression \s take for whitespace in a latin-1 text, not only the six
        # ASCII blanks bytearray.fromhex() skips by itself
        'no-break-spaces': ('F0\xa001\xa002\xa0F7', [(1, 2)]),
        'unit-and-record-separators': ('F0\x1f05\x1eF7\x1cF0\x1dF7', [(5,), ()]),
        'next-line-characters': ('F0 06 F7\x85F0 07 F7\x85', [(6,), (7,)]),
        'vertical-tab-and-form-feed': ('F0\x0b01\x0cF7', [(1,)]),
        # a dump longer than any block or buffer size a reader might work in (4 KiB, 8 KiB), without a single blank: one byte
        # per line, or tab separated - "any whitespace" holds at every offset of the file, not only in its first block
        'nine-thousand-characters-one-byte-per-line': ('F0\n' + '01\n' * 2998 + 'F7\n', [(1,) * 2998]),
    }
    for name, (text, want) in good.items():
        ai = make_interp(ctx)
        ai.fs['t.syx'] = {'mode': 'w', 'chunks': [text]}
        outs = ai.explore(lambda: ai.call_function(rd, ['t.syx'], {}))
        ok = len(outs) == 1 and outs[0].kind == 'return'
        got = None
        if ok:
            res = outs[0].value
            items = res.items if isinstance(res, AList) else list(res)
            got = [tuple(x.attrs['data'].items) if isinstance(x.attrs.get('data'), AList) else x.attrs.get('data') for x in items]
            ok = got == want
        ctx.require(ok, 'R19.2', f'read(text {name})', w, f'{text!r} reads as {got if got is not None else outs}, expected {want}',
                    construct=f'{rd.qname}::text-layout')
    for name, text in {'odd-digits': 'F0 1 F7', 'not-hex': 'F0 0G F7', 'word': 'hello', 'three-digits': 'F0 001 F7 0',
                       'byte-above-7f-at-the-end': 'F0 01 02 F7 \xe9', 'byte-above-7f-inside-a-pair': 'F0 01 0\xff2 F7',
                       'only-bytes-above-7f': '\n\xe9\xe9\n'}.items():
        ai = make_interp(ctx)
        ai.fs['t.syx'] = {'mode': 'w', 'chunks': [text]}
        outs = ai.explore(lambda: ai.call_function(rd, ['t.syx'], {}))
        ok = bool(outs) and all(o.kind == 'raise' and o.exc == 'ValueError' for o in outs)
        ctx.require(ok, 'R19.2', f'read(text {name})', w, f'{text!r} is not two-digit hex and must raise ValueError: {outs}',
                    construct=f'{rd.qname}::bad-text')
    # empty file
    ai = make_interp(ctx)
    ai.fs['e.syx'] = {'mode': 'wb', 'chunks': []}
    outs = ai.explore(lambda: ai.call_function(rd, ['e.syx'], {}))
    ok = len(outs) == 1 and outs[0].kind == 'return' and (outs[0].value == [] or (isinstance(outs[0].value, AList) and not outs[0].value.items))
    ctx.require(ok, 'R19.3', 'read(empty file)', w, f'{outs}', construct=f'{rd.qname}::empty-file')
    # binary file with garbage before / between
    ai = make_interp(ctx)
    ai.fs['b.syx'] = {'mode': 'wb', 'chunks': [AList([0xf0, smf.sym('x', 127), 0xf7, 0x01, 0x90, 0xf0, 0xf7], 'bytearray')]}
    outs = ai.explore(lambda: ai.call_function(rd, ['b.syx'], {}))
    ok = len(outs) == 1 and outs[0].kind == 'return'
    if ok:
        items = outs[0].value.items if isinstance(outs[0].value, AList) else list(outs[0].value)
        ok = len(items) == 2 and wire.value_equal(items[0].attrs['data'], AList([smf.sym('x', 127)], 'tuple')) and not items[1].attrs['data'].items
    ctx.require(ok, 'R19.2', 'read(binary with stray bytes)', w, f'{outs}', construct=f'{rd.qname}::binary-stray')


def r19_binary_leading(ctx):
    """A binary file in which another message comes BEFORE the first sysex (or that holds no sysex at all) is still a binary
    file: the other messages are dropped, the sysex messages returned."""
    m = ctx.p.module(SYX)
    rd = ctx.fn(m.functions['read_syx_file'])
    w = ctx.where(rd)
    x, y = smf.sym('x', 127), smf.sym('y', 127)
    cases = {
        'clock first': ([0xf8, 0xf0, x, y, 0xf7], [(x, y)]),
        'note_on first': ([0x90, 0x40, 0x40, 0xf0, x, 0xf7], [(x,)]),
        'program_change first': ([0xc0, 0x05, 0xf0, 0xf7], [()]),
        'two polytouch messages whose data bytes spell F0 / F7 in ASCII, no sysex': ([0xa0, 0x46, 0x30, 0xa0, 0x46, 0x37], []),
        'active_sensing only': ([0xfe], []),
        'note_off on channel 0 first (first byte 0x80)': ([0x80, 0x3c, 0x00, 0xf0, x, 0xf7], [(x,)]),
        'pitchwheel on channel 15 first (first byte 0xEF)': ([0xef, 0x00, 0x40, 0xf0, 0xf7], [()]),
        'quarter_frame first (first byte 0xF1)': ([0xf1, 0x05, 0xf0, x, y, 0xf7], [(x, y)]),
        'reset first (first byte 0xFF)': ([0xff, 0xf0, x, 0xf7], [(x,)]),
    }
    # a real-time byte in the middle of a sysex message (MIDI allows it anywhere) is dropped like any other message: the
    # sysex around it comes back whole
    for rt in (0xf8, 0xfa, 0xfb, 0xfc, 0xfe, 0xff):
        cases[f'real-time byte {rt:#04x} inside a sysex'] = ([0xf0, x, rt, y, 0xf7, 0xf0, 0xf7], [(x, y), ()])
    n = 0
    for name, (content, want) in cases.items():
        ai = make_interp(ctx)
        ai.fs['b.syx'] = {'mode': 'wb', 'chunks': [AList(list(content), 'bytearray')]}
        outs = ai.explore(lambda: ai.call_function(rd, ['b.syx'], {}))
        n += 1
        ok = len(outs) == 1 and outs[0].kind == 'return'
        got = None
        if ok:
            items = outs[0].value.items if isinstance(outs[0].value, AList) else list(outs[0].value)
            got = [tuple(i_.attrs['data'].items) if isinstance(i_.attrs.get('data'), AList) else i_.attrs.get('data') for i_ in items]
            ok = len(got) == len(want) and all(len(a) == len(b) and all(wire.value_equal(p_, q_) for p_, q_ in zip(a, b)) for a, b in zip(got, want))
        ctx.require(ok, 'R19.1', f'read(binary, {name})', w, f'{smf.describe(content)} reads as {got if got is not None else outs}; expected the sysex payloads {want}',
                    construct=f'{rd.qname}::binary-leading-message')
    ctx.floor('R19.1-binary-leading', n, 5)


def r19_queue(ctx):
    """read_syx_file feeds the whole file to one Parser before retrieving anything: its queues must be unbounded."""
    from . import parsershape
    parsershape.check_parser_init(ctx, 'R19.4')


def r19_specs(ctx):
    """Any payload length: a sysex ends at its F7 and nowhere else - the message table gives it no fixed length (table shared
    with C01 R01.0; the tokenizer reads the length from it)."""
    from . import c01
    ctx.borrow(c01.r01_0, 'R19.5')


RULES = [('R19.5', r19_specs), ('R19-roundtrip', r19_roundtrip), ('R19-text', r19_text_layouts), ('R19-binary', r19_binary_leading), ('R19.4', r19_queue)]
