"""C06 - the parser resynchronises: a complete message is always recognised."""
from __future__ import annotations

from .. import tokmodel
from . import c04, parsershape

LEVEL = 'other'
EXPLANATION = (
    'Same one-step abstract transitions of Tokenizer.feed_byte as C04 (30 abstract pre-states x 256 bytes), read as '
    'resynchronisation obligations: (R06.1) for every status byte that starts a message the post-state is the fresh '
    'state [status] with the length of the spec table, whatever the pre-state was - so the prefix is forgotten; '
    '(R06.2) a real-time byte inside an open sysex leaves status, buffer and length untouched and is queued at once, '
    'i.e. ahead of the sysex, which is only queued at its 0xF7; (R06.3) from the fresh state the data-byte '
    'transitions append in order and emit exactly once, at the last byte, the status followed by those bytes, '
    'returning to idle; sysex: any data then 0xF7 emits F0 data F7; (R06.4) an emitted buffer is never aliased by a '
    'non-idle state.  With C02 (every complete token decodes to the message with those bytes) and the structural '
    'Parser rules this gives "P + encode(M) parses to parse(P) + [M]" by induction over bytes; no stream is run.')
TRUSTED = ['midolint abstract interpreter', 'reference transition relation (midolint/rules/c04.py)', 'C01/C02 for token -> message']
ASSUMPTIONS = ['bytes are Integral 0..255']

_MAP = {'R04.1': 'R06.0', 'R04.3': 'R06.3', 'R04.4': 'R06.2', 'R06.1': 'R06.1', 'R06.2': 'R06.2'}


def r06_transitions(ctx):
    c04.run_transitions(ctx, lambda r: _MAP.get(r, 'R06.3'))


def r06_parser(ctx):
    parsershape.check_parser(ctx, 'R06.5')
    parsershape.check_tokenizer_feed(ctx, 'R06.5')


def r06_decode(ctx):
    """The message recognised is exactly M: a token becomes a message that encodes back to the token (decoder layouts, shared
    with C01 R01.3 / C04 R04.6)."""
    from . import c01
    ctx.borrow(c01.r01_3, 'R06.6')


def r06_queue_identity(ctx):
    """The recognised messages go into the queue the parser was made with: ports keep a reference to that very deque, so the
    fields of parser and tokenizer are bound in __init__ only and filled in place afterwards (shared with C05 R05.3)."""
    from . import c05
    ctx.borrow(c05.r05_3, 'R06.7')


RULES = [('R06.7', r06_queue_identity), ('R06.6', r06_decode), ('R06-transitions', r06_transitions), ('R06.5', r06_parser)]
