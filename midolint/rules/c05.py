"""C05 - parsing does not depend on how the stream is chunked or consumed."""
from __future__ import annotations

import ast

from .. import astq, tokmodel
from ..model import AnalysisError, unparse
from . import c04, parsershape

LEVEL = 'other'
EXPLANATION = (
    'Chunking independence is decided structurally: Tokenizer.feed is exactly a fold of feed_byte over its argument '
    '(no per-call state, no early exit), Parser.feed/feed_byte are "tokenizer call then _decode" on every path, the '
    'tokenizer fields have a closed set of writers (the two byte handlers and __init__), no method of either class '
    'reads a clock, a global or anything but its fields/arguments/constants, the one-step transitions of feed_byte '
    '(C04) preserve tokens already pending, and on every message queue in mido/ only append/extend/popleft are ever '
    'applied (first-in first-out).  pending/__len__ return len of the very deque __iter__ pops from the left; '
    'get_message returns the first popped message and None only from the empty case.  ParserQueue feeds and drains '
    'its parser inside one lock region and touches it nowhere else.')
TRUSTED = ['midolint path enumeration and name resolution', 'collections.deque append/popleft semantics']
ASSUMPTIONS = ['one thread per Parser (ParserQueue adds the lock)']


def r05_1(ctx):
    parsershape.check_tokenizer_feed(ctx, 'R05.1')
    parsershape.check_parser_feeds(ctx, 'R05.1')
    parsershape.check_decode(ctx, 'R05.1')


def r05_2(ctx):
    parsershape.check_purity(ctx, 'R05.2')
    c04.run_transitions(ctx, lambda r: 'R05.2')


def r05_3(ctx):
    parsershape.check_single_writers(ctx, 'R05.3')
    parsershape.check_parser_init(ctx, 'R05.3')
    fn, outs, obj = tokmodel.init_state(ctx)
    ok = len(outs) == 1 and outs[0].kind == 'return' and obj.attrs.get('_status') in (0, None, False)
    ctx.require(ok, 'R05.3', 'Tokenizer().idle', ctx.where(fn), f'initial state: {outs}', construct=f'{fn.qname}::idle')


def r05_4(ctx):
    parsershape.check_fifo_scan(ctx, 'R05.4')
    parsershape.check_tokenizer_iter(ctx, 'R05.4')


def r05_5(ctx):
    parsershape.check_retrieval(ctx, 'R05.5')
    m = ctx.p.module(parsershape.PAR)
    pa = m.functions.get('parse_all')
    pr = m.functions.get('parse')
    if pa is not None:
        ctx.fn(pa)
        rets = [n for n in astq.walk_shallow(pa.node) if isinstance(n, ast.Return)]
        ok = len(rets) == 1 and unparse(rets[0].value) == f'list(Parser({pa.params()[0]}))'
        ctx.require(ok, 'R05.5', 'parse_all', ctx.where(pa), 'parse_all is not list(Parser(data))', construct=f'{pa.qname}::shape')
    if pr is not None:
        ctx.fn(pr)
        rets = [n for n in astq.walk_shallow(pr.node) if isinstance(n, ast.Return)]
        ok = len(rets) == 1 and unparse(rets[0].value) == f'Parser({pr.params()[0]}).get_message()'
        ctx.require(ok, 'R05.5', 'parse', ctx.where(pr), 'parse is not Parser(data).get_message()', construct=f'{pr.qname}::shape')


def r05_6(ctx):
    try:
        cls = ctx.p.cls('mido.backends._parser_queue', 'ParserQueue')
    except AnalysisError:
        ctx.floor('R05.6', 0, 1)
        return
    pb = cls.methods.get('put_bytes')
    if pb is None:
        raise AnalysisError('ParserQueue.put_bytes not found')
    ctx.fn(pb)
    w = ctx.where(pb)
    withs = [n for n in astq.walk_shallow(pb.node) if isinstance(n, ast.With)]
    lock_with = [x for x in withs if any(unparse(i.context_expr) == 'self._parser_lock' for i in x.items)]
    uses = [n for n in astq.walk_shallow(pb.node) if isinstance(n, ast.Attribute) and n.attr == '_parser'
            and isinstance(n.value, ast.Name) and n.value.id == 'self']
    inside = lock_with and all(any(astq.contains_node(x, u) for x in lock_with) for u in uses)
    ctx.require(bool(inside) and len(uses) >= 2, 'R05.6', 'put_bytes.lock', w,
                'the parser is fed or drained outside the `with self._parser_lock` region', construct=f'{pb.qname}::lock')
    if lock_with:
        body = lock_with[0].body
        feed_first = body and isinstance(body[0], ast.Expr) and unparse(body[0].value) == f'self._parser.feed({pb.params()[1]})'
        drain = len(body) >= 2 and isinstance(body[1], ast.For) and unparse(body[1].iter) == 'self._parser' and \
            len(body[1].body) == 1 and isinstance(body[1].body[0], ast.Expr) and \
            unparse(body[1].body[0].value) in (f'self.put({unparse(body[1].target)})', f'self._queue.put({unparse(body[1].target)})')
        ctx.require(bool(feed_first and drain) and len(body) == 2, 'R05.6', 'put_bytes.shape', w,
                    'put_bytes is not "feed the bytes, then put every parsed message, in order" inside the lock',
                    construct=f'{pb.qname}::shape')
    # _parser touched nowhere else
    for name, fn in cls.methods.items():
        if name in ('__init__', 'put_bytes'):
            continue
        for n in astq.walk_shallow(fn.node):
            if isinstance(n, ast.Attribute) and n.attr == '_parser':
                ctx.fail('R05.6', f'{name}._parser', ctx.where(fn, n), 'the parser is used outside put_bytes (no lock)',
                         construct=f'{fn.qname}::uses-parser')
    init = cls.methods.get('__init__')
    if init is not None:
        ctx.fn(init)
        txt = {unparse(t): unparse(st.value) for t, st in astq.stores_in(init.node) if isinstance(st, ast.Assign)}
        ctx.require(txt.get('self._parser') == 'Parser()' and 'Lock()' in txt.get('self._parser_lock', ''), 'R05.6',
                    'ParserQueue.__init__', ctx.where(init), f'fields initialised as {txt}', construct=f'{init.qname}::fields')
    ctx.floor('R05.6', 1, 1)


RULES = [('R05.1', r05_1), ('R05.2', r05_2), ('R05.3', r05_3), ('R05.4', r05_4), ('R05.5', r05_5), ('R05.6', r05_6)]
