"""C05 - parsing does not depend on how the stream is chunked or consumed."""
from __future__ import annotations

import ast

from .. import astq, tokmodel
from ..model import AnalysisError, unparse
from . import c04, parsershape

LEVEL = 'other'
EXPLANATION = (
    'R05.1: Tokenizer.feed is a fold of feed_byte, and the Parser - abstractly interpreted on one symbolic stream fed at once, '
    'byte by byte, through the constructor, through parse/parse_all and cut at every offset, with pending/__len__/get_message/'
    'iteration in between - hands out the same messages first-in first-out, pending() = number still retrievable, None exactly '
    'when empty.  R05.2: no method of Tokenizer/Parser reads a clock, a global or anything but fields/arguments/constants, and the '
    'one-step transitions of feed_byte (C04) make the state a function of the bytes alone and keep tokens already pending - the '
    'induction step for arbitrary streams.  R05.3: tokenizer fields are written only by __init__ and the byte handlers reachable '
    'from feed_byte; parser fields only by __init__.  R05.4/5: on every message queue in mido/ only append/extend/popleft are '
    'applied.  R05.6: ParserQueue interpreted with queue and lock doubles - two put_bytes calls with a put in between give stream '
    'order, poll/iterpoll drain FIFO then None, every parser step runs under the one lock created by __init__.')
TRUSTED = ['midolint path enumeration and name resolution', 'collections.deque append/popleft semantics']
ASSUMPTIONS = ['one thread per Parser (ParserQueue adds the lock)']


def r05_1(ctx):
    parsershape.check_tokenizer_feed(ctx, 'R05.1')
    parsershape.parser_semantics(ctx, 'R05.1')


def r05_2(ctx):
    parsershape.check_purity(ctx, 'R05.2')
    c04.run_transitions(ctx, lambda r: 'R05.2')


def r05_3(ctx):
    parsershape.check_single_writers(ctx, 'R05.3')
    parsershape.check_parser_init(ctx, 'R05.3')
    fn, outs, obj = tokmodel.init_state(ctx)
    ok = len(outs) == 1 and outs[0].kind == 'return' and (obj.attrs.get('_status') in (0, None, False) or not tokmodel.representation_known(ctx))
    ctx.require(ok, 'R05.3', 'Tokenizer().idle', ctx.where(fn), f'initial state: {outs}', construct=f'{fn.qname}::idle')


def r05_4(ctx):
    parsershape.check_fifo_scan(ctx, 'R05.4')
    parsershape.check_tokenizer_iter(ctx, 'R05.4')


def r05_5(ctx):
    parsershape.check_tokenizer_iter(ctx, 'R05.5')


def r05_6(ctx):
    """ParserQueue, abstractly interpreted: put_bytes on a stream cut in two, with a direct put in between, leaves the queue
    holding exactly the messages of the stream in order (poll / iterpoll hand them out first-in first-out, then None); and every
    step that runs parser or tokenizer code happens while the one lock made by __init__ is held."""
    from .. import portmodel as pm, smf, wire
    from ..absint import AbsRaise, AList, AObj, EVENT_LOG, log_event
    from ..fold import ClassRef
    try:
        cls = ctx.p.cls('mido.backends._parser_queue', 'ParserQueue')
    except AnalysisError:
        ctx.floor('R05.6', 0, 1)
        return
    w = f'{cls.module.relpath}:{cls.node.lineno} ParserQueue'
    ai = smf.make_interp(ctx)
    ai.summaries['threading.RLock'] = lambda i, a, k, n: pm.AMock('RLock')
    ai.summaries['threading.Lock'] = lambda i, a, k, n: pm.AMock('Lock')

    def q_get(interp, base, args, kwargs, node):
        if not base.items:
            raise AbsRaise('queue.Empty', node)
        return base.items.pop(0)

    def q_block(interp, base, args, kwargs, node):
        block = kwargs.get('block', args[0] if args else True)
        if not base.items:
            if block is False:
                raise AbsRaise('queue.Empty', node)
            raise AbsRaise('NonTermination', node)
        return base.items.pop(0)

    def mk_queue(interp, args, kwargs, node):
        q = pm.AMock('Queue', {'put': lambda i, b, a, k, n: b.items.append(a[0]), 'put_nowait': lambda i, b, a, k, n: b.items.append(a[0]),
                               'get_nowait': q_get, 'get': q_block, 'qsize': lambda i, b, a, k, n: len(b.items),
                               'empty': lambda i, b, a, k, n: not b.items, 'strict': True})
        q.items = []
        return q
    for name in ('queue.Queue', 'queue.SimpleQueue'):
        ai.summaries[name] = mk_queue

    def mock_hook(interp, base, name, args, kwargs, node):
        if isinstance(base, pm.AMock):
            if base.script.get('strict') and name not in base.script:
                raise AbsRaise('AttributeError', node, implicit=True)
            if base.name in ('RLock', 'Lock') and name in ('acquire', '__enter__'):
                log_event('with-enter', base)
                return True
            if base.name in ('RLock', 'Lock') and name in ('release', '__exit__'):
                log_event('with-exit', base)
                return None
            f = base.script.get(name)
            return f(interp, base, args, kwargs, node) if f is not None else None
        return pm._NO
    ai.method_hooks.append(mock_hook)
    n1, v1, n2, v2, d0, d1 = (smf.sym(x, 127) for x in ('n1', 'v1', 'n2', 'v2', 'd0', 'd1'))
    stream = [0x93, n1, v1, 0xf8, 0x85, n2, v2, 0xf0, d0, d1, 0xf7, 0x40, 0xc1]
    want = [('note_on', {'channel': 3, 'note': n1, 'velocity': v1}), ('clock', {}), ('start', {}),
            ('note_off', {'channel': 5, 'note': n2, 'velocity': v2}), ('sysex', {'data': AList([d0, d1], 'tuple')})]

    def call(obj, name, *args):
        o, fn = ctx.p.lookup_method(obj.cls, name)
        if fn is None:
            raise AnalysisError(f'ParserQueue.{name} not found')
        ctx.fn(fn)
        return ai.consume(ai.call_function(fn, [obj] + list(args), {}))

    def same(msg, exp):
        if not isinstance(msg, AObj) or msg.attrs.get('type') != exp[0]:
            return False
        return all(wire.value_equal(msg.attrs.get(k), v) for k, v in exp[1].items())

    for cut in (5, 1, 9):
        holder = {}

        def thunk():
            pq = ai.apply(ClassRef(cls), [], {}, None)
            holder['pq'] = pq
            holder['t0'] = len(EVENT_LOG)
            call(pq, 'put_bytes', AList(stream[:cut], 'list'))
            call(pq, 'put', wire.make_message(ctx, 'start', {}, 0))
            call(pq, 'put_bytes', AList(stream[cut:], 'list'))
            holder['log'] = list(EVENT_LOG[holder['t0']:])
            first = call(pq, 'poll')
            rest = call(pq, 'iterpoll')
            last = call(pq, 'poll')
            return first, rest, last
        outs = ai.explore(thunk)
        inst = f'put_bytes(stream[:{cut}]); put(start); put_bytes(stream[{cut}:]); poll; iterpoll; poll'
        if len(outs) != 1 or outs[0].kind != 'return':
            ctx.fail('R05.6', inst, w, f'the scenario does not complete on one path: {outs}', construct=f'{cls.qname}::scenario::outcomes')
            continue
        first, rest, last = outs[0].value
        got = [first] + (list(rest.items) if isinstance(rest, AList) else [rest])
        parsed = [want[0], want[1], want[3], want[4]]
        k = sum(1 for end in (2, 3, 6, 10) if end < cut)     # messages complete within stream[:cut]
        exp = parsed[:k] + [want[2]] + parsed[k:]
        ok = len(got) == len(exp) and all(same(a, b) for a, b in zip(got, exp)) and last is None
        ctx.require(ok, 'R05.6', inst, w, f'the queue hands out {got!r} and then {last!r}; expected {[x[0] for x in exp]} and then None',
                    construct=f'{cls.qname}::contents')
        # lock discipline over the event log of the two put_bytes calls
        pq = holder['pq']
        locks = [v for v in pq.attrs.values() if isinstance(v, pm.AMock) and v.name in ('RLock', 'Lock')]
        held = []
        bad = None
        touches = 0
        for ev in holder['log']:
            if ev[0] == 'with-enter':
                held.append(ev[1])
            elif ev[0] == 'with-exit':
                if held:
                    held.pop()
            elif ev[0] in ('enter', 'resume', 'store'):
                obj = ev[2] if ev[0] == 'enter' else ev[1]
                if isinstance(obj, AObj) and obj.cls is not None and obj.cls.module.name in (parsershape.PAR, parsershape.TOK):
                    touches += 1
                    if not any(h is lk for h in held for lk in locks) and bad is None:
                        bad = ev
        ctx.require(bad is None and touches >= 4 and len(locks) == 1, 'R05.6', f'lock[{inst}]', w,
                    f'parser/tokenizer code runs without the lock created by __init__ being held (event {bad!r:.200}; {touches} parser steps, '
                    f'{len(locks)} lock fields)', construct=f'{cls.qname}::put_bytes::lock')
    # iterating the queue hands the messages out first-in first-out as well (it blocks when nothing is left, so the loop
    # leaves after the two that are there)
    from ..model import FuncInfo as FI, add_parents
    src = ("def probe(q):\n"
           "    got = []\n"
           "    for m in q:\n"
           "        got.append(m)\n"
           "        if len(got) == 2:\n"
           "            break\n"
           "    return got, q.poll(), q.poll()\n")
    tree = ast.parse(src)
    add_parents(tree)
    probe = FI('probe', cls.module, tree.body[0])

    def thunk_it():
        pq = ai.apply(ClassRef(cls), [], {}, None)
        call(pq, 'put_bytes', AList(stream[:10], 'list'))       # note_on, clock, note_off (+ an open sysex)
        return ai.call_function(probe, [pq], {})
    outs = ai.explore(thunk_it)
    o_, itf = ctx.p.lookup_method(cls, '__iter__')
    wi = ctx.where(itf) if itf is not None else w
    ok = len(outs) == 1 and outs[0].kind == 'return'
    why = f'{outs}'
    if ok:
        v = outs[0].value
        parts = list(v.items) if isinstance(v, AList) else list(v)
        got = list(parts[0].items) if isinstance(parts[0], AList) else list(parts[0])
        ok = len(got) == 2 and same(got[0], want[0]) and same(got[1], want[1]) and same(parts[1], want[3]) and parts[2] is None
        why = f'for m in queue (two steps) gives {got!r}, then poll() gives {parts[1]!r} and {parts[2]!r}; expected note_on, clock, then note_off, then None'
    ctx.require(ok, 'R05.6', 'for m in ParserQueue: ... (two messages), poll, poll', wi, why, construct=f'{cls.qname}::__iter__')
    for q in ai.inlined:
        ctx.functions.add(q)
    ctx.floor('R05.6', 3, 3)


def r05_refused(ctx):
    """However the calls are interleaved: a feeding call that is refused (an item that is no byte) is no call at all - the bytes
    taken in before it are still there when the stream goes on (shared with C04 R04.1)."""
    from . import c04
    ctx.borrow(lambda c: c04.r04_guard(c, 'R05.7'), 'R05.7')


def r05_stream_port(ctx):
    """The same holds where the bytes come off a connection: a socket port hands its parser every byte that has arrived, however
    the stream was segmented - nothing stays behind in a buffer of its own that the readiness test cannot see (shared with
    C18 R18.6)."""
    from . import c18
    ctx.borrow(c18.r18_live, 'R05.8')


RULES = [('R05.8', r05_stream_port), ('R05.7', r05_refused), ('R05.1', r05_1), ('R05.2', r05_2), ('R05.3', r05_3), ('R05.4', r05_4), ('R05.5', r05_5), ('R05.6', r05_6)]
