"""C08 - file bytes conform to the Standard MIDI File format in both directions."""
from __future__ import annotations

import ast
import re

from .. import astq, codec, reference, smf, wire
from ..absint import AList, AObj, Opaque, SeqVar, AbsRaise
from ..bits import AV, Sym
from ..fold import ClassRef
from ..intset import IntSet
from ..model import AnalysisError, unparse
from ..wire import AFile, Field, StrSym, VLQ

LEVEL = 'other'
EXPLANATION = (
    'The oracle is a reference SMF 1.0 encoder written from the standard\'s tables (midolint.smf / midolint.reference), '
    'so an error made symmetrically in mido\'s reader and writer is visible.  (1) Writer: for ~60 symbolic tracks the wire '
    'items emitted by the abstractly interpreted write_track must equal the reference encoding item for item (delta as '
    'VLQ, status byte omitted only after a channel message of equal status, never after meta/sysex/system common, sysex '
    'as F0 VLQ(len+1) data F7, meta as FF type VLQ(len) payload, FF 2F 00 last, chunk length = bytes that follow, '
    'header MThd 6 format ntrks division).  (2) Reader: read_track is interpreted on the *reference* encodings, incl. '
    'legal alternatives (running status, header chunk longer than 6 bytes) and must return exactly the events.  '
    '(3) Variable length quantities: encode_variable_int, read_variable_int and decode_variable_int themselves are '
    'interpreted in the bit-layout domain for every size class 1..5 groups (top group 1 and 64..127) plus 0: the '
    'encoder must produce the minimal big-endian base-128 form with continuation bits, both readers must invert it and '
    'also accept padded forms.  (4) clip: data bytes in the classes 0..126, 127, 128..255 are traced through '
    'read_message/read_sysex with clip on and off.  (5) debug: the wrapper returns exactly what one read of the '
    'underlying file returns, and loading with debug on gives the same result.')
TRUSTED = ['midolint.smf reference encoder and midolint.reference SMF tables', 'midolint abstract interpreter / wire domain',
           'struct field model (pack/unpack of identical big-endian codes are inverse)']
ASSUMPTIONS = ['events are valid messages (C03, C09)', 'delta times below 2**35 for the VLQ size classes analysed (the loop is uniform in the group count)']

RULES_MAP = {'write': 'R08.2', 'conform': 'R08.2', 'size': 'R08.4', 'read': 'R08.3', 'equal': 'R08.3'}


def strict_interp(ctx):
    """Interpreter whose check_data summary enforces 0..127 (for the clip analysis)."""
    ai = smf.make_interp(ctx)

    def s_check_data(interp, args, kwargs, node):
        lst = args[0] if args else None
        items = lst.items if isinstance(lst, AList) else list(lst) if isinstance(lst, (list, tuple)) else []
        for it in items:
            if isinstance(it, SeqVar):
                lo, hi = 0, it.sym.umax
            elif isinstance(it, AV) and not it.is_top:
                lo, hi = it.interval()
            elif isinstance(it, int):
                lo = hi = it
            else:
                continue
            if lo > 127 or hi < 0:
                raise AbsRaise('ValueError', node)
            if hi > 127 and interp.decide(node, 'data byte may exceed 127'):
                raise AbsRaise('ValueError', node)
        return None
    ai.summaries['mido/messages/checks.py::check_data'] = s_check_data
    noop = lambda interp, args, kwargs, node: None     # noqa: E731
    ai.summaries['mido/midifiles/midifiles.py::_dbg'] = noop
    ai.summaries['mido/midifiles/midifiles.py::print_byte'] = noop
    return ai


def r08_writer(ctx):
    ai = smf.make_interp(ctx)
    sc = dict(smf.standard_scenarios())
    sc.update(smf.meta_scenarios())
    sc.update(smf.eot_scenarios())
    n = 0
    for name, evs in sc.items():
        smf.check_scenario(ctx, ai, name, evs, RULES_MAP, roundtrip=False)
        n += 1
    ctx.floor('R08.2-scenarios', n, 46)


def track_stream(events):
    body = smf.ref_track_items(events)
    return [Field('4s', b'MTrk'), Field('L', wire.size_of(body))] + body


def read_reference(ctx, ai, name, events, rule, clip=False, debug=False, want=None, expect_error=False, stream=None):
    rt, outs = smf.read_track_abs(ctx, ai, stream if stream is not None else track_stream(events), clip=clip, debug=debug)
    w = ctx.where(rt)
    inst = f'read[{name}{" clip" if clip else ""}{" debug" if debug else ""}]'
    cons = f'{rt.qname}::{name}{"::clip" if clip else ""}{"::debug" if debug else ""}'
    if expect_error:
        ok = bool(outs) and all(o.kind == 'raise' for o in outs)
        ctx.require(ok, rule, f'{inst}.rejected', w, f'a data byte above 127 must be an error without clip; outcomes {outs}',
                    construct=cons + '::rejected')
        return
    if len(outs) != 1 or outs[0].kind != 'return':
        why = f'reading the standard encoding does not complete on one path: {outs}'
        if any(o.decisions for o in outs):
            why += ' (undecided: ' + '; '.join(d[2] for o in outs for d in o.decisions)[:200] + ')'
        ctx.fail(rule, f'{inst}.read', w, why, construct=cons + '::read')
        return
    tr, inf = outs[0].value
    ctx.require(not inf.bad and inf.pos == len(inf.stream), rule, f'{inst}.consumed', w,
                f'the reader does not consume the track exactly: {inf.bad} (item {inf.pos} of {len(inf.stream)})',
                construct=cons + '::consumed')
    want = want if want is not None else smf.fold_eot(events)
    items = tr.items if isinstance(tr, AList) else []
    if len(items) != len(want):
        ctx.fail(rule, f'{inst}.count', w, f'{len(items)} events read, the encoding holds {len(want)}', construct=cons + '::count')
        return
    for i, (e, o) in enumerate(zip(want, items)):
        ok, why = smf.same_message(e, o, ctx)
        ctx.require(ok, rule, f'{inst}.event{i}({e.type})', w, f'event {i} ({e.type}) is read as something else: {why}',
                    construct=cons + f'::{e.type}')


def r08_reader(ctx):
    ai = strict_interp(ctx)
    sc = dict(smf.standard_scenarios())
    sc.update(smf.meta_scenarios())
    n = 0
    for name, evs in sc.items():
        read_reference(ctx, ai, name, evs, 'R08.3')
        n += 1
    # tracks that do not end with end_of_track and whose last event is as short as an event can be
    tails = {
        'tail:running-program': [smf.Ev('message', 'program_change', smf.msg_attrs('program_change', '1', 2), smf.tsym('t1')),
                                 smf.Ev('message', 'program_change', smf.msg_attrs('program_change', '2', 2), 0)],
        'tail:tune_request': [smf.Ev('message', 'note_on', smf.msg_attrs('note_on', '1'), smf.tsym('t1')),
                              smf.Ev('message', 'tune_request', {}, 0)],
        'tail:running-aftertouch': [smf.Ev('message', 'aftertouch', smf.msg_attrs('aftertouch', '1', 7), 0),
                                    smf.Ev('message', 'aftertouch', smf.msg_attrs('aftertouch', '2', 7), smf.tsym('t2'))],
        'tail:single-meta-empty-text': [smf.Ev('meta', 'text', {'text': ''}, 0)],
    }
    for name, evs in tails.items():
        body = smf.ref_track_items(evs, with_eot=False)
        stream = [Field('4s', b'MTrk'), Field('L', wire.size_of(body))] + body
        read_reference(ctx, ai, name, evs, 'R08.3', want=list(evs), stream=stream)
        n += 1
    # debug on: same events
    for name in ('running:same-status', 'running:across-meta', 'sysex:nonempty', 'meta:set_tempo', 'single:pitchwheel'):
        read_reference(ctx, ai, name, sc[name], 'R08.6', debug=True)
        n += 1
    ctx.floor('R08.3-scenarios', n, 49)


def r08_clip(ctx):
    ai = strict_interp(ctx)
    lo_ = lambda n: smf.sym(n, 126)                # noqa: E731   0..126
    hi_ = lambda n: smf.sym(n, 127, 128)           # noqa: E731   128..255
    t = smf.tsym('t1')
    n = 0
    for cls_name, mk, clipped in (('in-range', lo_, None), ('127', lambda n: 127, None), ('above', hi_, 127)):
        for pos in (0, 1):
            d = [smf.sym('a', 126), smf.sym('b', 126)]
            d[pos] = mk('x')
            raw = [VLQ(t), 0x95, d[0], d[1], VLQ(0), 0xff, 0x2f, VLQ(0)]
            stream = [Field('4s', b'MTrk'), Field('L', wire.size_of(raw))] + raw
            for clip in (False, True):
                n += 1
                name = f'clip:{cls_name}@{pos}'
                if clipped is not None and not clip:
                    read_reference(ctx, ai, name, [], 'R08.5', clip=clip, expect_error=True, stream=stream)
                    continue
                exp = list(d)
                if clipped is not None:
                    exp[pos] = clipped
                want = [smf.Ev('message', 'note_on', {'channel': 5, 'note': exp[0], 'velocity': exp[1]}, t),
                        smf.Ev('meta', 'end_of_track', {}, 0)]
                read_reference(ctx, ai, name, [], 'R08.5', clip=clip, want=want, stream=stream)
    # sysex payload
    for cls_name, mk, clipped in (('in-range', lo_, None), ('above', lambda n: smf.sym(n, 111, 128), 127)):
        x = mk('x')
        D = [x, SeqVar('X', 126)]
        raw = [VLQ(t), 0xf0, VLQ(smf._plus1(wire.size_of(D)))] + D + [0xf7, VLQ(0), 0xff, 0x2f, VLQ(0)]
        stream = [Field('4s', b'MTrk'), Field('L', wire.size_of(raw))] + raw
        for clip in (False, True):
            n += 1
            name = f'clip:sysex-{cls_name}'
            if clipped is not None and not clip:
                read_reference(ctx, ai, name, [], 'R08.5', clip=clip, expect_error=True, stream=stream)
                continue
            exp0 = clipped if clipped is not None else x
            want = [smf.Ev('message', 'sysex', {'data': AList([exp0, D[1]], 'tuple')}, t), smf.Ev('meta', 'end_of_track', {}, 0)]
            read_reference(ctx, ai, name, [], 'R08.5', clip=clip, want=want, stream=stream)
    # meta events are not MIDI data bytes: their payload (text in any charset, tempo, unknown types) is the same with clip on
    T = wire.StrSym('T')
    U = SeqVar('U', 255)
    for label, raw_ev, want_ev in (('text', [0xff, 0x05, VLQ(wire.size_of([T.bytes])), T.bytes], smf.Ev('meta', 'lyrics', {'text': T}, t)),
                                   ('unknown', [0xff, 0x60, VLQ(wire.size_of([U])), U], smf.Ev('unknown_meta', 'unknown_meta', {'data': AList([U], 'tuple')}, t, type_byte=0x60))):
        raw = [VLQ(t)] + raw_ev + [VLQ(0), 0xff, 0x2f, VLQ(0)]
        stream = [Field('4s', b'MTrk'), Field('L', wire.size_of(raw))] + raw
        for clip in (False, True):
            n += 1
            read_reference(ctx, ai, f'clip:meta-{label}', [], 'R08.5', clip=clip, want=[want_ev, smf.Ev('meta', 'end_of_track', {}, 0)], stream=stream)
    ctx.floor('R08.5', n, 16)
    # clip flows from the MidiFile constructor to the readers: whole files loaded through MidiFile(file=..., clip=...)
    cls = ctx.p.cls(smf.MF, 'MidiFile')
    o, load = ctx.p.lookup_method(cls, '_load')
    ctx.fn(load)
    ai.builtin_summaries['print'] = lambda i_, a_, k_, n_: None
    x = smf.sym('x', 111, 128)
    body = [VLQ(t), 0x95, x, 64, VLQ(0), 0xff, 0x2f, VLQ(0)]
    stream = [Field('4s', b'MThd'), Field('L', 6), Field('h', 1), Field('h', 1), Field('h', 480), Field('4s', b'MTrk'), Field('L', wire.size_of(body))] + body
    for clip in (False, True, None):
        kw = {'file': None}
        if clip is not None:
            kw['clip'] = clip

        def thunk():
            k2 = dict(kw)
            k2['file'] = wire.AFile(stream=list(stream), name='in')
            return ai.apply(ClassRef(cls), [], k2, None)
        outs = ai.explore(thunk)
        inst = f'MidiFile(file=<data byte 128..239>, clip={clip})'
        if clip:
            ok = len(outs) == 1 and outs[0].kind == 'return'
            if ok:
                tr = outs[0].value.attrs.get('tracks')
                first = tr.items[0].items[0] if isinstance(tr, AList) and tr.items and isinstance(tr.items[0], AList) and tr.items[0].items else None
                ok = isinstance(first, AObj) and first.attrs.get('note') == 127 and first.attrs.get('velocity') == 64
            ctx.require(ok, 'R08.5', inst, ctx.where(load), f'with clip=True the byte must load as 127: {outs}', construct=f'{load.qname}::clip')
        else:
            ok = bool(outs) and all(o_.kind == 'raise' for o_ in outs)
            ctx.require(ok, 'R08.5', inst, ctx.where(load), f'without clip the file must be rejected: {outs}', construct=f'{load.qname}::clip')


def _vlq_values():
    """(label, value AV, groups (least significant first))."""
    out = []
    for k in range(1, 6):
        for top_kind in ('one', 'high'):
            groups = [smf.sym(f'g{i}', 127) for i in range(k - 1)]
            if top_kind == 'one':
                top = AV(1)
            else:
                top = AV(64).add(AV.of_sym(Sym('gt', 63)))
            groups.append(top)
            val = AV(0)
            for i, g in enumerate(groups):
                val = val.add((g if isinstance(g, AV) else AV(g)).shl(7 * i))
            out.append((f'{k} groups, top {top_kind}', val, groups))
    return out


def r08_vlq(ctx):
    ai = smf.make_interp(ctx)
    for q in ('mido/midifiles/meta.py::encode_variable_int', 'mido/midifiles/midifiles.py::read_variable_int'):
        ai.summaries.pop(q, None)
    enc = ctx.fn(ctx.p.func(wire.META_MOD, 'encode_variable_int'))
    rd = ctx.fn(ctx.p.func(smf.MF, 'read_variable_int'))
    dec = ctx.fn(ctx.p.func(wire.META_MOD, 'decode_variable_int'))
    we, wr, wd = ctx.where(enc), ctx.where(rd), ctx.where(dec)
    n = 0
    # zero
    outs = ai.explore(lambda: ai.call_function(enc, [0], {}))
    ok = len(outs) == 1 and outs[0].kind == 'return' and wire.value_equal(outs[0].value, AList([0]))
    ctx.require(ok, 'R08.1', 'vlq.encode(0)', we, f'0 must encode as the single byte 00: {outs}', construct=f'{enc.qname}::zero')
    for bad in (-1, 1.5):
        outs = ai.explore(lambda: ai.call_function(enc, [bad], {}))
        ctx.require(bool(outs) and all(o.kind == 'raise' and o.exc == 'ValueError' for o in outs), 'R08.1', f'vlq.encode({bad})', we,
                    f'{bad} must be rejected with ValueError: {outs}', construct=f'{enc.qname}::reject')
    for label, val, groups in _vlq_values():
        n += 1
        k = len(groups)
        ref = []
        for i in reversed(range(k)):
            g = groups[i]
            ref.append(g.add(AV(0x80)) if i > 0 else g)
        outs = ai.explore(lambda: ai.call_function(enc, [val], {}))
        inst = f'vlq.encode({label})'
        ok = len(outs) == 1 and outs[0].kind == 'return' and isinstance(outs[0].value, (AList, list)) and \
            wire.items_equal(outs[0].value.items if isinstance(outs[0].value, AList) else list(outs[0].value), ref)
        ctx.require(ok, 'R08.1', inst, we,
                    f'encodes to {outs[0].value if outs and outs[0].kind == "return" else outs!r}; the minimal big-endian base-128 form is {ref!r}',
                    construct=f'{enc.qname}::layout({k})')
        # readers on the reference form and on padded forms
        for pad in (0, 1, 2):
            stream = [0x80] * pad + ref
            holder = {}

            def rthunk():
                f = AFile(stream=list(stream) + [0x55], name='in')
                holder['f'] = f
                return ai.call_function(rd, [f], {})
            routs = ai.explore(rthunk)
            ok = len(routs) == 1 and routs[0].kind == 'return' and wire.value_equal(routs[0].value, val) and holder['f'].pos == len(stream)
            ctx.require(ok, 'R08.1', f'vlq.read({label}, {pad} pad)', wr,
                        f'reads {routs[0].value if routs and routs[0].kind == "return" else routs!r} after {holder["f"].pos} bytes; '
                        f'the quantity is {val!r} in {len(stream)} bytes', construct=f'{rd.qname}::layout({k},{"padded" if pad else "minimal"})')
        douts = ai.explore(lambda: ai.call_function(dec, [AList(list(ref))], {}))
        ok = len(douts) == 1 and douts[0].kind == 'return' and wire.value_equal(douts[0].value, val)
        ctx.require(ok, 'R08.1', f'vlq.decode({label})', wd,
                    f'decode_variable_int gives {douts[0].value if douts and douts[0].kind == "return" else douts!r}, expected {val!r}',
                    construct=f'{dec.qname}::layout({k})')
    # EOF inside a quantity is an error, not a value
    holder = {}

    def ethunk():
        f = AFile(stream=[0x81], name='in')
        return ai.call_function(rd, [f], {})
    eouts = ai.explore(ethunk)
    ctx.require(bool(eouts) and all(o.kind == 'raise' and o.exc == 'EOFError' for o in eouts), 'R08.1', 'vlq.read(truncated)', wr,
                f'a truncated quantity must raise EOFError: {eouts}', construct=f'{rd.qname}::eof')
    ctx.floor('R08.1', n, 10)
    for q in ai.inlined:
        ctx.functions.add(q)


def r08_header(ctx):
    ai = strict_interp(ctx)
    rh = ctx.fn(ctx.p.func(smf.MF, 'read_file_header'))
    w = ctx.where(rh)
    ty, nt, tpb = smf.sym('type', 2), smf.sym('ntrks', 1000), smf.sym('division', 32766, 1)
    for extra, label in (([], '6 bytes'), ([smf.sym('e0', 255), smf.sym('e1', 255)], '8 bytes'),
                         ([smf.sym(f'e{i}', 255) for i in range(10)], '16 bytes')):
        holder = {}

        def thunk():
            f = AFile(stream=[Field('4s', b'MThd'), Field('L', 6 + len(extra)), Field('h', ty), Field('h', nt), Field('h', tpb)] + list(extra)
                      + [Field('4s', b'MTrk')], name='in')
            holder['f'] = f
            return ai.call_function(rh, [f], {})
        outs = ai.explore(thunk)
        ok = len(outs) == 1 and outs[0].kind == 'return' and isinstance(outs[0].value, (AList, tuple)) and \
            wire.items_equal(list(outs[0].value.items if isinstance(outs[0].value, AList) else outs[0].value), [ty, nt, tpb]) \
            and holder['f'].pos == 5 + len(extra) and not holder['f'].bad
        ctx.require(ok, 'R08.4', f'header({label})', w,
                    f'a header chunk of {label} is read as {outs} (consumed {holder["f"].pos} items; {holder["f"].bad}; {ai.wire_notes})',
                    construct=f'{rh.qname}::header({"6" if not extra else "longer"})')
    # wrong chunk name -> error
    outs = ai.explore(lambda: ai.call_function(rh, [AFile(stream=[Field('4s', b'RIFF'), Field('L', 6), Field('h', ty), Field('h', nt), Field('h', tpb)])], {}))
    ctx.require(bool(outs) and all(o.kind == 'raise' for o in outs), 'R08.4', 'header(not MThd)', w, f'a file that does not start with MThd: {outs}',
                construct=f'{rh.qname}::name')
    rt, outs = smf.read_track_abs(ctx, ai, [Field('4s', b'XXXX'), Field('L', 0)])
    ctx.require(bool(outs) and all(o.kind == 'raise' for o in outs), 'R08.4', 'track(not MTrk)', ctx.where(rt), f'a chunk that is not MTrk: {outs}',
                construct=f'{rt.qname}::name')
    # write_chunk
    wc = ctx.fn(ctx.p.func(smf.MF, 'write_chunk'))
    holder = {}

    def wthunk():
        f = AFile(name='out')
        holder['f'] = f
        return ai.call_function(wc, [f, b'MTrk', AList([1, 2, SeqVar('Z', 255)], 'bytearray')], {})
    outs = ai.explore(wthunk)
    wr_ = holder['f'].written
    ok = len(outs) == 1 and outs[0].kind == 'return' and len(wr_) == 5 and isinstance(wr_[0], Field) and wr_[0].value == b'MTrk' \
        and isinstance(wr_[1], Field) and wr_[1].code == 'L' and wr_[1].order == '>' and wire.value_equal(wr_[1].value, wire.size_of(wr_[2:]))
    ctx.require(ok, 'R08.4', 'write_chunk', ctx.where(wc), f'write_chunk writes {wr_!r}', construct=f'{wc.qname}::layout')


def r08_division(ctx):
    """Reader, writer and constructor agree on the division field of the header: every value a conformant file may carry -
    ticks per quarter note 1..32767 and the SMPTE forms with bit 15 set (-25 frames x 40 = E7 28, -30 x 80 = E2 50, which the
    library holds as a negative ticks_per_beat) - loads to exactly that value, and a file object holding it saves to it."""
    ai = smf.make_interp(ctx)
    cls = ctx.p.cls(smf.MF, 'MidiFile')
    o, load = ctx.p.lookup_method(cls, '_load')
    o, save = ctx.p.lookup_method(cls, 'save')
    if load is None or save is None:
        raise AnalysisError('MidiFile._load / save not found')
    ctx.fn(load)
    from ..fold import ClassRef
    n = 0
    trk = [VLQ(0), 0xff, 0x2f, VLQ(0)]
    for div, label in ((1, '1'), (96, '96'), (480, '480'), (32767, '32767'), (-6360, 'E7 28 (25 frames, 40 ticks)'), (-7600, 'E2 50 (30 frames, 80 ticks)'),
                       (-6144, 'E8 00 (24 frames, 0 ticks)')):
        for debug in (False,):
            n += 1
            stream = [Field('4s', b'MThd'), Field('L', 6), Field('h', 1), Field('h', 1), Field('h', div), Field('4s', b'MTrk'), Field('L', wire.size_of(trk))] + trk
            outs = ai.explore(lambda: ai.apply(ClassRef(cls), [], {'file': AFile(stream=list(stream), name='in'), 'debug': debug}, None))
            ok = len(outs) == 1 and outs[0].kind == 'return' and isinstance(outs[0].value, AObj) and outs[0].value.attrs.get('ticks_per_beat') == div \
                and isinstance(outs[0].value.attrs.get('tracks'), AList) and len(outs[0].value.attrs['tracks'].items) == 1
            ctx.require(ok, 'R08.4', f'load(division {label}{", debug" if debug else ""})', ctx.where(load),
                        f'a conformant file whose header says division {label} loads as {str(outs)[:240]}; expected ticks_per_beat == {div} and one track',
                        construct=f'{load.qname}::division')
        n += 1
        holder = {}

        def thunk_s():
            mf = ai.apply(ClassRef(cls), [], {'type': 1, 'ticks_per_beat': div}, None)
            ai.call_function(ctx.p.lookup_method(cls, 'add_track')[1], [mf], {})
            out = AFile(name='out')
            holder['out'] = out
            ai.call_function(save, [mf], {'file': out})
            return out
        outs = ai.explore(thunk_s)
        wr_ = holder['out'].written if 'out' in holder else []
        hdr = [x for x in wr_ if isinstance(x, Field) and x.code == 'h']
        ok = len(outs) == 1 and outs[0].kind == 'return' and len(hdr) == 3 and hdr[2].value == div
        ctx.require(ok, 'R08.4', f'save(division {label})', ctx.where(save), f'MidiFile(ticks_per_beat={div}).save() gives {str(outs)[:200]} and header fields '
                    f'{[h.value for h in hdr]}', construct=f'{save.qname}::division')
    ctx.floor('R08.4-division', n, 14)
    for q in ai.inlined:
        ctx.functions.add(q)


def r08_debug(ctx):
    """The debug wrapper is a transparent observer: its read()/tell() hand through exactly what the wrapped file gives (one
    read of the requested size, nothing consumed besides), and loading whole files with debug=True gives the same tracks -
    or the same rejection - as with debug=False."""
    cls = ctx.p.cls(smf.MF, 'DebugFileWrapper')
    rd = cls.methods.get('read')
    tl = cls.methods.get('tell')
    if rd is None or tl is None:
        raise AnalysisError('DebugFileWrapper.read/tell not found')
    ctx.fn(rd)
    ctx.fn(tl)
    ai = strict_interp(ctx)
    ai.builtin_summaries['print'] = lambda i_, a_, k_, n_: None
    n = 0
    b = [smf.sym(f'b{i}', 255) for i in range(6)]
    for size in (1, 3, 6, 8):
        holder = {}

        def thunk():
            inner = wire.AFile(stream=list(b), name='in')
            holder['inner'] = inner
            wrapper = ai.apply(ClassRef(cls), [inner], {}, None)
            got = ai.call_function(rd, [wrapper, size], {})
            pos = ai.call_function(tl, [wrapper], {})
            return got, pos
        outs = ai.explore(thunk)
        n += 1
        ok = len(outs) == 1 and outs[0].kind == 'return'
        why = f'{outs}'
        if ok:
            got, pos = outs[0].value
            inner = holder['inner']
            want = b[:size]
            items = list(got.items) if isinstance(got, AList) else []
            ok = len(items) == len(want) and all(x_ is y_ for x_, y_ in zip(items, want)) and inner.pos == min(size, len(b)) \
                and len(inner.reads) == 1 and pos == inner.consumed_len()
            why = f'read({size}) on a 6 byte file returns {got!r} after {len(inner.reads)} read(s) of the wrapped file, position {inner.pos}, tell() = {pos!r}'
        ctx.require(ok, 'R08.6', f'DebugFileWrapper.read({size})', ctx.where(rd), why, construct=f'{rd.qname}::transparent')
    # whole files, debug on and off
    mf = ctx.p.cls(smf.MF, 'MidiFile')
    o, load = ctx.p.lookup_method(mf, '_load')
    T = wire.StrSym('T')
    t = smf.tsym('t')
    good = [VLQ(t), 0xff, 0x03, VLQ(wire.size_of([T.bytes])), T.bytes, VLQ(5), 0x93, smf.sym('n', 127), smf.sym('v', 127), VLQ(0), smf.sym('n2', 127), 0,
            VLQ(1), 0xf0, VLQ(smf._plus1(wire.size_of([SeqVar('X', 127)]))), SeqVar('X', 127), 0xf7, VLQ(0), 0xff, 0x2f, VLQ(0)]
    bad = [VLQ(t), 0x93, smf.sym('hi', 100, 130), 1]
    for label, body in (('text, running status, sysex', good), ('invalid data byte', bad), ('truncated', good[:7])):
        res = {}
        for debug in (False, True):
            ai.wrapped_reads = 0

            def thunk2():
                claimed = wire.size_of(body) if label != 'truncated' else wire.size_of(body + [SeqVar('missing', 255, minlen=1)])
                stream = [Field('4s', b'MThd'), Field('L', 6), Field('h', 1), Field('h', 1), Field('h', 480), Field('4s', b'MTrk'), Field('L', claimed)] + list(body)
                return ai.apply(ClassRef(mf), [], {'file': wire.AFile(stream=stream, name='in'), 'debug': debug}, None)
            outs = ai.explore(thunk2)
            res[debug] = sorted(('return ' + re.sub(r'#\d+', '', repr(o_.value.attrs.get('tracks')))) if o_.kind == 'return' else f'raise {o_.exc}' for o_ in outs)
            res[debug, 'wrapped'] = ai.wrapped_reads
        n += 1
        ctx.require(res[False] == res[True] and res[True, 'wrapped'] > 0 and res[False, 'wrapped'] == 0, 'R08.6', f'MidiFile(file=<{label}>, debug=True)',
                    ctx.where(load), f'debug=False gives {res[False]}; debug=True gives {res[True]} ({res[True, "wrapped"]} reads through the wrapper)',
                    construct=f'{load.qname}::debug')
    ctx.floor('R08.6', n, 7)
    for q in ai.inlined:
        ctx.functions.add(q)


def r08_induction(ctx):
    ai = strict_interp(ctx)
    smf.inductive_agreement(ctx, ai, 'R08.2', 'R08.3')


def r08_alien_chunks(ctx):
    """SMF 1.0: a reader must skip chunk types it does not know ("programs should ignore chunk types they do not expect").
    A conformant file with a proprietary chunk before or between the track chunks loads to its tracks."""
    ai = strict_interp(ctx)
    mf = ctx.p.cls(smf.MF, 'MidiFile')
    o, load = ctx.p.lookup_method(mf, '_load')
    ctx.fn(load)
    t = smf.tsym('t')
    trk = [VLQ(t), 0x93, smf.sym('n', 127), smf.sym('v', 127), VLQ(0), 0xff, 0x2f, VLQ(0)]
    alien = [Field('4s', b'XFIH'), Field('L', 3), 1, 2, 3]
    mtrk = [Field('4s', b'MTrk'), Field('L', wire.size_of(trk))] + trk
    hdr = [Field('4s', b'MThd'), Field('L', 6), Field('h', 1), Field('h', 1), Field('h', 480)]
    n = 0
    for label, stream in (('before the track', hdr + alien + mtrk), ('after the track', hdr + mtrk + alien)):
        outs = ai.explore(lambda: ai.apply(ClassRef(mf), [], {'file': wire.AFile(stream=list(stream), name='in')}, None))
        n += 1
        ok = len(outs) == 1 and outs[0].kind == 'return'
        if ok:
            tr = outs[0].value.attrs.get('tracks')
            ok = isinstance(tr, AList) and len(tr.items) == 1
        ctx.require(ok, 'R08.3', f'load(file with an unknown chunk {label})', ctx.where(load),
                    f'a conformant file with a chunk of unknown type {label} gives {outs}; the chunk must be skipped',
                    construct=f'{load.qname}::unknown-chunk')
    ctx.floor('R08.3-alien', n, 2)
    for q in ai.inlined:
        ctx.functions.add(q)


def r08_codec(ctx):
    """Text events: the payload bytes become the text through encode_string/decode_string and nothing else (bodies shared with
    C17 R17.4) - the scenarios use symbolic text, so stripping, normalising or caching inside the helpers is decided here."""
    from . import c17
    ctx.borrow(c17.r17_4, 'R08.7')


def r08_charset(ctx):
    """The bytes written for a text event are its text in the file's charset, and the reader decodes with the same: save and
    load run their track loops inside the charset scope (shared with C17 R17.1/R17.3)."""
    from . import c17
    ctx.borrow(c17.r17_scoping, 'R08.8')


RULES = [('R08.4-division', r08_division), ('R08.8', r08_charset), ('R08.7', r08_codec), ('R08-alien', r08_alien_chunks), ('R08-induction', r08_induction), ('R08.2', r08_writer), ('R08.3', r08_reader), ('R08.5', r08_clip), ('R08.1', r08_vlq), ('R08.4', r08_header), ('R08.6', r08_debug)]
