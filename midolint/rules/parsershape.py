"""Structural rules on mido.parser.Parser / Tokenizer.feed / __iter__ shared by
C04, C05, C06, C19."""
from __future__ import annotations

import ast

from .. import astq
from ..model import AnalysisError, FuncInfo, unparse
from ..paths import enumerate_paths

TOK = 'mido.tokenizer'
PAR = 'mido.parser'


def body_wo_doc(fn_node):
    b = list(fn_node.body)
    if b and isinstance(b[0], ast.Expr) and isinstance(b[0].value, ast.Constant) and isinstance(b[0].value.value, str):
        b = b[1:]
    return b


def is_self_attr(e, attr):
    return isinstance(e, ast.Attribute) and isinstance(e.value, ast.Name) and e.value.id == 'self' and e.attr == attr


def nonempty_test(test, attr):
    """test means 'self.<attr> is non-empty'."""
    t = unparse(test).replace(' ', '')
    x = f'self.{attr}'
    return t in {x, f'len({x})', f'len({x})>0', f'len({x})!=0', f'len({x})>=1', f'0<len({x})', f'bool({x})',
                 f'0!=len({x})', f'1<=len({x})'}


def is_pop_left_loop(fn: FuncInfo, attr):
    """while <self.attr non-empty>: yield self.attr.popleft()   (nothing else)"""
    b = body_wo_doc(fn.node)
    if len(b) != 1 or not isinstance(b[0], ast.While) or b[0].orelse:
        return False, 'body is not a single while loop'
    w = b[0]
    if not nonempty_test(w.test, attr):
        return False, f'loop condition {unparse(w.test)!r} is not "self.{attr} is non-empty"'
    if len(w.body) != 1 or not isinstance(w.body[0], ast.Expr) or not isinstance(w.body[0].value, ast.Yield):
        return False, 'loop body is not a single yield'
    y = w.body[0].value.value
    if not (isinstance(y, ast.Call) and isinstance(y.func, ast.Attribute) and y.func.attr == 'popleft'
            and is_self_attr(y.func.value, attr) and not y.args):
        return False, f'yields {unparse(y) if y is not None else None!r}, not self.{attr}.popleft()'
    return True, ''


def _tok_state(tok):
    from ..absint import AList
    st = {}
    for k, v in tok.attrs.items():
        st[k] = v
    return st


def tokenizer_semantics(ctx, rule):
    """Tokenizer.feed is a fold of feed_byte, abstractly interpreted: after feeding a symbolic stream in one call, cut in two at
    every offset, or byte by byte, the tokenizer is in the same state (status, buffer, expected length) with the same tokens
    queued in the same order; iteration and len() hand the tokens out first-in first-out and leave the queue empty."""
    from .. import smf
    from ..absint import AList, AObj
    from ..fold import ClassRef
    ai = smf.make_interp(ctx)
    cls = ctx.p.cls(TOK, 'Tokenizer')
    o, feed = ctx.p.lookup_method(cls, 'feed')
    o, fb = ctx.p.lookup_method(cls, 'feed_byte')
    o, it = ctx.p.lookup_method(cls, '__iter__')
    o, ln = ctx.p.lookup_method(cls, '__len__')
    if feed is None or fb is None or it is None:
        raise AnalysisError('Tokenizer.feed/feed_byte/__iter__ not found')
    for f in (feed, fb, it):
        ctx.fn(f)
    w = ctx.where(feed)
    n1, v1, d0, d1, p1 = (smf.sym(x, 127) for x in ('n1', 'v1', 'd0', 'd1', 'p1'))
    stream = [0x40, 0x93, n1, v1, 0xf8, 0xf0, d0, 0xfe, d1, 0xf7, 0xf6, 0xc2, p1, 0xb1, n1]     # ends inside a control_change

    def run(chunks, how, kind='list'):
        holder = {}

        def thunk():
            t = ai.apply(ClassRef(cls), [], {}, None)
            holder['t'] = t
            for ch in chunks:
                if how == 'bytes':
                    for b in ch:
                        ai.call_function(fb, [t, b], {})
                else:
                    ai.call_function(feed, [t, AList(list(ch), kind)], {})
            return t
        outs = ai.explore(thunk)
        return outs

    def snapshot(t):
        out = {}
        for k, v in t.attrs.items():
            if isinstance(v, AList):
                out[k] = [list(x.items) if isinstance(x, AList) else x for x in v.items]
            elif isinstance(v, AObj):
                out[k] = {'<class>': v.cls.name if v.cls is not None else None, **snapshot(v)}      # state kept in a helper object
            else:
                out[k] = v
        return out

    def same(a, b):
        if isinstance(a, dict) and isinstance(b, dict):
            return set(a) == set(b) and all(same(a[k], b[k]) for k in a)
        if isinstance(a, list) and isinstance(b, list):
            return len(a) == len(b) and all(same(x, y) for x, y in zip(a, b))
        from .. import wire
        return a is b or wire.value_equal(a, b)
    ref_outs = run([stream], 'bytes')
    if len(ref_outs) != 1 or ref_outs[0].kind != 'return':
        ctx.fail(rule, 'tokenizer-fold[byte by byte]', w, f'feeding byte by byte does not complete on one path: {ref_outs}', construct=f'{fb.qname}::outcomes')
        return
    ref = snapshot(ref_outs[0].value)
    nq = [k for k, v in ref.items() if isinstance(v, list) and v and isinstance(v[0], list)]
    expected = [[0x93, n1, v1], [0xf8], [0xfe], [0xf0, d0, d1, 0xf7], [0xf6], [0xc2, p1]]
    ctx.require(len(nq) == 1 and same(ref[nq[0]], expected), rule, 'tokenizer-fold[tokens]', w,
                f'after the stream the tokenizer holds {ref}; the queue must hold {expected} (in order of completion)',
                construct=f'{fb.qname}::tokens')
    variants = [('at once', [stream])] + [(f'cut at {c}', [stream[:c], stream[c:]]) for c in range(1, len(stream))] + \
        [('three chunks', [stream[:4], stream[4:9], stream[9:]]), ('with empty chunks', [[], stream[:6], [], stream[6:], []])]
    # the chunk may be any iterable of integers: lists, tuples, bytes and bytearray objects are what callers pass
    variants = [(lb, ch, 'list') for lb, ch in variants] + \
        [(f'cut at {c} ({kind})', [stream[:c], stream[c:]], kind) for kind in ('bytes', 'bytearray', 'tuple') for c in (3, 6, 7, 9, 12)]
    for label, chunks, kind in variants:
        outs = run(chunks, 'feed', kind)
        ok = len(outs) == 1 and outs[0].kind == 'return' and same(snapshot(outs[0].value), ref)
        ctx.require(ok, rule, f'tokenizer-fold[{label}]', w,
                    f'feed() {label} leaves the tokenizer as {snapshot(outs[0].value) if len(outs) == 1 and outs[0].kind == "return" else outs!r}; '
                    f'feeding the same bytes one by one leaves it as {ref}', construct=f'{feed.qname}::fold')
    # retrieval: first-in first-out, queue empty afterwards
    def thunk_it():
        t = ai.apply(ClassRef(cls), [], {}, None)
        ai.call_function(feed, [t, AList(list(stream), 'list')], {})
        n_before = ai.call_function(ln, [t], {}) if ln is not None else None
        toks = list(ai.iterate(t, None))
        n_after = ai.call_function(ln, [t], {}) if ln is not None else None
        again = list(ai.iterate(t, None))
        return n_before, toks, n_after, again
    outs = ai.explore(thunk_it)
    ok = len(outs) == 1 and outs[0].kind == 'return'
    why = f'{outs}'
    if ok:
        n_before, toks, n_after, again = outs[0].value
        got = [list(x.items) if isinstance(x, AList) else x for x in toks]
        ok = same(got, ref[nq[0]]) if nq else False
        ok = ok and (ln is None or (n_before == 6 and n_after == 0)) and again == []
        why = f'len() = {n_before!r}, iteration gives {got}, then len() = {n_after!r} and a second iteration gives {again}; expected the 6 queued tokens in order, then nothing'
    ctx.require(ok, rule, 'tokenizer-iteration', ctx.where(it), why, construct=f'{it.qname}::fifo')
    for q in ai.inlined:
        ctx.functions.add(q)


def check_tokenizer_feed(ctx, rule):
    tokenizer_semantics(ctx, rule)


def check_tokenizer_iter(ctx, rule):
    # decided together with the fold (tokenizer_semantics); kept as an entry point for the rules that name it
    if not ctx.cache.get(('tokenizer_semantics', rule)):
        ctx.cache[('tokenizer_semantics', rule)] = True
        tokenizer_semantics(ctx, rule)


def check_decode(ctx, rule):
    cls = ctx.p.cls(PAR, 'Parser')
    o, fn = ctx.p.lookup_method(cls, '_decode')
    if fn is None:
        raise AnalysisError('Parser._decode not found')
    ctx.fn(fn)
    w = ctx.where(fn)
    b = body_wo_doc(fn.node)
    ok = False
    why = 'Parser._decode is not "for token in self._tok: self.messages.append(Message.from_bytes(token))"'
    if len(b) == 1 and isinstance(b[0], ast.For) and not b[0].orelse and is_self_attr(b[0].iter, '_tok') \
            and isinstance(b[0].target, ast.Name):
        lb = b[0].body
        if len(lb) == 1 and isinstance(lb[0], ast.Expr) and isinstance(lb[0].value, ast.Call):
            c = lb[0].value
            if isinstance(c.func, ast.Attribute) and c.func.attr == 'append' and is_self_attr(c.func.value, 'messages') \
                    and len(c.args) == 1 and isinstance(c.args[0], ast.Call):
                inner = c.args[0]
                q = astq.callee_qname(ctx.p, fn, inner)
                ctx.call_sites += 1
                if q == 'mido/messages/messages.py::Message.from_bytes' and len(inner.args) == 1 and \
                        isinstance(inner.args[0], ast.Name) and inner.args[0].id == b[0].target.id and not inner.keywords:
                    ok = True
                else:
                    why = f'tokens are converted with {unparse(inner)!r}, not Message.from_bytes(token)'
            else:
                why = f'loop body is {unparse(lb[0])!r}: tokens are not appended (in order) to self.messages'
        else:
            why = 'loop body has more than the append of the decoded token'
    ctx.require(ok, rule, 'Parser._decode', w, why, construct=f'{fn.qname}::shape')


def check_parser_feeds(ctx, rule):
    cls = ctx.p.cls(PAR, 'Parser')
    for name in ('feed', 'feed_byte'):
        o, fn = ctx.p.lookup_method(cls, name)
        if fn is None:
            raise AnalysisError(f'Parser.{name} not found')
        ctx.fn(fn)
        paths = enumerate_paths(fn.node)
        ctx.paths += len(paths)
        param = fn.params()[1] if len(fn.params()) > 1 else None
        ok = bool(paths)
        why = ''
        for p in paths:
            calls = []
            for e in p.events:
                if e.kind in ('stmt', 'return'):
                    for c in astq.calls(e.node):
                        calls.append(unparse(c))
                    if isinstance(e.node, (ast.Assign, ast.AugAssign)):
                        ok = False
                        why = f'{name} assigns state: {unparse(e.node)}'
            want = [f'self._tok.{name}({param})', 'self._decode()']
            if calls != want or p.status not in ('fall', 'return'):
                ok = False
                why = why or f'a path of Parser.{name} performs {calls} instead of {want}'
        ctx.require(ok, rule, f'Parser.{name}', ctx.where(fn), why, construct=f'{fn.qname}::feed-then-decode')


def check_parser(ctx, rule):
    parser_semantics(ctx, rule)
    check_parser_init(ctx, rule)


def parser_semantics(ctx, rule):
    """Parser feed / feed_byte / get_message / pending / __len__ / iteration / parse / parse_all, abstractly interpreted on one
    stream cut in different ways with retrieval calls in between (symbolic data bytes): messages come out first-in first-out,
    pending() is the number still retrievable, get_message() is None exactly when nothing is pending, and the list of messages
    does not depend on the chunking."""
    from .. import smf, wire
    from ..absint import AList, AObj
    from ..fold import ClassRef
    ai = smf.make_interp(ctx)
    cls = ctx.p.cls(PAR, 'Parser')
    w = f'{cls.module.relpath}:{cls.node.lineno} Parser'
    n1, v1, n2, v2, d0, d1, d2 = (smf.sym(x, 127) for x in ('n1', 'v1', 'n2', 'v2', 'd0', 'd1', 'd2'))
    stream = [0x93, n1, v1, 0xf8, 0x85, n2, v2, 0xf0, d0, d1, d2, 0xf7, 0x40, 0xc1]
    want = [('note_on', {'channel': 3, 'note': n1, 'velocity': v1}), ('clock', {}), ('note_off', {'channel': 5, 'note': n2, 'velocity': v2}),
            ('sysex', {'data': AList([d0, d1, d2], 'tuple')})]

    def call(obj, name, *args):
        o, fn = ctx.p.lookup_method(obj.cls, name)
        if fn is None:
            raise AnalysisError(f'Parser.{name} not found')
        ctx.fn(fn)
        return ai.call_function(fn, [obj] + list(args), {})

    def same(msg, exp):
        if not isinstance(msg, AObj) or msg.attrs.get('type') != exp[0]:
            return False
        return all(wire.value_equal(msg.attrs.get(k), v) for k, v in exp[1].items())

    def history():
        p = ai.apply(ClassRef(cls), [], {}, None)
        obs = []
        obs.append(('pending', call(p, 'pending')))
        obs.append(('get', call(p, 'get_message')))
        call(p, 'feed', AList(stream[:2], 'list'))
        obs.append(('pending', call(p, 'pending')))
        obs.append(('get', call(p, 'get_message')))
        call(p, 'feed_byte', stream[2])
        obs.append(('pending', call(p, 'pending')))
        call(p, 'feed', AList(stream[3:9], 'list'))
        obs.append(('pending', call(p, 'pending')))
        obs.append(('len', call(p, '__len__')))
        obs.append(('get', call(p, 'get_message')))
        obs.append(('pending', call(p, 'pending')))
        obs.append(('iter', list(ai.iterate(p, None))))
        obs.append(('pending', call(p, 'pending')))
        obs.append(('get', call(p, 'get_message')))
        call(p, 'feed', AList(stream[9:], 'list'))
        obs.append(('pending', call(p, 'pending')))
        obs.append(('get', call(p, 'get_message')))
        obs.append(('get', call(p, 'get_message')))
        return obs
    outs = ai.explore(history)
    import os
    if os.environ.get('MIDOLINT_DEBUG'):
        for o in outs:
            print('DBG', [(getattr(d[0], 'lineno', None), d[1], d[2]) for d in o.decisions])
    if len(outs) != 1 or outs[0].kind != 'return':
        ctx.fail(rule, 'parser-history', w, f'feeding and retrieving does not complete on one path: {outs}', construct=f'{cls.qname}::history::outcomes')
    else:
        obs = outs[0].value
        exp = [('pending', 0), ('get', None), ('pending', 0), ('get', None), ('pending', 1), ('pending', 3), ('len', 3), ('get', want[0]), ('pending', 2),
               ('iter', [want[1], want[2]]), ('pending', 0), ('get', None), ('pending', 1), ('get', want[3]), ('get', None)]
        for i, ((k, got), (k2, e)) in enumerate(zip(obs, exp)):
            if k in ('pending', 'len'):
                ok = got == e
            elif k == 'get':
                ok = (got is None) if e is None else same(got, e)
            else:
                ok = len(got) == len(e) and all(same(a, b) for a, b in zip(got, e))
            sub = {'pending': 'pending', 'len': 'pending', 'get': 'get_message', 'iter': 'iteration'}[k]
            ctx.require(ok, rule, f'parser-history[{i}:{k}]', w,
                        f'step {i} ({k}) observes {got!r}; with first-in first-out delivery of the messages parsed so far it must be {e!r}',
                        construct=f'{cls.qname}::history::{sub}')
    # chunking independence on this stream: at once, byte by byte, every 2-cut, constructor, parse_all, parse
    def all_msgs(chunks, how, kind='list'):
        def thunk():
            if how == 'ctor':
                p = ai.apply(ClassRef(cls), [AList(list(stream), kind)], {}, None)
            elif how == 'ctor+feed':
                # the constructor is one more way of feeding: what it leaves open, the next feed() completes
                p = ai.apply(ClassRef(cls), [AList(list(chunks[0]), kind)], {}, None)
                for ch in chunks[1:]:
                    call(p, 'feed', AList(list(ch), kind))
            else:
                p = ai.apply(ClassRef(cls), [], {}, None)
                for ch in chunks:
                    if how == 'bytes':
                        for b in ch:
                            call(p, 'feed_byte', b)
                    else:
                        call(p, 'feed', AList(list(ch), kind))
            return list(ai.iterate(p, None)), call(p, 'pending')
        return ai.explore(thunk)
    variants = [('at once', [stream], 'feed', 'list'), ('byte by byte', [stream], 'bytes', 'list'), ('constructor', [stream], 'ctor', 'list')]
    for cut in range(1, len(stream)):
        variants.append((f'cut at {cut}', [stream[:cut], stream[cut:]], 'feed', 'list'))
        variants.append((f'the first {cut} bytes to the constructor, the rest to feed()', [stream[:cut], stream[cut:]], 'ctor+feed', 'list'))
    # "any iterable of integers": a tuple, and an iterator that can be walked only once (a generator, map(), iter(...))
    for kind in ('tuple', 'iterator'):
        variants.append((f'at once, as {kind}', [stream], 'feed', kind))
        variants.append((f'constructor, given {kind}', [stream], 'ctor', kind))
        variants.append((f'cut at 5, as {kind}', [stream[:5], stream[5:]], 'feed', kind))
    for label, chunks, how, kind in variants:
        outs = all_msgs(chunks, how, kind)
        ok = len(outs) == 1 and outs[0].kind == 'return' and len(outs[0].value[0]) == len(want) and \
            all(same(a, b) for a, b in zip(outs[0].value[0], want)) and outs[0].value[1] == 0
        ctx.require(ok, rule, f'parser-chunking[{label}]', w,
                    f'feeding the stream {label} gives {outs[0].value if len(outs) == 1 and outs[0].kind == "return" else outs!r}; expected the 4 messages {[x[0] for x in want]}',
                    construct=f'{cls.qname}::chunking')
    # short streams whose LAST byte completes a message (one-byte messages are completed by a status byte, sysex by F7,
    # the others by a data byte): nothing may stay behind in the tokenizer after the feeding call, whichever entry point is used
    tails = [('clock', [0xf8], ['clock']), ('tune_request', [0xf6], ['tune_request']),
             ('note_on then start', [0x93, n1, v1, 0xfa], ['note_on', 'start']),
             ('sysex then active_sensing', [0xf0, d0, 0xf7, 0xfe], ['sysex', 'active_sensing']),
             ('program_change', [0xc2, n2], ['program_change']), ('sysex', [0xf0, d0, d1, 0xf7], ['sysex']),
             # a real-time message inside a sysex that has NOT ended yet is deliverable at once, whatever is still open
             ('clock inside an unfinished sysex', [0xf0, d0, 0xf8], ['clock']),
             ('note_on, stop, then an unfinished sysex', [0x93, n1, v1, 0xfc, 0xf0, d0], ['note_on', 'stop'])]
    # the same message several times in a row is that many messages (keep-alives and clock ticks are counted by receivers)
    for sb, tname in ((0xf8, 'clock'), (0xfa, 'start'), (0xfb, 'continue'), (0xfc, 'stop'), (0xfe, 'active_sensing'), (0xff, 'reset'), (0xf6, 'tune_request')):
        tails.append((f'{tname} twice', [sb, sb], [tname, tname]))
    tails += [('three active_sensing after a note_on', [0x93, n1, v1, 0xfe, 0xfe, 0xfe], ['note_on'] + ['active_sensing'] * 3),
              ('the same note_on twice', [0x93, n1, v1, 0x93, n1, v1], ['note_on', 'note_on']),
              ('the same sysex twice', [0xf0, d0, 0xf7, 0xf0, d0, 0xf7], ['sysex', 'sysex']),
              ('active_sensing, clock, active_sensing', [0xfe, 0xf8, 0xfe], ['active_sensing', 'clock', 'active_sensing'])]
    for label, st, types in tails:
        for how in ('feed', 'bytes', 'ctor'):
            def thunk():
                if how == 'ctor':
                    p = ai.apply(ClassRef(cls), [AList(list(st), 'list')], {}, None)
                else:
                    p = ai.apply(ClassRef(cls), [], {}, None)
                    if how == 'bytes':
                        for b in st:
                            call(p, 'feed_byte', b)
                    else:
                        call(p, 'feed', AList(list(st), 'list'))
                n_pending = call(p, 'pending')
                first = call(p, 'get_message')
                return n_pending, first, list(ai.iterate(p, None))
            outs = ai.explore(thunk)
            ok = len(outs) == 1 and outs[0].kind == 'return'
            if ok:
                n_pending, first, rest = outs[0].value
                got = [x.attrs.get('type') if isinstance(x, AObj) else x for x in [first] + rest]
                ok = n_pending == len(types) and got == types
            how_txt = {'feed': 'feed()', 'bytes': 'feed_byte() per byte', 'ctor': 'the constructor'}[how]
            ctx.require(ok, rule, f'parser-tail[{label}, {how_txt}]', w,
                        f'after feeding {label} through {how_txt}: pending(), get_message(), rest = '
                        f'{outs[0].value if len(outs) == 1 and outs[0].kind == "return" else outs!r}; expected {len(types)} pending: {types}',
                        construct=f'{cls.qname}::tail::{how}')
    # a feeding call that is refused part way (an item that is not a byte behind a complete message): whatever the parser then
    # says is pending is what can be retrieved - pending() times get_message() give messages, the next one gives None
    from ..absint import AbsRaise as _AR
    for bad, blabel in ((256, '256'), (-1, '-1'), ('x', "'x'")):
        for how in ('feed', 'bytes'):
            def thunk_r(bad=bad, how=how):
                p = ai.apply(ClassRef(cls), [], {}, None)
                items = [0x93, n1, v1, 0xf8, bad, 0x85]
                refused = None
                try:
                    if how == 'bytes':
                        for b in items:
                            call(p, 'feed_byte', b)
                    else:
                        call(p, 'feed', AList(list(items), 'list'))
                except _AR as e:
                    refused = e.exc
                n_pending = call(p, 'pending')
                n_len = call(p, '__len__')
                got = [call(p, 'get_message') for _ in range(4)]
                return refused, n_pending, n_len, got
            outs = ai.explore(thunk_r)
            ok = len(outs) == 1 and outs[0].kind == 'return'
            detail = f'{outs}'
            if ok:
                refused, n_pending, n_len, got = outs[0].value
                k = sum(1 for x in got if x is not None)
                ok = refused in ('ValueError', 'TypeError') and isinstance(n_pending, int) and n_pending == n_len == k and all(x is not None for x in got[:k]) \
                    and all(x is None for x in got[k:])
                detail = (f'the call ends with {refused}; pending() = {n_pending}, len() = {n_len}, and four get_message() calls give '
                          f'{[x.attrs.get("type") if isinstance(x, AObj) else x for x in got]}')
            how_txt = {'feed': 'feed()', 'bytes': 'feed_byte() per byte'}[how]
            ctx.require(ok, rule, f'parser-refused[{blabel} behind a note_on and a clock, {how_txt}]', w,
                        f'{detail}: pending() must be the number of messages that can still be retrieved, also after a refused call',
                        construct=f'{cls.qname}::pending-after-refusal')
    # retrieval interleaved with feeding WHILE an iteration is under way: a loop over the parser that feeds more bytes, or takes
    # a message with get_message(), from inside its body.  The loop sees what is pending when it asks, not a count fixed at its start.
    probe_src = ("def probe_feed(p, more):\n"
                 "    out = []\n"
                 "    for m in p:\n"
                 "        out.append(m)\n"
                 "        if len(out) == 1:\n"
                 "            p.feed(more)\n"
                 "    return out, p.pending()\n"
                 "def probe_get(p):\n"
                 "    out = []\n"
                 "    for m in p:\n"
                 "        out.append(m)\n"
                 "        out.append(p.get_message())\n"
                 "    return out, p.pending()\n")
    ptree = ast.parse(probe_src)
    from ..model import FuncInfo as _FI, add_parents as _ap
    _ap(ptree)
    pm_ = ctx.p.module(PAR)
    probes = {f.name: _FI(f.name, pm_, f) for f in ptree.body}
    first = [0x93, n1, v1, 0xf8]
    more = [0x83, n2, v1, 0xfa, 0xfc]

    def run_probe(name, extra):
        def thunk():
            p = ai.apply(ClassRef(cls), [AList(list(first), 'list')], {}, None)
            return ai.call_function(probes[name], [p] + extra(), {})
        return ai.explore(thunk)
    outs = run_probe('probe_feed', lambda: [AList(list(more), 'list')])
    ok = len(outs) == 1 and outs[0].kind == 'return'
    got = None
    if ok:
        items, left = ai.iterate(outs[0].value, None)
        got = [x.attrs.get('type') if isinstance(x, AObj) else x for x in (items.items if isinstance(items, AList) else items)]
        ok = got == ['note_on', 'clock', 'note_off', 'start', 'stop'] and left == 0
    ctx.require(ok, rule, 'parser-iteration[feed() from inside the loop]', w,
                f'a loop over a parser holding note_on, clock that feeds note_off, start, stop after its first message sees {got if got is not None else outs}; '
                "expected all five in order and nothing pending afterwards (the loop must not stop at the count it started with)",
                construct=f'{cls.qname}::iteration::feed-inside')
    outs = run_probe('probe_get', lambda: [])
    ok = len(outs) == 1 and outs[0].kind == 'return'
    got = None
    if ok:
        items, left = ai.iterate(outs[0].value, None)
        got = [x.attrs.get('type') if isinstance(x, AObj) else x for x in (items.items if isinstance(items, AList) else items)]
        ok = got == ['note_on', 'clock'] and left == 0
    ctx.require(ok, rule, 'parser-iteration[get_message() from inside the loop]', w,
                f'a loop over a parser holding note_on, clock whose body also calls get_message() sees {got if got is not None else outs}; '
                "expected note_on from the loop, clock from get_message(), then the end of the loop (no IndexError from a count taken earlier)",
                construct=f'{cls.qname}::iteration::get-inside')
    m = ctx.p.module(PAR)
    for fname in ('parse_all', 'parse'):
        f = m.functions.get(fname)
        if f is None:
            continue
        ctx.fn(f)
        outs = ai.explore(lambda: ai.call_function(f, [AList(list(stream), 'list')], {}))
        if fname == 'parse_all':
            v = outs[0].value if len(outs) == 1 and outs[0].kind == 'return' else None
            items = v.items if isinstance(v, AList) else v if isinstance(v, list) else None
            ok = items is not None and len(items) == len(want) and all(same(a, b) for a, b in zip(items, want))
        else:
            ok = len(outs) == 1 and outs[0].kind == 'return' and same(outs[0].value, want[0])
        ctx.require(ok, rule, fname, ctx.where(f), f'{fname}(stream) gives {outs}', construct=f'{f.qname}::result')
        # the same stream behind bytes that belong to no message, given as a list, a tuple and a one-shot iterator: the first
        # message is still the note_on (an iterator can be walked once - whoever looks at the data first must keep what it saw)
        for plabel, prefix in (('a stray data byte', [d0]), ('a cut-off note_off', [0x85, n2]), ('an undefined status byte', [0xf5])):
            for kind in ('list', 'tuple', 'iterator'):
                outs = ai.explore(lambda: ai.call_function(f, [AList(list(prefix) + list(stream), kind)], {}))
                if fname == 'parse_all':
                    v = outs[0].value if len(outs) == 1 and outs[0].kind == 'return' else None
                    items = v.items if isinstance(v, AList) else v if isinstance(v, list) else None
                    ok = items is not None and len(items) == len(want) and all(same(a, b) for a, b in zip(items, want))
                else:
                    ok = len(outs) == 1 and outs[0].kind == 'return' and same(outs[0].value, want[0])
                ctx.require(ok, rule, f'{fname}({plabel} in front, as {kind})', ctx.where(f),
                            f'{fname}() on {plabel} followed by the stream, given as a {kind}, gives {str(outs)[:300]}', construct=f'{f.qname}::prefix')
        # input that holds no complete message: nothing comes out and nothing is raised
        for label, data in (('no bytes', []), ('a stray data byte', [n1]), ('a cut-off note_on', [0x93, n1]), ('an unfinished sysex', [0xf0, d0, d1]),
                            ('an undefined status byte', [0xf4])):
            outs = ai.explore(lambda: ai.call_function(f, [AList(list(data), 'list')], {}))
            v = outs[0].value if len(outs) == 1 and outs[0].kind == 'return' else outs
            if fname == 'parse_all':
                ok = len(outs) == 1 and outs[0].kind == 'return' and (v == [] or (isinstance(v, AList) and not v.items))
            else:
                ok = len(outs) == 1 and outs[0].kind == 'return' and v is None
            ctx.require(ok, rule, f'{fname}({label})', ctx.where(f),
                        f'{fname}() on {label} gives {v!r}; expected {"[]" if fname == "parse_all" else "None"} and no exception',
                        construct=f'{f.qname}::no-message')
    for q in ai.inlined:
        ctx.functions.add(q)


def check_parser_init(ctx, rule):
    """Parser() and Tokenizer(), built abstractly through their constructors: an empty, unbounded first-in first-out queue each
    (a deque with maxlen silently drops the oldest entry once full), a fresh tokenizer owned by the parser, idle state."""
    from .. import smf
    from ..absint import AList, AObj
    from ..fold import ClassRef
    ai = smf.make_interp(ctx)
    for modname, clsname in ((PAR, 'Parser'), (TOK, 'Tokenizer')):
        cls = ctx.p.cls(modname, clsname)
        o, fn = ctx.p.lookup_method(cls, '__init__')
        ctx.fn(fn)
        w = ctx.where(fn)
        outs = ai.explore(lambda: (ai.apply(ClassRef(cls), [], {}, None), ai.apply(ClassRef(cls), [], {}, None)))
        if len(outs) != 1 or outs[0].kind != 'return':
            ctx.fail(rule, f'{clsname}()', w, f'construction without data: {outs}', construct=f'{fn.qname}::construct')
            continue
        a, b = outs[0].value
        queues = []

        def walk(o_, path, seen):
            if id(o_) in seen:
                return
            seen.add(id(o_))
            if isinstance(o_, AList) and o_.kind == 'deque':
                queues.append((path, o_))
            elif isinstance(o_, AObj):
                for k, v in o_.attrs.items():
                    walk(v, f'{path}.{k}', seen)
        walk(a, clsname, set())
        qa = list(queues)
        queues.clear()
        walk(b, clsname, set())
        ctx.require(bool(qa), rule, f'{clsname}().queue', w, 'no deque found in the constructed object', construct=f'{fn.qname}::messages')
        for (path, q), (_, q2) in zip(qa, queues):
            ctx.require(not q.items and getattr(q, 'maxlen', None) is None, rule, f'{path}', w,
                        f'{path} starts as {q!r} with maxlen={getattr(q, "maxlen", None)!r}: a bounded queue silently drops the oldest messages once '
                        'it is full (the queue is only drained after a whole feed() call)', construct=f'{fn.qname}::messages')
            ctx.require(q is not q2, rule, f'{path}.fresh', w, 'two instances share one queue object', construct=f'{fn.qname}::shared-queue')
        if clsname == 'Parser':
            toks = [v for v in a.attrs.values() if isinstance(v, AObj) and v.cls is not None and v.cls.name == 'Tokenizer']
            toks_b = [v for v in b.attrs.values() if isinstance(v, AObj) and v.cls is not None and v.cls.name == 'Tokenizer']
            ctx.require(len(toks) == 1 and len(toks_b) == 1 and toks[0] is not toks_b[0], rule, 'Parser()._tok', w,
                        'each parser must own one fresh Tokenizer', construct=f'{fn.qname}::_tok')
    for q in ai.inlined:
        ctx.functions.add(q)


def check_retrieval(ctx, rule):
    cls = ctx.p.cls(PAR, 'Parser')
    o, it = ctx.p.lookup_method(cls, '__iter__')
    if it is None:
        raise AnalysisError('Parser.__iter__ not found')
    ctx.fn(it)
    ok, why = is_pop_left_loop(it, 'messages')
    ctx.require(ok, rule, 'Parser.__iter__', ctx.where(it), f'messages are not handed out first-in first-out: {why}',
                construct=f'{it.qname}::fifo')
    for name in ('pending', '__len__'):
        o, fn = ctx.p.lookup_method(cls, name)
        if fn is None:
            ctx.fail(rule, f'Parser.{name}', f'{cls.module.relpath}:{cls.node.lineno} Parser', f'Parser.{name} not found',
                     construct=f'{cls.qname}::{name}')
            continue
        ctx.fn(fn)
        b = body_wo_doc(fn.node)
        ok = len(b) == 1 and isinstance(b[0], ast.Return) and unparse(b[0].value) == 'len(self.messages)'
        ctx.require(ok, rule, f'Parser.{name}', ctx.where(fn),
                    f'{name}() is not len(self.messages) - the number of messages that can still be retrieved',
                    construct=f'{fn.qname}::len')
    o, gm = ctx.p.lookup_method(cls, 'get_message')
    if gm is None:
        raise AnalysisError('Parser.get_message not found')
    ctx.fn(gm)
    b = body_wo_doc(gm.node)
    ok = False
    why = 'get_message() does not return the first pending message, or None exactly when nothing is pending'
    if len(b) == 1 and isinstance(b[0], ast.For) and isinstance(b[0].iter, ast.Name) and b[0].iter.id == 'self' \
            and isinstance(b[0].target, ast.Name):
        lb = b[0].body
        first_ret = lb and isinstance(lb[0], ast.Return) and isinstance(lb[0].value, ast.Name) and lb[0].value.id == b[0].target.id
        els = b[0].orelse
        else_none = (not els) or (len(els) == 1 and isinstance(els[0], ast.Return) and (els[0].value is None or astq.const_value(els[0].value) is None and isinstance(els[0].value, ast.Constant)))
        ok = bool(first_ret and else_none)
    elif len(b) == 2 and isinstance(b[0], ast.For) and isinstance(b[0].iter, ast.Name) and b[0].iter.id == 'self' \
            and isinstance(b[0].target, ast.Name) and not b[0].orelse and isinstance(b[1], ast.Return):
        lb = b[0].body
        first_ret = lb and isinstance(lb[0], ast.Return) and isinstance(lb[0].value, ast.Name) and lb[0].value.id == b[0].target.id
        ok = bool(first_ret and (b[1].value is None or (isinstance(b[1].value, ast.Constant) and b[1].value.value is None)))
    else:
        # if self.messages: return self.messages.popleft() / return None
        paths = enumerate_paths(gm.node)
        good = bool(paths)
        for p in paths:
            conds = p.conds()
            ex = p.exit_node()
            if len(conds) == 1 and nonempty_test(conds[0][0], 'messages'):
                if conds[0][1]:
                    good = good and isinstance(ex, ast.Return) and ex.value is not None and unparse(ex.value) == 'self.messages.popleft()'
                else:
                    good = good and (ex is None or ex.value is None or (isinstance(ex.value, ast.Constant) and ex.value.value is None))
            else:
                good = False
        ok = good
    ctx.require(ok, rule, 'Parser.get_message', ctx.where(gm), why, construct=f'{gm.qname}::shape')


FORBIDDEN_DEQUE = {'appendleft', 'pop', 'insert', 'rotate', 'reverse', 'clear', 'sort', 'remove', 'extendleft',
                   '__setitem__', '__delitem__'}


def _self_stores(fn):
    """Attribute names stored on self in a function, with the stored value (None for augmented / tuple targets)."""
    out = []
    for t, st in astq.stores_in(fn.node):
        if isinstance(t, ast.Attribute) and isinstance(t.value, ast.Name) and t.value.id == 'self':
            out.append((t.attr, st.value if isinstance(st, ast.Assign) and len(st.targets) == 1 and st.targets[0] is t else None, st))
    return out


def queue_attrs(ctx):
    """Names of the attributes that hold message queues: whatever a constructor in mido/ binds to a deque(...) (names are
    taken from the code, so a consistent rename of a private attribute changes nothing), plus the public Parser.messages."""
    names = {'messages'}
    fns = list(ctx.p.all_functions())
    # queue factories: a name bound to deque itself, or a function whose every return is a deque(...) / factory call
    makers = {'deque'}
    for mod in ctx.p.modules.values():
        for st in mod.tree.body:
            if isinstance(st, ast.Assign) and isinstance(st.value, ast.Name) and st.value.id == 'deque':
                makers.update(t.id for t in st.targets if isinstance(t, ast.Name))
    for _ in range(3):
        for fn in fns:
            rets = [n for n in astq.walk_shallow(fn.node) if isinstance(n, ast.Return)]
            if rets and all(isinstance(r.value, ast.Call) and unparse(r.value.func).split('.')[-1] in makers for r in rets):
                makers.add(fn.node.name)
    for fn in fns:
        for attr, val, _ in _self_stores(fn):
            if isinstance(val, ast.Call) and unparse(val.func).split('.')[-1] in makers:
                names.add(attr)
    return names


def check_fifo_scan(ctx, rule):
    """Only append / extend / popleft on the message queues, anywhere in mido/."""
    n = 0
    qa = queue_attrs(ctx)
    for fn in ctx.p.all_functions():
        for node in astq.walk_shallow(fn.node):
            if isinstance(node, ast.Call) and isinstance(node.func, ast.Attribute) and isinstance(node.func.value, ast.Attribute) \
                    and node.func.value.attr in qa:
                n += 1
                ctx.call_sites += 1
                m = node.func.attr
                if m in FORBIDDEN_DEQUE:
                    ctx.fail(rule, f'{fn.qname.split("::")[1]}.{m}', ctx.where(fn, node),
                             f'{unparse(node)[:70]} breaks the first-in first-out discipline of the message queue',
                             construct=f'{fn.qname}::{node.func.value.attr}.{m}')
                else:
                    ctx.ok(rule, f'{fn.qname.split("::")[1]}.{m}', ctx.where(fn, node))
            elif isinstance(node, (ast.Assign, ast.AugAssign, ast.Delete)):
                tg = node.targets if isinstance(node, (ast.Assign, ast.Delete)) else [node.target]
                for t in tg:
                    for x in astq._flatten(t):
                        if isinstance(x, ast.Subscript) and isinstance(x.value, ast.Attribute) and x.value.attr in qa:
                            ctx.fail(rule, f'{fn.qname.split("::")[1]}.subscript', ctx.where(fn, node),
                                     f'{unparse(node)[:70]} rewrites the message queue in place',
                                     construct=f'{fn.qname}::{x.value.attr}.subscript')
    # a sweep: it may legitimately find little (queues used through local aliases); the FIFO behaviour itself is decided by the
    # interpreted histories (parser_semantics, tokenizer_semantics, R05.6)
    ctx.floor(rule + '-queues', len(qa), 2)


def _closure(ctx, cls, start):
    seen = set()
    todo = [start]
    while todo:
        nm = todo.pop()
        if nm in seen:
            continue
        seen.add(nm)
        o, fn = ctx.p.lookup_method(cls, nm)
        if fn is None:
            continue
        # any method named through self (called directly, or taken as a bound method and called through a local name)
        for a in ast.walk(fn.node):
            if isinstance(a, ast.Attribute) and isinstance(a.value, ast.Name) and a.value.id == 'self' and isinstance(a.ctx, ast.Load) \
                    and ctx.p.lookup_method(cls, a.attr)[1] is not None:
                todo.append(a.attr)
    return seen


def check_single_writers(ctx, rule):
    """Tokenizer state is written only by __init__ and by the byte handlers (methods reachable from feed_byte, but not
    feed / retrieval methods); parser fields only in __init__; nobody outside the class touches them.  The field names are
    read from the constructors (what Tokenizer.__init__ / Parser.__init__ store on self), not fixed here."""
    tcls = ctx.p.cls(TOK, 'Tokenizer')
    pcls = ctx.p.cls(PAR, 'Parser')
    tinit = tcls.methods.get('__init__')
    pinit = pcls.methods.get('__init__')
    if tinit is None or pinit is None:
        ctx.fail(rule, 'constructors', f'{tcls.module.relpath}:{tcls.node.lineno} Tokenizer', 'Tokenizer/Parser without __init__: state fields cannot be determined',
                 construct='mido/tokenizer.py::Tokenizer::no-init')
        return
    qa = queue_attrs(ctx)
    tok_all = {a for a, _, _ in _self_stores(tinit)}
    tok_queue = {a for a in tok_all if a in qa}
    tok_fields = tok_all - tok_queue
    par_fields = {a for a, _, _ in _self_stores(pinit)}
    # retrieval must not change the assembly state: what iteration / len() can reach may not write it (the byte handlers may be
    # reached from feed_byte by calls, bound-method values or a dispatch table - how is of no concern here)
    retrieval = set()
    for r in ('__iter__', '__len__', '__next__', '__bool__'):
        if ctx.p.lookup_method(tcls, r)[1] is not None:
            retrieval |= _closure(ctx, tcls, r)
    retrieval -= {'__init__'}
    forbidden_tok = {f'mido/tokenizer.py::Tokenizer.{h}' for h in retrieval}
    n = 0
    for fn in ctx.p.all_functions():
        in_tok_cls = fn.qname.startswith('mido/tokenizer.py::Tokenizer.')
        in_par_cls = fn.qname.startswith('mido/parser.py::Parser.')
        for t, st in astq.stores_in(fn.node):
            if not isinstance(t, ast.Attribute):
                continue
            on_self = isinstance(t.value, ast.Name) and t.value.id == 'self'
            if t.attr in tok_fields and in_tok_cls and on_self:
                n += 1
                ctx.require(fn.qname not in forbidden_tok, rule, f'writer({t.attr})@{fn.qname.split("::")[1]}', ctx.where(fn, st),
                            f'tokenizer state {t.attr} is written by a retrieval method ({unparse(st)[:60]}): what is parsed would depend on when messages are fetched',
                            construct=f'{fn.qname}::writes({t.attr})')
            elif t.attr in par_fields and in_par_cls and on_self:
                n += 1
                ctx.require(fn.qname == 'mido/parser.py::Parser.__init__', rule, f'writer({t.attr})@{fn.qname.split("::")[1]}',
                            ctx.where(fn, st), f'parser field {t.attr} is rebound outside __init__ ({unparse(st)[:60]})',
                            construct=f'{fn.qname}::writes({t.attr})')
            elif t.attr in tok_queue and in_tok_cls and on_self:
                n += 1
                ctx.require(fn.qname == 'mido/tokenizer.py::Tokenizer.__init__', rule, f'writer({t.attr})@{fn.qname.split("::")[1]}',
                            ctx.where(fn, st), 'token queue rebound outside __init__', construct=f'{fn.qname}::writes({t.attr})')
            elif not on_self and fn.module.name in (TOK, PAR) and t.attr in (tok_fields | tok_queue) and isinstance(t.value, ast.Attribute) \
                    and t.value.attr in par_fields:
                # self._tok._status = ... : the parser reaching into the tokenizer
                n += 1
                ctx.fail(rule, f'writer({t.attr})@{fn.qname.split("::")[1]}', ctx.where(fn, st),
                         f'tokenizer state {t.attr} is written from outside the tokenizer ({unparse(st)[:60]})', construct=f'{fn.qname}::writes({t.attr})')
    ctx.floor(rule + '-writers', n, len(tok_all) + len(par_fields) if tok_all and par_fields else 1)


IMPURE_BUILTINS = {'open', 'input', 'print', 'id', 'globals', 'locals', 'vars', 'exec', 'eval', '__import__', 'hash', 'setattr', 'delattr'}
PURE_MODULES = {'collections', 'numbers', 'itertools', 'operator', 'functools', 'typing', 'abc'}


def check_purity(ctx, rule):
    """Tokenizer/Parser methods depend on nothing but their fields, arguments and constants: no global statement, no call
    into a module that can carry state or read the environment (time, random, os, threading, ...), no impure builtin."""
    for modname in (TOK, PAR):
        m = ctx.p.module(modname)
        for c in m.classes.values():
            for fn in c.methods.values():
                ctx.fn(fn)
                local = {t.id for t, _ in astq.stores_in(fn.node) if isinstance(t, ast.Name)} | set(fn.params())
                for node in astq.walk_shallow(fn.node):
                    if isinstance(node, (ast.Global, ast.Nonlocal)):
                        ctx.fail(rule, f'{c.name}.{fn.name}.global', ctx.where(fn, node), 'uses global state',
                                 construct=f'{fn.qname}::global')
                    if isinstance(node, ast.Call):
                        ctx.call_sites += 1
                        f = node.func
                        bad = None
                        root = f
                        while isinstance(root, ast.Attribute):
                            root = root.value
                        if isinstance(root, ast.Name) and root.id not in local:
                            if isinstance(f, ast.Name) and f.id in IMPURE_BUILTINS and f.id not in m.functions and f.id not in m.imports:
                                bad = f.id
                            elif root.id in m.imports:
                                modn, attr = m.imports[root.id]
                                top = (modn or '').split('.')[0]
                                if top and top != 'mido' and not (modn or '').startswith('mido') and top not in PURE_MODULES \
                                        and not modn.startswith('.'):
                                    if ctx.p.resolve(m, root.id).kind == 'external':
                                        bad = unparse(f)
                        if bad:
                            ctx.fail(rule, f'{c.name}.{fn.name}.call({bad})', ctx.where(fn, node),
                                     f'calls {bad}: the result of parsing may depend on something other than the bytes fed',
                                     construct=f'{fn.qname}::calls({bad})')
                        else:
                            ctx.ok(rule, f'{c.name}.{fn.name}.call', ctx.where(fn, node))
