"""Structural rules on mido.parser.Parser / Tokenizer.feed / __iter__ shared by
C04, C05, C06, C19."""
from __future__ import annotations

import ast

from .. import astq
from ..model import AnalysisError, FuncInfo, unparse
from ..paths import enumerate_paths

TOK = 'mido.tokenizer'
PAR = 'mido.parser'


def body_wo_doc(fn_node):
    b = list(fn_node.body)
    if b and isinstance(b[0], ast.Expr) and isinstance(b[0].value, ast.Constant) and isinstance(b[0].value.value, str):
        b = b[1:]
    return b


def is_self_attr(e, attr):
    return isinstance(e, ast.Attribute) and isinstance(e.value, ast.Name) and e.value.id == 'self' and e.attr == attr


def nonempty_test(test, attr):
    """test means 'self.<attr> is non-empty'."""
    t = unparse(test).replace(' ', '')
    x = f'self.{attr}'
    return t in {x, f'len({x})', f'len({x})>0', f'len({x})!=0', f'len({x})>=1', f'0<len({x})', f'bool({x})',
                 f'0!=len({x})', f'1<=len({x})'}


def is_pop_left_loop(fn: FuncInfo, attr):
    """while <self.attr non-empty>: yield self.attr.popleft()   (nothing else)"""
    b = body_wo_doc(fn.node)
    if len(b) != 1 or not isinstance(b[0], ast.While) or b[0].orelse:
        return False, 'body is not a single while loop'
    w = b[0]
    if not nonempty_test(w.test, attr):
        return False, f'loop condition {unparse(w.test)!r} is not "self.{attr} is non-empty"'
    if len(w.body) != 1 or not isinstance(w.body[0], ast.Expr) or not isinstance(w.body[0].value, ast.Yield):
        return False, 'loop body is not a single yield'
    y = w.body[0].value.value
    if not (isinstance(y, ast.Call) and isinstance(y.func, ast.Attribute) and y.func.attr == 'popleft'
            and is_self_attr(y.func.value, attr) and not y.args):
        return False, f'yields {unparse(y) if y is not None else None!r}, not self.{attr}.popleft()'
    return True, ''


def check_tokenizer_feed(ctx, rule):
    cls = ctx.p.cls(TOK, 'Tokenizer')
    o, fn = ctx.p.lookup_method(cls, 'feed')
    if fn is None:
        raise AnalysisError('Tokenizer.feed not found')
    ctx.fn(fn)
    w = ctx.where(fn)
    b = body_wo_doc(fn.node)
    ok = False
    why = 'Tokenizer.feed is not exactly "for byte in data: self.feed_byte(byte)"'
    params = fn.params()
    if len(b) == 1 and isinstance(b[0], ast.For) and not b[0].orelse and len(params) >= 2 \
            and isinstance(b[0].iter, ast.Name) and b[0].iter.id == params[1] and isinstance(b[0].target, ast.Name):
        lb = b[0].body
        if len(lb) == 1 and isinstance(lb[0], ast.Expr) and isinstance(lb[0].value, ast.Call):
            c = lb[0].value
            callee = astq.resolve_callee(ctx.p, fn, c)
            o2, fb = ctx.p.lookup_method(cls, 'feed_byte')
            if isinstance(callee, FuncInfo) and fb is not None and callee.qname == fb.qname and len(c.args) == 1 \
                    and isinstance(c.args[0], ast.Name) and c.args[0].id == b[0].target.id and not c.keywords:
                ok = True
            else:
                why = f'loop body calls {unparse(c)!r}, not self.feed_byte(<loop variable>)'
        else:
            why = 'loop body has statements other than the feed_byte call'
    elif len(b) > 1:
        why = 'Tokenizer.feed has statements besides the loop over the data (state touched per call)'
    ctx.require(ok, rule, 'Tokenizer.feed', w, why, construct=f'{fn.qname}::fold')


def check_tokenizer_iter(ctx, rule):
    cls = ctx.p.cls(TOK, 'Tokenizer')
    o, fn = ctx.p.lookup_method(cls, '__iter__')
    if fn is None:
        raise AnalysisError('Tokenizer.__iter__ not found')
    ctx.fn(fn)
    ok, why = is_pop_left_loop(fn, '_messages')
    ctx.require(ok, rule, 'Tokenizer.__iter__', ctx.where(fn), f'tokens are not handed out first-in first-out: {why}',
                construct=f'{fn.qname}::fifo')


def check_decode(ctx, rule):
    cls = ctx.p.cls(PAR, 'Parser')
    o, fn = ctx.p.lookup_method(cls, '_decode')
    if fn is None:
        raise AnalysisError('Parser._decode not found')
    ctx.fn(fn)
    w = ctx.where(fn)
    b = body_wo_doc(fn.node)
    ok = False
    why = 'Parser._decode is not "for token in self._tok: self.messages.append(Message.from_bytes(token))"'
    if len(b) == 1 and isinstance(b[0], ast.For) and not b[0].orelse and is_self_attr(b[0].iter, '_tok') \
            and isinstance(b[0].target, ast.Name):
        lb = b[0].body
        if len(lb) == 1 and isinstance(lb[0], ast.Expr) and isinstance(lb[0].value, ast.Call):
            c = lb[0].value
            if isinstance(c.func, ast.Attribute) and c.func.attr == 'append' and is_self_attr(c.func.value, 'messages') \
                    and len(c.args) == 1 and isinstance(c.args[0], ast.Call):
                inner = c.args[0]
                q = astq.callee_qname(ctx.p, fn, inner)
                ctx.call_sites += 1
                if q == 'mido/messages/messages.py::Message.from_bytes' and len(inner.args) == 1 and \
                        isinstance(inner.args[0], ast.Name) and inner.args[0].id == b[0].target.id and not inner.keywords:
                    ok = True
                else:
                    why = f'tokens are converted with {unparse(inner)!r}, not Message.from_bytes(token)'
            else:
                why = f'loop body is {unparse(lb[0])!r}: tokens are not appended (in order) to self.messages'
        else:
            why = 'loop body has more than the append of the decoded token'
    ctx.require(ok, rule, 'Parser._decode', w, why, construct=f'{fn.qname}::shape')


def check_parser_feeds(ctx, rule):
    cls = ctx.p.cls(PAR, 'Parser')
    for name in ('feed', 'feed_byte'):
        o, fn = ctx.p.lookup_method(cls, name)
        if fn is None:
            raise AnalysisError(f'Parser.{name} not found')
        ctx.fn(fn)
        paths = enumerate_paths(fn.node)
        ctx.paths += len(paths)
        param = fn.params()[1] if len(fn.params()) > 1 else None
        ok = bool(paths)
        why = ''
        for p in paths:
            calls = []
            for e in p.events:
                if e.kind in ('stmt', 'return'):
                    for c in astq.calls(e.node):
                        calls.append(unparse(c))
                    if isinstance(e.node, (ast.Assign, ast.AugAssign)):
                        ok = False
                        why = f'{name} assigns state: {unparse(e.node)}'
            want = [f'self._tok.{name}({param})', 'self._decode()']
            if calls != want or p.status not in ('fall', 'return'):
                ok = False
                why = why or f'a path of Parser.{name} performs {calls} instead of {want}'
        ctx.require(ok, rule, f'Parser.{name}', ctx.where(fn), why, construct=f'{fn.qname}::feed-then-decode')


def check_parser(ctx, rule):
    check_tokenizer_iter(ctx, rule)
    check_decode(ctx, rule)
    check_parser_feeds(ctx, rule)


def check_parser_init(ctx, rule):
    cls = ctx.p.cls(PAR, 'Parser')
    o, fn = ctx.p.lookup_method(cls, '__init__')
    ctx.fn(fn)
    w = ctx.where(fn)
    stores = {}
    for t, st in astq.stores_in(fn.node):
        if isinstance(t, ast.Attribute) and isinstance(t.value, ast.Name) and t.value.id == 'self':
            stores.setdefault(t.attr, []).append(st)
    ok = 'messages' in stores and len(stores['messages']) == 1 and unparse(stores['messages'][0].value) in ('deque()', 'collections.deque()')
    ctx.require(ok, rule, 'Parser.__init__.messages', w, 'self.messages is not initialised to one empty deque()',
                construct=f'{fn.qname}::messages')
    ok = '_tok' in stores and len(stores['_tok']) == 1 and unparse(stores['_tok'][0].value) == 'Tokenizer()'
    ctx.require(ok, rule, 'Parser.__init__._tok', w, 'self._tok is not initialised to one fresh Tokenizer()',
                construct=f'{fn.qname}::_tok')
    # data, if given, is fed after both exist
    feeds = [c for c in astq.calls(fn.node) if unparse(c.func) == 'self.feed']
    ok = len(feeds) == 1 and len(feeds[0].args) == 1 and isinstance(feeds[0].args[0], ast.Name) and feeds[0].args[0].id == fn.params()[1]
    if ok:
        ln = feeds[0].lineno
        ok = all(s.lineno < ln for v in stores.values() for s in v)
    ctx.require(ok, rule, 'Parser.__init__.feed', w, 'initial data is not fed exactly once after the fields are set up',
                construct=f'{fn.qname}::feed')


def check_retrieval(ctx, rule):
    cls = ctx.p.cls(PAR, 'Parser')
    o, it = ctx.p.lookup_method(cls, '__iter__')
    if it is None:
        raise AnalysisError('Parser.__iter__ not found')
    ctx.fn(it)
    ok, why = is_pop_left_loop(it, 'messages')
    ctx.require(ok, rule, 'Parser.__iter__', ctx.where(it), f'messages are not handed out first-in first-out: {why}',
                construct=f'{it.qname}::fifo')
    for name in ('pending', '__len__'):
        o, fn = ctx.p.lookup_method(cls, name)
        if fn is None:
            ctx.fail(rule, f'Parser.{name}', f'{cls.module.relpath}:{cls.node.lineno} Parser', f'Parser.{name} not found',
                     construct=f'{cls.qname}::{name}')
            continue
        ctx.fn(fn)
        b = body_wo_doc(fn.node)
        ok = len(b) == 1 and isinstance(b[0], ast.Return) and unparse(b[0].value) == 'len(self.messages)'
        ctx.require(ok, rule, f'Parser.{name}', ctx.where(fn),
                    f'{name}() is not len(self.messages) - the number of messages that can still be retrieved',
                    construct=f'{fn.qname}::len')
    o, gm = ctx.p.lookup_method(cls, 'get_message')
    if gm is None:
        raise AnalysisError('Parser.get_message not found')
    ctx.fn(gm)
    b = body_wo_doc(gm.node)
    ok = False
    why = 'get_message() does not return the first pending message, or None exactly when nothing is pending'
    if len(b) == 1 and isinstance(b[0], ast.For) and isinstance(b[0].iter, ast.Name) and b[0].iter.id == 'self' \
            and isinstance(b[0].target, ast.Name):
        lb = b[0].body
        first_ret = lb and isinstance(lb[0], ast.Return) and isinstance(lb[0].value, ast.Name) and lb[0].value.id == b[0].target.id
        els = b[0].orelse
        else_none = (not els) or (len(els) == 1 and isinstance(els[0], ast.Return) and (els[0].value is None or astq.const_value(els[0].value) is None and isinstance(els[0].value, ast.Constant)))
        ok = bool(first_ret and else_none)
    elif len(b) == 2 and isinstance(b[0], ast.For) and isinstance(b[0].iter, ast.Name) and b[0].iter.id == 'self' \
            and isinstance(b[0].target, ast.Name) and not b[0].orelse and isinstance(b[1], ast.Return):
        lb = b[0].body
        first_ret = lb and isinstance(lb[0], ast.Return) and isinstance(lb[0].value, ast.Name) and lb[0].value.id == b[0].target.id
        ok = bool(first_ret and (b[1].value is None or (isinstance(b[1].value, ast.Constant) and b[1].value.value is None)))
    else:
        # if self.messages: return self.messages.popleft() / return None
        paths = enumerate_paths(gm.node)
        good = bool(paths)
        for p in paths:
            conds = p.conds()
            ex = p.exit_node()
            if len(conds) == 1 and nonempty_test(conds[0][0], 'messages'):
                if conds[0][1]:
                    good = good and isinstance(ex, ast.Return) and ex.value is not None and unparse(ex.value) == 'self.messages.popleft()'
                else:
                    good = good and (ex is None or ex.value is None or (isinstance(ex.value, ast.Constant) and ex.value.value is None))
            else:
                good = False
        ok = good
    ctx.require(ok, rule, 'Parser.get_message', ctx.where(gm), why, construct=f'{gm.qname}::shape')


FORBIDDEN_DEQUE = {'appendleft', 'pop', 'insert', 'rotate', 'reverse', 'clear', 'sort', 'remove', 'extendleft',
                   '__setitem__', '__delitem__'}
QUEUE_ATTRS = {'_messages', 'messages'}


def check_fifo_scan(ctx, rule):
    """Only append / extend / popleft on the message queues, anywhere in mido/."""
    n = 0
    for fn in ctx.p.all_functions():
        for node in astq.walk_shallow(fn.node):
            if isinstance(node, ast.Call) and isinstance(node.func, ast.Attribute) and isinstance(node.func.value, ast.Attribute) \
                    and node.func.value.attr in QUEUE_ATTRS:
                n += 1
                ctx.call_sites += 1
                m = node.func.attr
                if m in FORBIDDEN_DEQUE:
                    ctx.fail(rule, f'{fn.qname.split("::")[1]}.{m}', ctx.where(fn, node),
                             f'{unparse(node)[:70]} breaks the first-in first-out discipline of the message queue',
                             construct=f'{fn.qname}::{node.func.value.attr}.{m}')
                else:
                    ctx.ok(rule, f'{fn.qname.split("::")[1]}.{m}', ctx.where(fn, node))
            elif isinstance(node, (ast.Assign, ast.AugAssign, ast.Delete)):
                tg = node.targets if isinstance(node, (ast.Assign, ast.Delete)) else [node.target]
                for t in tg:
                    for x in astq._flatten(t):
                        if isinstance(x, ast.Subscript) and isinstance(x.value, ast.Attribute) and x.value.attr in QUEUE_ATTRS:
                            ctx.fail(rule, f'{fn.qname.split("::")[1]}.subscript', ctx.where(fn, node),
                                     f'{unparse(node)[:70]} rewrites the message queue in place',
                                     construct=f'{fn.qname}::{x.value.attr}.subscript')
    ctx.floor(rule + '-scan', n, 10)


TOK_FIELDS = {'_status', '_bytes', '_len'}


def check_single_writers(ctx, rule):
    """Tokenizer fields are written only by __init__/_feed_*; Parser fields only in __init__."""
    allowed_tok = {'mido/tokenizer.py::Tokenizer.__init__', 'mido/tokenizer.py::Tokenizer._feed_status_byte',
                   'mido/tokenizer.py::Tokenizer._feed_data_byte'}
    n = 0
    for fn in ctx.p.all_functions():
        for t, st in astq.stores_in(fn.node):
            if isinstance(t, ast.Attribute):
                if t.attr in TOK_FIELDS and (fn.module.name in (TOK, PAR) or not (isinstance(t.value, ast.Name) and t.value.id == 'self')):
                    n += 1
                    ctx.require(fn.qname in allowed_tok, rule, f'writer({t.attr})@{fn.qname.split("::")[1]}', ctx.where(fn, st),
                                f'tokenizer state {t.attr} is written outside the byte handlers ({unparse(st)[:60]})',
                                construct=f'{fn.qname}::writes({t.attr})')
                if t.attr in ('_tok', 'messages') and fn.module.name == PAR or t.attr == '_tok':
                    n += 1
                    ctx.require(fn.qname == 'mido/parser.py::Parser.__init__', rule, f'writer({t.attr})@{fn.qname.split("::")[1]}',
                                ctx.where(fn, st), f'parser field {t.attr} is rebound outside __init__ ({unparse(st)[:60]})',
                                construct=f'{fn.qname}::writes({t.attr})')
                if t.attr == '_messages' and fn.module.name == TOK:
                    n += 1
                    ctx.require(fn.qname == 'mido/tokenizer.py::Tokenizer.__init__', rule, f'writer(_messages)@{fn.qname.split("::")[1]}',
                                ctx.where(fn, st), 'token queue rebound outside __init__', construct=f'{fn.qname}::writes(_messages)')
    ctx.floor(rule + '-writers', n, 9)


def check_purity(ctx, rule):
    """Tokenizer/Parser methods depend on nothing but their fields, arguments and constants."""
    allowed_ext = {'isinstance', 'len', 'deque', 'collections.deque', 'list', 'numbers.Integral', 'TypeError', 'ValueError', 'range', 'enumerate',
                   'zip', 'min', 'max', 'int', 'bool', 'tuple', 'bytes', 'bytearray'}
    for modname in (TOK, PAR):
        m = ctx.p.module(modname)
        for c in m.classes.values():
            for fn in c.methods.values():
                ctx.fn(fn)
                for node in astq.walk_shallow(fn.node):
                    if isinstance(node, (ast.Global, ast.Nonlocal)):
                        ctx.fail(rule, f'{c.name}.{fn.name}.global', ctx.where(fn, node), 'uses global state',
                                 construct=f'{fn.qname}::global')
                    if isinstance(node, ast.Call):
                        r = astq.resolve_callee(ctx.p, fn, node)
                        ctx.call_sites += 1
                        if isinstance(r, str) and not r.startswith('self.') and r.split('.')[-1] not in (
                                'append', 'popleft', 'extend', 'feed', 'feed_byte', 'format') and r not in allowed_ext:
                            ctx.fail(rule, f'{c.name}.{fn.name}.call({r})', ctx.where(fn, node),
                                     f'calls {r}: the result of parsing may depend on something other than the bytes fed',
                                     construct=f'{fn.qname}::calls({r})')
                        else:
                            ctx.ok(rule, f'{c.name}.{fn.name}.call', ctx.where(fn, node))
