"""C20 - backend selection and port-opening arguments resolve deterministically."""
from __future__ import annotations

import ast
import itertools

from .. import astq, portmodel as pm
from ..absint import AbsRaise, ADict, AList, AObj, Opaque, log_event
from ..fold import ClassRef
from ..model import AnalysisError, unparse

LEVEL = 'other'
EXPLANATION = (
    'The configuration grid is finite and the code is straight-line branching, so it is decided by abstract interpretation of '
    'Backend.__init__/open_input/open_output/open_ioport/get_*_names on a recording module double with a scripted os.environ '
    'and importlib.import_module, for the full grid: port name given/absent x MIDO_DEFAULT_INPUT/OUTPUT/IOPORT set/unset x api '
    'from the backend name (module/API), from the api keyword, from the open call, or absent x use_environ on/off x module '
    'with/without native IOPort and get_devices x MIDO_BACKEND set/unset.  Each outcome (which module is imported and when, '
    'which constructor is called with which name and keyword arguments) is compared with the decision table transcribed from the '
    'property and docs/backends/index.rst.  set_backend is interpreted on the module globals; mido/__init__.py must not import a '
    'backend module at import time.')
TRUSTED = ['midolint abstract interpreter with recording doubles', 'reference decision table in midolint/rules/c20.py']
ASSUMPTIONS = []

BK = 'mido.backends.backend'
ENV_KEYS = ('MIDO_DEFAULT_INPUT', 'MIDO_DEFAULT_OUTPUT', 'MIDO_DEFAULT_IOPORT', 'MIDO_BACKEND')


def make_interp(ctx, env, native_ioport, has_devices, devices=None):
    ai = pm.make_interp(ctx)
    state = {'imports': [], 'module': None}

    def env_get(interp, args, kwargs, node):
        log_event('env', args[0])
        return env.get(args[0], args[1] if len(args) > 1 else None)
    ai.summaries['os.environ.get'] = env_get
    ai.summaries['os.getenv'] = env_get
    ai.ext_maps = {'os.environ': env}           # os.environ[name] / name in os.environ

    def mk_port(kind):
        def f(interp, base, args, kwargs, node):
            return pm.AMock(f'{kind}-port', {'attr:name': args[0] if args else kwargs.get('name'), 'attr:_messages': AList([], 'deque'),
                                             'attr:closed': False})
        return f

    def import_module(interp, args, kwargs, node):
        state['imports'].append(args[0])
        log_event('import', args[0])
        script = {'Input': mk_port('Input'), 'Output': mk_port('Output'), 'strict': True}
        if native_ioport:
            script['IOPort'] = mk_port('IOPort')
        if has_devices:
            def get_devices(i, b, a, k, n):
                if isinstance(devices, tuple) and devices and devices[0] == 'raise':
                    raise AbsRaise(devices[1], n)            # the module's own query fails (unknown api, device system down)
                return [dict(d) for d in (devices or [])]
            script['get_devices'] = get_devices
        mod = pm.AMock('module', script)
        state['module'] = mod
        return mod
    ai.summaries['importlib.import_module'] = import_module
    ai.state = state
    return ai


def expected_backend(bname, api_kw, env, use_environ_unused=True):
    name = bname or env.get('MIDO_BACKEND', 'mido.backends.rtmidi')
    suffix = None
    if name and '/' in name:
        name, suffix = name.split('/', 1)       # the module is what precedes the slash, whatever else is given
    return name, (api_kw or suffix or None)     # an explicit api beats the one in the name


def r20_open(ctx):
    cls = ctx.p.cls(BK, 'Backend')
    for meth in ('__init__', 'open_input', 'open_output', 'open_ioport', 'load'):
        o, fn = ctx.p.lookup_method(cls, meth)
        if fn is None:
            raise AnalysisError(f'Backend.{meth} not found')
        ctx.fn(fn)
    w0 = f'{cls.module.relpath}:{cls.node.lineno} Backend'
    n = 0
    env_opts = []
    for bits in itertools.product([False, True], repeat=3):
        e = {}
        if bits[0]:
            e['MIDO_DEFAULT_INPUT'] = 'EI'
        if bits[1]:
            e['MIDO_DEFAULT_OUTPUT'] = 'EO'
        if bits[2]:
            e['MIDO_DEFAULT_IOPORT'] = 'EIO'
        env_opts.append(e)
    # the value of a variable is the port name as it stands: blanks around it, or nothing but blanks, are part of it
    env_opts.append({'MIDO_DEFAULT_INPUT': ' EI ', 'MIDO_DEFAULT_OUTPUT': 'EO ', 'MIDO_DEFAULT_IOPORT': ' EIO'})
    env_opts.append({'MIDO_DEFAULT_INPUT': ' ', 'MIDO_DEFAULT_OUTPUT': '\t', 'MIDO_DEFAULT_IOPORT': '  '})
    api_opts = [('mod', None, None), ('mod/APIN', None, None), ('mod', 'APIK', None), ('mod', None, 'APIC'), ('mod/APIN', None, 'APIC'),
                ('mod', 'APIK', 'APIC'), ('mod/APIN', 'APIK', None), ('mod/APIN', 'APIK', 'APIC')]
    for env in env_opts:
        for bname, api_kw, api_call in api_opts:
            for use_environ in (True, False):
                for native in (True, False):
                    for pname in (None, 'P'):
                      # other keyword arguments (virtual=True, autoreset) are the caller's business: they reach the constructors and
                      # change nothing about where the name and the api come from
                      for extra in ([{}, {'virtual': True}, {'autoreset': True}] if api_kw is None and api_call is None else [{}]):
                        for which in ('open_input', 'open_output', 'open_ioport'):
                            n += 1
                            ai = make_interp(ctx, env, native, True)
                            holder = {}

                            def thunk():
                                b = ai.apply(ClassRef(cls), [], {'name': bname, 'api': api_kw, 'load': False, 'use_environ': use_environ}, None)
                                holder['imports_after_init'] = list(ai.state['imports'])
                                kw = {}
                                if pname is not None:
                                    kw['name'] = pname
                                if api_call is not None:
                                    kw['api'] = api_call
                                kw.update(extra)
                                r = pm.call(ai, ctx, b, which, [], kw)
                                holder['imports_after_open'] = list(ai.state['imports'])
                                pm.call(ai, ctx, b, which, [], dict(kw))
                                return r
                            outs = ai.explore(thunk)
                            o, fn = ctx.p.lookup_method(cls, which)
                            w = ctx.where(fn)
                            cfg = f'{which}(name={pname!r}, api={api_call!r}{"".join(", %s=%r" % kv for kv in extra.items())}) backend={bname!r} api={api_kw!r} env={sorted(env)} use_environ={use_environ} native_ioport={native}'
                            if len(outs) != 1 or outs[0].kind != 'return':
                                ctx.fail('R20.3', cfg, w, f'does not complete on one path: {outs}', construct=f'{fn.qname}::outcomes')
                                continue
                            mod_name, back_api = expected_backend(bname, api_kw, env)
                            # lazy import, exactly once, right module
                            ctx.require(holder['imports_after_init'] == [], 'R20.1', f'{cfg}.lazy', w0,
                                        f'the backend module is imported at construction: {holder["imports_after_init"]}', construct=f'{cls.qname}.__init__::eager-import')
                            ctx.require(holder['imports_after_open'] == [mod_name] and ai.state['imports'] == [mod_name], 'R20.1', f'{cfg}.import', w,
                                        f'imports: {ai.state["imports"]}; expected exactly one import of {mod_name!r}', construct=f'{cls.qname}.load::import')
                            calls = [c for c in ai.state['module'].calls] if ai.state['module'] else []
                            calls = calls[:len(calls) // 2] if len(calls) % 2 == 0 else calls
                            want_api = api_call if api_call is not None else back_api
                            ev = (lambda k: env.get(k) if use_environ else None)
                            if which == 'open_input':
                                want = [('Input', pname if pname is not None else ev('MIDO_DEFAULT_INPUT'))]
                            elif which == 'open_output':
                                want = [('Output', pname if pname is not None else ev('MIDO_DEFAULT_OUTPUT'))]
                            else:
                                nm = pname if pname is not None else (ev('MIDO_DEFAULT_IOPORT') or None)
                                if native:
                                    want = [('IOPort', nm)]
                                elif nm:
                                    want = [('Input', nm), ('Output', nm)]
                                else:
                                    want = [('Input', ev('MIDO_DEFAULT_INPUT')), ('Output', ev('MIDO_DEFAULT_OUTPUT'))]
                            got = [(c[0], c[1][0] if c[1] else c[2].get('name')) for c in calls]
                            ctx.require(got == want, 'R20.3', f'{cfg}.name', w,
                                        f'constructor calls {got}; precedence (explicit name > environment > backend default) gives {want}',
                                        construct=f'{fn.qname}::name-precedence')
                            ctx.require(all(c[2].get(k_) == v_ for c in calls for k_, v_ in extra.items()), 'R20.2', f'{cfg}.other-keywords', w,
                                        f'keyword arguments {extra} of the call reach the constructors as {[{k_: c[2].get(k_) for k_ in extra} for c in calls]}',
                                        construct=f'{fn.qname}::keywords')
                            apis = [c[2].get('api') for c in calls]
                            ctx.require(all(a == want_api for a in apis) and len(apis) == len(want), 'R20.2', f'{cfg}.api', w,
                                        f'api passed to the constructors: {apis}; expected {want_api!r} for each', construct=f'{fn.qname}::api')
                            if which == 'open_ioport' and not native:
                                r = outs[0].value
                                ok = isinstance(r, AObj) and r.cls is not None and r.cls.name == 'IOPort'
                                ctx.require(ok, 'R20.3', f'{cfg}.wrapper', w, f'without a native IOPort the result must be the ports.IOPort wrapper: {r!r}',
                                            construct=f'{fn.qname}::wrapper')
    ctx.floor('R20-grid', n, 1000)
    ctx.extra['grid'] = {'environment subsets': 10, 'api sources': 6, 'use_environ': 2, 'native IOPort': 2, 'name': 2, 'calls': 3}


def r20_backend_name(ctx):
    """MIDO_BACKEND, default backend, name/api split, load=True."""
    cls = ctx.p.cls(BK, 'Backend')
    o, init = ctx.p.lookup_method(cls, '__init__')
    w = ctx.where(init)
    cases = [
        (None, None, {}, ('mido.backends.rtmidi', None)),
        (None, None, {'MIDO_BACKEND': 'mido.backends.portmidi'}, ('mido.backends.portmidi', None)),
        (None, None, {'MIDO_BACKEND': 'mido.backends.rtmidi/LINUX_ALSA'}, ('mido.backends.rtmidi', 'LINUX_ALSA')),
        ('x.y', None, {'MIDO_BACKEND': 'other'}, ('x.y', None)),
        ('x.y/A/B', None, {}, ('x.y', 'A/B')),
        ('x.y', 'K', {'MIDO_BACKEND': 'other/Z'}, ('x.y', 'K')),
        ('x.y/A', 'K', {}, ('x.y', 'K')),
        (None, 'K', {'MIDO_BACKEND': 'other/Z'}, ('other', 'K')),
        (None, 'K', {'MIDO_BACKEND': 'other'}, ('other', 'K')),
    ]
    for bname, api, env, (wn, wa) in cases:
      for use_env in (None, True, False):
        # (use_environ is about the MIDO_DEFAULT_* port names; which backend module MIDO_BACKEND names does not depend on it)
        for load in (False, True):
            ai = make_interp(ctx, env, True, True)
            holder = {}

            def thunk():
                kw = {'name': bname, 'api': api, 'load': load}
                if use_env is not None:
                    kw['use_environ'] = use_env
                b = ai.apply(ClassRef(cls), [], kw, None)
                holder['b'] = b
                return b
            outs = ai.explore(thunk)
            cfg = f'Backend(name={bname!r}, api={api!r}, load={load}{"" if use_env is None else ", use_environ=%r" % use_env}) env={env}'
            ok = len(outs) == 1 and outs[0].kind == 'return' and holder['b'].attrs.get('name') == wn and holder['b'].attrs.get('api') == wa
            ctx.require(ok, 'R20.4', cfg, w, f'name/api = {holder["b"].attrs.get("name")!r}/{holder["b"].attrs.get("api")!r}, expected {wn!r}/{wa!r}: {outs}',
                        construct=f'{init.qname}::name-api-split')
            ctx.require(ai.state['imports'] == ([wn] if load else []), 'R20.1', f'{cfg}.import', w,
                        f'imports at construction: {ai.state["imports"]}', construct=f'{init.qname}::load-flag')


def r20_names(ctx):
    cls = ctx.p.cls(BK, 'Backend')
    devices = [{'name': 'A', 'is_input': True, 'is_output': False}, {'name': 'B', 'is_input': True, 'is_output': True},
               {'name': 'C', 'is_input': False, 'is_output': True}, {'name': 'D', 'is_input': True, 'is_output': True},
               {'name': 'B2', 'is_input': False, 'is_output': False}]
    want = {'get_input_names': ['A', 'B', 'D'], 'get_output_names': ['B', 'C', 'D'], 'get_ioport_names': ['B', 'D']}
    # a module that lists the two directions of a device as separate entries under one name (PortMidi, pygame): a name is an
    # I/O name when it is among the inputs and among the outputs, in input order
    devices2 = [{'name': 'X', 'is_input': True, 'is_output': False}, {'name': 'X', 'is_input': False, 'is_output': True},
                {'name': 'Y', 'is_input': True, 'is_output': False}, {'name': 'Z', 'is_input': False, 'is_output': True},
                {'name': 'W', 'is_input': False, 'is_output': True}, {'name': 'W', 'is_input': True, 'is_output': False}]
    want2 = {'get_input_names': ['X', 'Y', 'W'], 'get_output_names': ['X', 'Z', 'W'], 'get_ioport_names': ['X', 'W']}
    cls0 = cls
    for meth, names in want2.items():
        ai = make_interp(ctx, {}, True, True, devices2)
        o, fn = ctx.p.lookup_method(cls0, meth)
        outs = ai.explore(lambda: pm.call(ai, ctx, ai.apply(ClassRef(cls0), [], {'name': 'mod'}, None), meth, [], {}))
        val = outs[0].value if len(outs) == 1 and outs[0].kind == 'return' else None
        if isinstance(val, AList):
            val = list(val.items)
        ctx.require(val == names, 'R20.5', f'{meth}() with one entry per direction', ctx.where(fn),
                    f'devices listed once per direction {[(d["name"], "in" if d["is_input"] else "out") for d in devices2]}: gives {val if val is not None else outs}, '
                    f'expected {names}', construct=f'{fn.qname}::listing')
    # the direction flags are truth values: PortMidi and pygame report them as the integers 1 and 0
    devices3 = [{'name': d['name'], 'is_input': int(d['is_input']), 'is_output': int(d['is_output'])} for d in devices]
    for meth, names in want.items():
        ai = make_interp(ctx, {}, True, True, devices3)
        o, fn = ctx.p.lookup_method(cls0, meth)
        outs = ai.explore(lambda: pm.call(ai, ctx, ai.apply(ClassRef(cls0), [], {'name': 'mod'}, None), meth, [], {}))
        val = outs[0].value if len(outs) == 1 and outs[0].kind == 'return' else None
        if isinstance(val, AList):
            val = list(val.items)
        ctx.require(val == names, 'R20.5', f'{meth}() with the direction flags given as 1 and 0', ctx.where(fn),
                    f'devices {[(d["name"], d["is_input"], d["is_output"]) for d in devices3]}: gives {val if val is not None else outs}, expected {names}',
                    construct=f'{fn.qname}::listing')
    # a module that has a device list and fails to produce it: the failure is the answer, not an empty list
    for exc in ('AttributeError', 'OSError', 'KeyError'):
        for meth in want:
            ai = make_interp(ctx, {}, True, True, ('raise', exc))
            o, fn = ctx.p.lookup_method(cls, meth)
            outs = ai.explore(lambda: pm.call(ai, ctx, ai.apply(ClassRef(cls), [], {'name': 'mod'}, None), meth, [], {}))
            ok = bool(outs) and all(o_.kind == 'raise' and o_.exc == exc for o_ in outs)
            ctx.require(ok, 'R20.5', f'{meth}() when the module\'s get_devices raises {exc}', ctx.where(fn),
                        f'gives {outs}; the names derive from the module\'s device list - its failure must come out, not a list of no ports',
                        construct=f'{fn.qname}::listing-failure')
    for has_dev in (True, False):
        for bname, api_call in (('mod/APIN', None), ('mod', 'APIC'), ('mod', None)):
            for meth, names in want.items():
                ai = make_interp(ctx, {}, True, has_dev, devices)
                o, fn = ctx.p.lookup_method(cls, meth)
                ctx.fn(fn)

                def thunk():
                    b = ai.apply(ClassRef(cls), [], {'name': bname}, None)
                    kw = {'api': api_call} if api_call else {}
                    return pm.call(ai, ctx, b, meth, [], kw)
                outs = ai.explore(thunk)
                cfg = f'{meth}() backend={bname!r} api={api_call!r} get_devices={has_dev}'
                exp = names if has_dev else []
                val = outs[0].value if len(outs) == 1 and outs[0].kind == 'return' else None
                if isinstance(val, AList):
                    val = list(val.items)
                ctx.require(val == exp, 'R20.5', cfg, ctx.where(fn), f'gives {outs}, expected {exp}', construct=f'{fn.qname}::listing')
                if has_dev and ai.state['module'] is not None:
                    dcalls = [c for c in ai.state['module'].calls if c[0] == 'get_devices']
                    want_api = api_call or ('APIN' if '/' in bname else None)
                    ctx.require(len(dcalls) == 1 and dcalls[0][2].get('api') == want_api, 'R20.2', f'{cfg}.api', ctx.where(fn),
                                f'get_devices called as {dcalls}; api must be {want_api!r}', construct=f'{fn.qname}::api')


def r20_set_backend(ctx):
    m = ctx.p.module('mido')
    sb = m.functions.get('set_backend')
    if sb is None:
        raise AnalysisError('mido.set_backend not found')
    ctx.fn(sb)
    w = ctx.where(sb)
    cls = ctx.p.cls(BK, 'Backend')
    for arg, label, before in (('mod/APIX', 'name', None), (None, 'default', None), ('OBJ', 'Backend object', None),
                               ('OBJ', 'Backend object with the name and api already in force', 'given.mod/APIQ'),
                               ('mod/APIX', 'name, after another backend', 'other.mod')):
        ai = make_interp(ctx, {}, True, True)
        holder = {}

        def thunk():
            if before is not None:
                ai.call_function(sb, [], {'name': before})
            a = arg
            if arg == 'OBJ':
                a = ai.apply(ClassRef(cls), [], {'name': 'given.mod', 'api': 'APIQ', 'use_environ': False} if before else {'name': 'given.mod'}, None)
                holder['given'] = a
            ai.call_function(sb, [], {'name': a} if a is not None else {})
            g_ = ai.module_globals.get('mido')
            if not isinstance(g_, ADict):
                return g_
            snap = ADict()              # what this path leaves in the module namespace (the live dict is reset for the next path)
            snap.d = dict(g_.d)
            return snap
        outs = ai.explore(thunk)
        cfg = f'set_backend({label})'
        if not outs or any(o_.kind != 'return' or not isinstance(o_.value, ADict) for o_ in outs):
            ctx.fail('R20.6', cfg, w, f'{outs}', construct=f'{sb.qname}::outcomes')
            continue
        # (several outcomes: a test the analysis cannot decide, such as a comparison with the backend in force through an
        # __eq__ of its own - whichever way it goes, the chosen backend must be installed and the functions rebound to it)
        for o_ in outs:
            g = o_.value.d
            b = g.get('backend')
            how = (' (when ' + ', '.join(d[2] for d in o_.decisions) + ')') if o_.decisions and len(outs) > 1 else ''
            ok = isinstance(b, AObj) and b.cls == cls
            if arg == 'OBJ':
                ok = ok and b is holder['given']
            elif arg:
                ok = ok and b.attrs.get('name') == 'mod' and b.attrs.get('api') == 'APIX'
            ctx.require(ok, 'R20.6', f'{cfg}.backend', w, f'mido.backend is {b!r}{how}' + (' - not the Backend object that was passed in' if arg == 'OBJ' else ''),
                        construct=f'{sb.qname}::backend')
            names = ['open_input', 'open_output', 'open_ioport', 'get_input_names', 'get_output_names', 'get_ioport_names']
            bad = [nm for nm in names if not (isinstance(g.get(nm), tuple) and g[nm][0] == 'bound' and g[nm][1] is b and g[nm][2].name == nm)]
            ctx.require(not bad, 'R20.6', f'{cfg}.rebinding', w, f'top level functions not rebound to the chosen backend{how}: {bad}', construct=f'{sb.qname}::rebinding')
        ctx.require(ai.state['imports'] == [], 'R20.1', f'{cfg}.lazy', w, f'set_backend imports {ai.state["imports"]} although load=False',
                    construct=f'{sb.qname}::lazy')
    # load=True: the backend is made from the name as with load=False - name and API as given - and its module is imported
    # now, once (the flag must reach the parameter it is meant for: Backend(name, api, load, use_environ))
    for arg, wn, wa in (('mod/APIX', 'mod', 'APIX'), ('mod', 'mod', None)):
        ai = make_interp(ctx, {}, True, True)
        outs = ai.explore(lambda: (ai.call_function(sb, [], {'name': arg, 'load': True}), ai.module_globals.get('mido'))[1])
        cfg = f'set_backend({arg!r}, load=True)'
        g = outs[0].value.d if len(outs) == 1 and outs[0].kind == 'return' and isinstance(outs[0].value, ADict) else None
        b = g.get('backend') if g is not None else None
        ok = isinstance(b, AObj) and b.attrs.get('name') == wn and b.attrs.get('api') == wa and ai.state['imports'] == [wn]
        ctx.require(ok, 'R20.6', cfg, w, f'mido.backend is {b!r}, imports made: {ai.state["imports"]}; expected name {wn!r}, api {wa!r} and exactly '
                    f'the import of {wn!r}: {"" if g is not None else outs}', construct=f'{sb.qname}::load-flag')
    # called once at import; no backend module imported at package import
    called = [s for s in m.tree.body if isinstance(s, ast.Expr) and isinstance(s.value, ast.Call) and unparse(s.value.func) == 'set_backend']
    ctx.require(len(called) == 1 and not called[0].value.args and not called[0].value.keywords, 'R20.6', 'set_backend() at import', w,
                'set_backend() is not called exactly once, without load, at import', construct=f'{m.relpath}::import-time-call')
    for mod in (m, ctx.p.module(BK)):
        for local, (modname, attr) in mod.imports.items():
            full = f'{modname}.{attr}' if attr else modname
            tgt = ctx.p.modules.get(full) or ctx.p.modules.get(modname)
            # a backend implementation: a module of the package that offers ports / a device list, or one of the MIDI libraries
            impl = tgt is not None and tgt.name.startswith('mido.backends.') and tgt.name != BK and (
                {'get_devices', 'Input', 'Output', 'IOPort'} & (set(tgt.functions) | set(tgt.classes)))
            bad = bool(impl) or full.split('.')[0] in ('rtmidi', 'pygame', 'portmidi', 'rtmidi_python')
            ctx.require(not bad, 'R20.1', f'{mod.name}.imports({full})', f'{mod.relpath}:1', f'{mod.name} imports the backend module {full} eagerly',
                        construct=f'{mod.relpath}::eager-import({full})')
    # (that nothing but first use imports the backend module is decided on the executions above: the import events of every
    # configuration are compared with the reference, whichever method performs the import)


def r20_repr(ctx):
    """R20.1: looking at a Backend (repr / str / f-string, what a prompt does with `mido.backend`) does not import the module: it
    is imported only when first NEEDED.  repr() of a lazily made backend: no import event, and the text names the module."""
    cls = ctx.p.cls(BK, 'Backend')
    o, rp = ctx.p.lookup_method(cls, '__repr__')
    if rp is None:
        return
    ctx.fn(rp)
    for bname, api in (('mod', None), ('mod/ALSA', None), ('mod', 'JACK')):
        ai = make_interp(ctx, {}, True, True, [])

        def thunk():
            b = ai.apply(ClassRef(cls), [], {'name': bname, 'api': api}, None)
            return ai.call_function(rp, [b], {})
        outs = ai.explore(thunk)
        ok = len(outs) == 1 and outs[0].kind == 'return' and ai.state['imports'] == []
        ctx.require(ok, 'R20.1', f'repr(Backend({bname!r}, api={api!r}))', ctx.where(rp),
                    f'formatting a backend that has not been used yet: {outs if len(outs) != 1 or outs[0].kind != "return" else ""} imports {ai.state["imports"]} '
                    '(the module must only be imported when first needed)', construct=f'{rp.qname}::imports')


def r20_default_module(ctx):
    """R20.2 continued inside the default backend module (mido.backends.rtmidi): the API name that reaches it selects the RtMidi
    API of every MidiIn/MidiOut and device query - a name RtMidi knows but that is not compiled in, or an unknown name, is an
    error, never a silent fall-back to the default API.  _get_api_id is interpreted with the name tables and the compiled-API
    list scripted."""
    try:
        fn = ctx.p.func('mido.backends.rtmidi', '_get_api_id')
    except AnalysisError:
        ctx.notes.append('mido.backends.rtmidi._get_api_id not found: R20.7 not applicable')
        return
    ctx.fn(fn)
    w = ctx.where(fn)
    RT = 'mido.backends.rtmidi'
    names = {'UNSPECIFIED': 0, 'LINUX_ALSA': 2, 'UNIX_JACK': 3}
    for api, want in ((None, 'unspecified'), ('LINUX_ALSA', 2), ('UNIX_JACK', 'ValueError'), ('NO_SUCH_API', 'ValueError')):
        ai = pm.make_interp(ctx)
        ai.global_overrides[(RT, '_name_to_api')] = dict(names)
        ai.global_overrides[(RT, '_api_to_name')] = {v: k for k, v in names.items()}
        ai.summaries['rtmidi.get_compiled_api'] = lambda i, a, k, n: [2]
        outs = ai.explore(lambda: ai.call_function(fn, [api] if api is not None else [], {}))
        if want == 'ValueError':
            ok = bool(outs) and all(o_.kind == 'raise' and o_.exc == 'ValueError' for o_ in outs)
        elif want == 'unspecified':
            ok = len(outs) == 1 and outs[0].kind == 'return' and (outs[0].value == 0 or 'API_UNSPECIFIED' in repr(outs[0].value))
        else:
            ok = len(outs) == 1 and outs[0].kind == 'return' and outs[0].value == want
        ctx.require(ok, 'R20.7', f'rtmidi._get_api_id({api!r})', w,
                    f'with LINUX_ALSA compiled in and UNIX_JACK known but not compiled in, _get_api_id({api!r}) gives {outs}; expected '
                    f'{"the unspecified API" if want == "unspecified" else want} (an API that was asked for must not be replaced by another one silently)',
                    construct=f'{fn.qname}::api({api})')


RULES = [('R20.1-repr', r20_repr), ('R20.7', r20_default_module), ('R20-open', r20_open), ('R20.4', r20_backend_name), ('R20.5', r20_names), ('R20.6', r20_set_backend)]
