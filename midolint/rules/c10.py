"""C10 - ports deliver each message exactly once and in order under concurrent use."""
from __future__ import annotations

import ast

from .. import astq, portmodel as pm
from ..model import AnalysisError, ClassInfo, FuncInfo, Unsupported, unparse
from . import c05, c11

LEVEL = 'other'
EXPLANATION = (
    'Interleavings are not explored.  What is decided is the lock discipline that makes exactly-once hold in every '
    'interleaving (CPython deque operations being atomic is the stated assumption).  An Eraser-style audit runs over the event '
    'logs of abstract executions of every public call (receive with and without pending messages, blocking receive with delayed '
    'delivery, poll, iter_pending, iteration with the device closing, send, reset, panic, close) of BaseInput, BaseOutput, '
    'BaseIOPort, EchoPort, IOPort and MultiPort built by their real constructors on lock/queue/device doubles: (R10.1) every use '
    'of a pending queue happens while a real lock is held and one lock is common to all uses of that queue; (R10.2) every popleft() '
    'happens in the same acquisition of the lock as the emptiness test that guards it; (R10.3) the constructor gives ordinary ports '
    'a real re-entrant lock and the wrapper a no-op one, and the wrapper reaches the queue it shares only under the input port\'s '
    'lock; (R10.5) device hooks run with the port lock held, sleep() with none; (R10.8) no call raises.  Because the audit sees only '
    'the methods the scenarios run, a syntactic guarded-by sweep (aliases of self._lock / self._messages followed) covers every '
    'method of every subclass of BasePort in mido/ports.py and mido/sockets.py; (R10.4) the "holds own lock while calling a '
    'lock-taking method of another port" graph has no cycle; (R10.6) the device receives a copy (abstractly interpreted send, see '
    'C11); (R10.7) ParserQueue feeds and drains under one lock (C05 R05.6).')
TRUSTED = ['midolint program model (MRO, method resolution)', 'CPython: single deque operations are atomic; RLock semantics']
ASSUMPTIONS = ['observed histories under real schedules are not enumerated (needs schedule exploration, another technique)',
               'backends that override send/receive with their own queue and lock (rtmidi, amidi) are outside the analysed family; '
               'they are listed in the evidence',
               'a MultiPort is not nested inside itself']

P = pm.PORTS
LOCK_API = {'send', 'receive', 'poll', 'iter_pending', 'close', 'reset', 'panic', '__iter__'}
HOOKS = {'_send', '_receive'}


def family(ctx, modules=(P, pm.SOCKETS)):
    base = ctx.p.cls(P, 'BasePort')
    out = [base]
    for modname in modules:
        m = ctx.p.module(modname)
        for c in m.classes.values():
            if c != base and ctx.p.is_subclass(c, base):
                out.append(c)
    return out


def uses_dummy_lock(ctx, c: ClassInfo):
    """Does class c replace the lock by a no-op?"""
    v = ctx.p.class_attr(c, '_locking')
    if v is not None and isinstance(v, ast.Constant) and v.value is False:
        return True
    for k in ctx.p.mro(c):
        if k.name == 'BasePort':
            break
        init = k.methods.get('__init__')
        if init is None:
            continue
        for t, st in astq.stores_in(init.node):
            if unparse(t) == 'self._lock' and isinstance(st, ast.Assign) and 'DummyLock' in unparse(st.value):
                return True
    return False


def _aliases(fn_node, attr):
    """Local names bound to self.<attr> by an assignment (lock = self._lock; lock, q = self._lock, self._messages)."""
    names, rhs = set(), set()

    def bind(t, v):
        if isinstance(t, ast.Name) and isinstance(v, ast.Attribute) and v.attr == attr and isinstance(v.value, ast.Name) and v.value.id == 'self':
            names.add(t.id)
            rhs.add(id(v))
        elif isinstance(t, (ast.Tuple, ast.List)) and isinstance(v, (ast.Tuple, ast.List)) and len(t.elts) == len(v.elts):
            for a, b in zip(t.elts, v.elts):
                bind(a, b)
    for n in astq.walk_shallow(fn_node):
        if isinstance(n, ast.Assign):
            for t in n.targets:
                bind(t, n.value)
        elif isinstance(n, ast.NamedExpr):
            bind(n.target, n.value)
    return names, rhs


def _is_self_attr(e, attr, aliases=()):
    return (isinstance(e, ast.Attribute) and e.attr == attr and isinstance(e.value, ast.Name) and e.value.id == 'self') or \
        (isinstance(e, ast.Name) and e.id in aliases)


def lock_regions(fn_node):
    al, _ = _aliases(fn_node, '_lock')
    return [n for n in astq.walk_shallow(fn_node) if isinstance(n, ast.With)
            and any(_is_self_attr(i.context_expr, '_lock', al) for i in n.items)]


def in_region(regions, node):
    return [r for r in regions if astq.contains_node(r, node) and r is not node]


def deque_accesses(fn_node):
    """Uses of the pending queue: loads of self._messages (binding it to a local name is not a use; the uses of that name are)."""
    al, rhs = _aliases(fn_node, '_messages')
    out = []
    for n in astq.walk_shallow(fn_node):
        if isinstance(n, (ast.Attribute, ast.Name)) and isinstance(n.ctx, ast.Load) and _is_self_attr(n, '_messages', al) and id(n) not in rhs:
            out.append(n)
    return out


def r10_1(ctx):
    fam = family(ctx)
    ctx.extra['port_family'] = [c.qname for c in fam]
    audit = run_audit(ctx)
    n = 0
    hook_sites = []
    for c in fam:
        for name, fn in c.methods.items():
            ctx.fn(fn)
            regions = lock_regions(fn.node)
            for acc in deque_accesses(fn.node):
                n += 1
                inst = f'{c.name}.{name}@{acc.lineno}'
                if name == '__init__':
                    ctx.ok('R10.1', inst, ctx.where(fn, acc), 'construction')
                    continue
                if name in HOOKS:
                    ctx.ok('R10.1', inst, ctx.where(fn, acc), 'device hook, callers checked by R10.5')
                    hook_sites.append((c, fn))
                    continue
                if not in_region(regions, acc) and id(acc) in audit['covered']:
                    ctx.ok('R10.1', inst, ctx.where(fn, acc), 'reached by the abstract executions: decided by the lockset audit')
                    continue
                ctx.require(bool(in_region(regions, acc)), 'R10.1', inst, ctx.where(fn, acc),
                            f'the pending queue is accessed outside `with self._lock` in {c.name}.{name} (and no audited execution reaches this access)',
                            construct=f'{fn.qname}::unguarded-queue-access')
    for inst, w, cons, code, text in audit['problems']:
        if code in ('unguarded', 'lockset') and not inst.startswith('IOPort.'):
            ctx.fail('R10.1', inst, w, text, construct=cons)
        if code == 'hook-outside-lock':
            ctx.fail('R10.5', inst, w, text, construct=cons)
    # R10.5a: hooks are only called inside lock regions
    m = 0
    for c in fam:
        for name, fn in c.methods.items():
            regions = lock_regions(fn.node)
            for call in astq.calls(fn.node):
                f = call.func
                if isinstance(f, ast.Attribute) and f.attr in HOOKS and isinstance(f.value, ast.Name) and f.value.id == 'self':
                    m += 1
                    ctx.call_sites += 1
                    if id(call) in audit['covered']:
                        ctx.ok('R10.5', f'{c.name}.{name}->{f.attr}@{call.lineno}', ctx.where(fn, call), 'reached by the abstract executions: decided by the lockset audit')
                        continue
                    ctx.require(bool(in_region(regions, call)) or name in HOOKS, 'R10.5', f'{c.name}.{name}->{f.attr}@{call.lineno}',
                                ctx.where(fn, call), f'self.{f.attr}() is called without holding the port lock (device I/O of two threads can interleave)',
                                construct=f'{fn.qname}::{f.attr}-outside-lock')


def r10_2(ctx):
    """Every pop of the pending queue lies in a lock region (or a device hook); that the emptiness test guarding it was made
    in the SAME acquisition of the lock is decided on the abstract executions (audit_lockset, code check-then-pop)."""
    fam = family(ctx)
    audit = run_audit(ctx)
    n = 0
    for c in fam:
        for name, fn in c.methods.items():
            regions = lock_regions(fn.node)
            al, _ = _aliases(fn.node, '_messages')
            for call in astq.calls(fn.node):
                f = call.func
                if isinstance(f, ast.Attribute) and f.attr in ('popleft', 'pop') and _is_self_attr(f.value, '_messages', al):
                    n += 1
                    inst = f'{c.name}.{name}.pop@{call.lineno}'
                    if name in HOOKS:
                        ctx.ok('R10.2', inst, ctx.where(fn, call), 'inside a device hook (lock held by the caller)')
                        continue
                    if id(call) in audit['covered']:
                        ctx.ok('R10.2', inst, ctx.where(fn, call), 'reached by the abstract executions: decided by the lockset audit')
                        continue
                    ctx.require(bool(in_region(regions, call)), 'R10.2', inst, ctx.where(fn, call),
                                'popleft() outside every `with self._lock` region (another thread can take the message between the test and the pop)',
                                construct=f'{fn.qname}::check-then-pop')
    for inst, w, cons, code, text in audit['problems']:
        if code == 'check-then-pop':
            ctx.fail('R10.2', inst, w, text, construct=cons)
    ctx.floor('R10.2-audited-pops', audit['totals']['pop'], 8)      # the floors that count are those of the audit (R10.8): the sweep may find nothing to add


def r10_3(ctx):
    fam = family(ctx)
    inp = ctx.p.cls(P, 'BaseInput')
    n = 0
    for c in fam:
        if not uses_dummy_lock(ctx, c):
            continue
        n += 1
        w = f'{c.module.relpath}:{c.node.lineno} {c.name}'
        # does it share a deque with another object?
        shares = False
        for k in ctx.p.mro(c):
            init = k.methods.get('__init__')
            if init is None:
                continue
            for t, st in astq.stores_in(init.node):
                if unparse(t) == 'self._messages' and isinstance(st, ast.Assign):
                    src = unparse(st.value)
                    if src.startswith('self.') and src.count('.') >= 2 and not src.startswith('self._parser'):
                        shares = True
            if k is c:
                break
        # every lock-relying method that names the deque must be unreachable: overridden by a forwarder
        for meth in ('receive', 'poll', 'iter_pending', '__iter__'):
            o, fn = ctx.p.lookup_method(c, meth)
            if fn is None:
                continue
            ctx.fn(fn)
            touches = bool(deque_accesses(fn.node))
            ctx.require(not touches, 'R10.3', f'{c.name}.{meth}', ctx.where(fn),
                        f'{c.name} has no real lock{" and shares its queue with another port" if shares else ""}, but {meth}() resolves to '
                        f'{fn.qname.split("::")[1]}, which tests and pops that queue relying on the lock', construct=f'{c.qname}::{meth}::unlocked-shared-queue')
    ctx.floor('R10.3', n, 1)
    # the lock is chosen once by the constructor: a real re-entrant lock for ordinary ports, the no-op one for the wrapper;
    # and the wrapper's calls reach the shared queue only under the input port's real lock (abstract executions)
    audit = run_audit(ctx)
    base = ctx.p.cls(P, 'BasePort')
    init = base.methods.get('__init__')
    for kind, lk in sorted(audit['locks'].items()):
        want_real = not uses_dummy_lock(ctx, ctx.p.cls(P, kind))
        ctx.require((lk == 'RLock') == want_real and lk in ('RLock', 'DummyLock'), 'R10.3', f'{kind}._lock', ctx.where(init),
                    f'after construction {kind}._lock is {lk}', construct=f'{init.qname}::lock')
    for inst, w, cons, code, text in audit['problems']:
        if code in ('unguarded', 'lockset') and inst.startswith('IOPort.'):
            ctx.fail('R10.3', inst, w, text + ' (the wrapper has no lock of its own and shares the queue of its input port)', construct=cons)
    # methods that only constructors reach (a set-up helper called from __init__) count as construction
    ctor_only = set()
    changed = True
    while changed:
        changed = False
        for c in fam:
            for name in c.methods:
                if name == '__init__' or name in ctor_only or name.startswith('__'):
                    continue
                callers = [(k, g) for k in fam for g, gfn in k.methods.items()
                           for cc in astq.calls(gfn.node)
                           if isinstance(cc.func, ast.Attribute) and cc.func.attr == name]
                if callers and all(g == '__init__' or g in ctor_only for _, g in callers):
                    ctor_only.add(name)
                    changed = True
    for c in fam:
        for name, fn in c.methods.items():
            if name == '__init__' or name in ctor_only:
                continue
            for t, s in astq.stores_in(fn.node):
                if unparse(t) == 'self._lock':
                    ctx.fail('R10.3', f'{c.name}.{name}.rebinds-lock', ctx.where(fn, s), 'the port lock is replaced after construction',
                             construct=f'{fn.qname}::rebinds-lock')
    d = ctx.p.resolve(ctx.p.module(P), 'DummyLock')        # defined in ports.py or imported into it
    if d is None or d.kind != 'class':
        raise AnalysisError('class DummyLock is not reachable from mido/ports.py')
    dl = d.obj
    ctx.require('__enter__' in dl.methods and '__exit__' in dl.methods, 'R10.3', 'DummyLock', f'{dl.module.relpath}:{dl.node.lineno} DummyLock',
                'DummyLock is not a context manager', construct=f'{dl.qname}::protocol')


def r10_4(ctx):
    """Lock order: holds own lock (region or hook) while calling a lock-taking method of another port."""
    fam = family(ctx)
    edges = []
    for c in fam:
        real = not uses_dummy_lock(ctx, c)
        for name, fn in c.methods.items():
            regions = lock_regions(fn.node)
            for call in astq.calls(fn.node):
                f = call.func
                if isinstance(f, ast.Attribute) and f.attr in LOCK_API and not (isinstance(f.value, ast.Name) and f.value.id == 'self') \
                        and not (isinstance(f.value, ast.Call) and unparse(f.value.func) == 'super'):
                    holding = real and (bool(in_region(regions, call)) or name in HOOKS or name == '_close')
                    ctx.call_sites += 1
                    if holding:
                        edges.append((c.name, unparse(f.value), f.attr, fn, call))
    ctx.extra['lock_order_edges'] = [f'{a} --holds own lock, calls--> {b}.{m}' for a, b, m, _, _ in edges]
    # receivers are child ports (elements of self.ports, self.input/self.output); a cycle needs a child that refers back to its container
    back = []
    containers = {a for a, _, _, _, _ in edges}
    for c in fam:
        for name, fn in c.methods.items():
            for t, st in astq.stores_in(fn.node):
                if isinstance(t, ast.Attribute) and isinstance(t.value, ast.Name) and t.value.id == 'self' and isinstance(st, ast.Assign):
                    v = unparse(st.value)
                    if any(v.startswith(k + '(') for k in containers) and c.name not in containers:
                        back.append((c, fn, st))
    ctx.require(not back, 'R10.4', 'lock-order', 'mido/ports.py:1 port family',
                f'a child port keeps a reference to a container port: {[unparse(s) for _, _, s in back]} - lock order cycle possible',
                construct='mido/ports.py::lock-order::back-reference')
    for a, b, m, fn, call in edges:
        ctx.ok('R10.4', f'{a}->{b}.{m}', ctx.where(fn, call), 'container holds its lock while using a child port')


def r10_5(ctx):
    """sleep() outside every lock region and device hook; sleeping generators only with block=False from hooks."""
    fam = family(ctx)
    audit = run_audit(ctx)
    n = 0
    for c in fam:
        real = not uses_dummy_lock(ctx, c)
        for name, fn in c.methods.items():
            regions = lock_regions(fn.node)
            for call in astq.calls(fn.node):
                q = astq.callee_qname(ctx.p, fn, call)
                if q in ('mido/ports.py::sleep', 'time.sleep'):
                    n += 1
                    bad = real and (bool(in_region(regions, call)) or name in HOOKS) and id(call) not in audit['covered']
                    ctx.require(not bad, 'R10.5', f'{c.name}.{name}.sleep@{call.lineno}', ctx.where(fn, call),
                                'sleep() while the port lock is held: senders and other receivers are blocked for the polling interval',
                                construct=f'{fn.qname}::sleep-under-lock')
                if q == 'mido/ports.py::multi_receive' and (name in HOOKS or in_region(regions, call)):
                    n += 1
                    b = astq.arg_or_kw(call, 2, 'block')
                    ctx.require(b is not None and astq.const_value(b) is False, 'R10.5', f'{c.name}.{name}.multi_receive@{call.lineno}',
                                ctx.where(fn, call), 'multi_receive() is called under the port lock without block=False: it sleeps (and never ends) holding the lock',
                                construct=f'{fn.qname}::multi_receive-blocking')
    for inst, w, cons, code, text in audit['problems']:
        if code == 'sleep-under-lock':
            ctx.fail('R10.5', inst, w, text, construct=cons)


def r10_6(ctx):
    c11.r11_send(ctx)
    # EchoPort enqueues its argument (hence the copy made by send())
    ec = ctx.p.cls(P, 'EchoPort')
    fn = ctx.p.lookup_method(ec, '_send')[1]
    if fn is None:
        raise AnalysisError('EchoPort._send not found')
    ctx.fn(fn)
    # by execution: what the hook is given is what ends up at the tail of the port's queue, the very object, once; what was
    # queued before stays in front of it (send() hands it a copy, so the sender's object is not the one that is queued)
    from ..absint import AObj
    ai = pm.make_interp(ctx)
    pm.device_double(ai, ctx)
    holder = {}

    def thunk():
        port = pm.new_port(ai, ctx, 'EchoPort', [], {})
        m0, m1, m2 = pm.note(ctx, 1), pm.note(ctx, 2), pm.note(ctx, 3)
        holder.update(port=port, m=(m0, m1, m2))
        port.attrs['_messages'].items.append(m0)
        ai.call_function(fn, [port, m1], {})
        pm.call(ai, ctx, port, 'send', [m2])
        return port
    outs = ai.explore(thunk)
    ok = len(outs) == 1 and outs[0].kind == 'return'
    q = None
    if ok:
        q = holder['port'].attrs['_messages'].items
        m0, m1, m2 = holder['m']
        ok = len(q) == 3 and q[0] is m0 and q[1] is m1 and q[2] is not m2 and isinstance(q[2], AObj) and q[2].attrs == m2.attrs
    ctx.require(ok, 'R10.6', 'EchoPort._send', ctx.where(fn),
                f'EchoPort._send does not append exactly its argument to the queue (queue after _send(m1) and send(m2) on a port holding m0: {q if q is not None else outs})',
                construct=f'{fn.qname}::append')
    for qn in ai.inlined:
        ctx.functions.add(qn)


def r10_7(ctx):
    c05.r05_6(ctx)
    for o in ctx.obligations:
        if o.rule == 'R05.6':
            o.rule = 'R10.7'


def r10_backends(ctx):
    """Thorough: the same lock rules over every port class of mido/backends."""
    base = ctx.p.cls(P, 'BasePort')
    outside = []
    for m in ctx.p.modules.values():
        if not m.name.startswith('mido.backends.'):
            continue
        for c in m.classes.values():
            if not ctx.p.is_subclass(c, base):
                continue
            own = {n for n in ('send', 'receive', 'poll') if n in c.methods}
            if uses_dummy_lock(ctx, c):
                # must not run the lock-relying base methods
                for meth, needed in (('receive', ctx.p.is_subclass(c, ctx.p.cls(P, 'BaseInput'))), ('send', ctx.p.is_subclass(c, ctx.p.cls(P, 'BaseOutput')))):
                    if needed:
                        ctx.require(meth in own, 'R10.3', f'{m.name}.{c.name}.{meth}', f'{m.relpath}:{c.node.lineno} {c.name}',
                                    f'{c.name} disables the port lock (_locking = False) but inherits {meth}() from the base class',
                                    construct=f'{c.qname}::{meth}::inherits-with-dummy-lock')
                outside.append(c.qname)
            for name, fn in c.methods.items():
                regions = lock_regions(fn.node)
                for acc in deque_accesses(fn.node):
                    if name in ('__init__', '_open') or name in HOOKS:
                        continue
                    ctx.require(bool(in_region(regions, acc)), 'R10.1', f'{m.name}.{c.name}.{name}@{acc.lineno}', ctx.where(fn, acc),
                                'pending queue accessed outside the port lock', construct=f'{fn.qname}::unguarded-queue-access')
    ctx.extra['backends_with_own_locking'] = outside


def _try_guarded_calls(ctx):
    """ids of Call nodes inside a try body whose handlers catch IndexError (or wider)."""
    out = set()
    for m in ctx.p.modules.values():
        for t in ast.walk(m.tree):
            if isinstance(t, ast.Try):
                names = set()
                for h in t.handlers:
                    if h.type is None:
                        names.add('BaseException')
                    else:
                        for x in (h.type.elts if isinstance(h.type, ast.Tuple) else [h.type]):
                            names.add(unparse(x).split('.')[-1])
                if names & {'IndexError', 'LookupError', 'Exception', 'BaseException'}:
                    for st in t.body:
                        for c in ast.walk(st):
                            if isinstance(c, ast.Call):
                                out.add(id(c))
    return out


def audit_lockset(log, guarded=frozenset()):
    """Eraser-style audit of one abstract execution.  Returns (problems, per-deque candidate locksets, counts)."""
    start = next((i for i, e in enumerate(log) if e[0] == 'phase'), -1) + 1
    held = []                # lock doubles currently held (re-entrant: with multiplicity)
    epoch = {}               # id(lock) -> number of outermost acquisitions so far
    problems = []
    cands = {}               # id(deque) -> set of id(lock) held at every access
    last_test = {}           # id(deque) -> {id(lock): epoch} at the latest emptiness test
    counts = {'deque': 0, 'device': 0, 'sleep': 0, 'pop': 0}

    def real(x):
        return isinstance(x, pm.AMock) and x.name in ('RLock', 'Lock')
    for i, e in enumerate(log):
        if e[0] == 'with-enter' and real(e[1]):
            if not any(h is e[1] for h in held):
                epoch[id(e[1])] = epoch.get(id(e[1]), 0) + 1
            held.append(e[1])
        elif e[0] == 'with-exit' and real(e[1]):
            for k in range(len(held) - 1, -1, -1):
                if held[k] is e[1]:
                    del held[k]
                    break
        if i < start:
            continue
        now = {id(h): epoch[id(h)] for h in held}
        if e[0] == 'deque':
            op, dq, node = e[1], e[2], e[3] if len(e) > 3 else None
            counts['deque'] += 1
            line = getattr(node, 'lineno', '?')
            cands[id(dq)] = set(now) if id(dq) not in cands else cands[id(dq)] & set(now)
            if not now:
                problems.append(('unguarded', f'the pending queue is used ({op}, line {line}) while no port lock is held'))
            if op == 'test':
                last_test[id(dq)] = dict(now)
            elif op in ('popleft', 'pop'):
                counts['pop'] += 1
                t = last_test.get(id(dq))
                same = t is not None and any(now.get(k) == v for k, v in t.items())
                if not same and id(node) not in guarded:
                    problems.append(('check-then-pop', f'{op}() at line {line} is not in the same lock region as the emptiness test that guards it '
                                     '(another thread can take the message in between: IndexError)'))
        elif e[0] == 'device' and e[1] in HOOKS:
            counts['device'] += 1
            port = e[2]
            lk = port.attrs.get('_lock') if hasattr(port, 'attrs') else None
            if real(lk) and id(lk) not in now:
                problems.append(('hook-outside-lock', f'{port.cls.name}.{e[1]}() runs without the port lock (device I/O of two threads can interleave)'))
        elif e[0] == 'sleep':
            counts['sleep'] += 1
            if now:
                problems.append(('sleep-under-lock', 'sleep() while a port lock is held: senders and other receivers are blocked for the polling interval'))
    return problems, cands, counts


def run_audit(ctx):
    """The lock discipline audited on abstract executions of every public call of every port kind (aliases, helper methods
    and re-ordered code make no difference here: what counts is which lock double is held when the queue double, the device
    double or sleep() is reached).  Computed once per run."""
    if 'c10_audit' in ctx.cache:
        return ctx.cache['c10_audit']
    from ..absint import AList, AObj, log_event
    guarded = _try_guarded_calls(ctx)
    base = ctx.p.cls(P, 'BasePort')
    w0 = f'{base.module.relpath}:{base.node.lineno} port family'
    res = {'n': 0, 'totals': {'deque': 0, 'device': 0, 'sleep': 0, 'pop': 0}, 'problems': [], 'raises': [], 'locks': {}, 'functions': set(), 'runs': [], 'covered': set()}

    def mk(kind, ai):
        if kind == 'IOPort':
            i = pm.new_port(ai, ctx, 'BaseInput', [], {})
            o = pm.new_port(ai, ctx, 'BaseOutput', [], {})
            return pm.new_port(ai, ctx, 'IOPort', [i, o], {}), [i]
        if kind == 'MultiPort':
            a = pm.new_port(ai, ctx, 'EchoPort', [], {})
            b = pm.new_port(ai, ctx, 'BaseIOPort', [], {})
            return pm.new_port(ai, ctx, 'MultiPort', [[a, b]], {}), [a, b]
        p = pm.new_port(ai, ctx, kind, [], {})
        return p, [p]
    INPUT_CALLS = [('receive(pending)', 'receive', {}, 1, 0), ('receive(block=False, empty)', 'receive', {'block': False}, 0, None),
                   ('receive(blocking, delivered after 2 polls)', 'receive', {}, 0, 2), ('poll(pending)', 'poll', {}, 1, None),
                   ('poll(empty)', 'poll', {}, 0, None), ('iter_pending(2 pending)', 'iter_pending', {}, 2, None),
                   ('iteration(device closes after 1)', '__iter__', {}, 0, 'close')]
    OUTPUT_CALLS = [('send', 'send'), ('reset', 'reset'), ('panic', 'panic')]
    for kind in ('BaseInput', 'BaseOutput', 'BaseIOPort', 'EchoPort', 'IOPort', 'MultiPort'):
        cls = ctx.p.cls(P, kind)
        is_in = ctx.p.is_subclass(cls, ctx.p.cls(P, 'BaseInput'))
        is_out = ctx.p.is_subclass(cls, ctx.p.cls(P, 'BaseOutput'))
        calls = []
        if is_in:
            calls += INPUT_CALLS
        if is_out:
            calls += [(lab, meth, {}, 0, None) for lab, meth in OUTPUT_CALLS]
        calls.append(('close', 'close', {}, 1, None))
        for lab, meth, kw, npending, deliver in calls:
            ai = pm.make_interp(ctx)
            ai.covered = res['covered']
            state = {}

            def on_receive(interp, port, block):
                state['n'] = state.get('n', 0) + 1
                if deliver == 'close':
                    if state['n'] > 1:
                        pm.call(interp, ctx, state['port'], 'close')
                    else:
                        port.attrs['_messages'].items.append(pm.note(ctx, 40))
                elif deliver is not None and state['n'] == deliver + 1:
                    port.attrs['_messages'].items.append(pm.note(ctx, 41))
                return None
            pm.device_double(ai, ctx, on_receive=on_receive)

            def thunk():
                state.clear()
                port, feeders = mk(kind, ai)
                state['port'] = port
                lk = port.attrs.get('_lock')
                res['locks'][kind] = lk.name if isinstance(lk, pm.AMock) else lk.cls.name if isinstance(lk, AObj) and lk.cls is not None else repr(lk)
                for f in feeders[-1:]:
                    q = f.attrs.get('_messages')
                    if isinstance(q, AList):
                        q.items.extend(pm.note(ctx, i) for i in range(npending))
                ai.sleeps = 0
                log_event('phase', 'run')
                args = [pm.note(ctx, 7)] if meth == 'send' else []
                return pm.call(ai, ctx, port, meth, args, dict(kw))
            inst = f'{kind}.{lab}'
            try:
                outs = ai.explore(thunk)
            except Unsupported as e:
                raise Unsupported(f'{inst}: {e}')
            res['n'] += 1
            o, fn = ctx.p.lookup_method(cls, meth)
            w = ctx.where(fn) if fn is not None else w0
            bad = [o_ for o_ in outs if o_.kind != 'return']
            res['runs'].append((inst, w, len(outs)))
            if bad or not outs:
                res['raises'].append((inst, w, f'{cls.qname}::{meth}::raises', f'{bad[:2]}'))
            for o_ in outs:
                for e in o_.log:
                    if e[0] == 'deque' and len(e) > 3 and isinstance(e[3], ast.AST):
                        res['covered'].update(id(x) for x in ast.walk(e[3]))
                problems, cands, counts = audit_lockset(o_.log, guarded)
                for k in res['totals']:
                    res['totals'][k] += counts[k]
                for code, text in problems:
                    res['problems'].append((f'{inst}:{code}', w, f'{cls.qname}::{meth}::{code}', code, text))
                if any(not c for c in cands.values()) and not any(c == 'unguarded' for c, _ in problems):
                    res['problems'].append((f'{inst}:lockset', w, f'{cls.qname}::{meth}::lockset', 'lockset',
                                            'no single lock is held at every use of a pending queue in this execution'))
            res['functions'] |= set(ai.inlined)
    ctx.cache['c10_audit'] = res
    return res


def r10_abandoned(ctx):
    """R10.9: a receiver that stops consuming iter_pending() / iteration early takes only what it consumed - the messages it
    did not take are still delivered to the next receiver (a generator that drains the queue eagerly into a private list loses
    them: received zero times)."""
    from ..absint import AList, AObj
    from ..model import FuncInfo as FI, add_parents
    src = ("def probe(port, meth):\n"
           "    first = None\n"
           "    for m in getattr(port, meth)():\n"
           "        first = m\n"
           "        break\n"
           "    second = port.poll()\n"
           "    third = port.poll()\n"
           "    return first, second, third\n")
    tree = ast.parse(src)
    add_parents(tree)
    probe = FI('probe', ctx.p.module(P), tree.body[0])
    n = 0
    for kind in ('BaseInput', 'BaseIOPort', 'EchoPort', 'IOPort', 'MultiPort'):
        cls = ctx.p.cls(P, kind)
        for meth in ('iter_pending', '__iter__'):
            ai = pm.make_interp(ctx)
            pm.device_double(ai, ctx)
            holder = {}

            def thunk():
                if kind == 'IOPort':
                    i = pm.new_port(ai, ctx, 'BaseInput', [], {})
                    port = pm.new_port(ai, ctx, 'IOPort', [i, pm.new_port(ai, ctx, 'BaseOutput', [], {})], {})
                    feeder = i
                elif kind == 'MultiPort':
                    feeder = pm.new_port(ai, ctx, 'BaseIOPort', [], {})
                    port = pm.new_port(ai, ctx, 'MultiPort', [[feeder]], {})
                else:
                    port = feeder = pm.new_port(ai, ctx, kind, [], {})
                ms = [pm.note(ctx, 1), pm.note(ctx, 2)]
                holder['ms'] = ms
                feeder.attrs['_messages'].items.extend(ms)
                ai.sleeps = 0
                return ai.call_function(probe, [port, meth], {})
            o, fn = ctx.p.lookup_method(cls, meth)
            w = ctx.where(fn) if fn is not None else f'{cls.module.relpath}:{cls.node.lineno} {kind}'
            outs = ai.explore(thunk)
            n += 1
            inst = f'{kind}: for m in port.{meth}(): break; poll(); poll()'
            ok = len(outs) == 1 and outs[0].kind == 'return'
            why = f'{outs}'
            if ok:
                v = outs[0].value
                got = list(v.items) if isinstance(v, AList) else list(v)
                ms = holder['ms']

                def same(a, b):
                    return a is b or (isinstance(a, AObj) and isinstance(b, AObj) and a.attrs == b.attrs)
                ok = len(got) == 3 and same(got[0], ms[0]) and same(got[1], ms[1]) and got[2] is None
                why = f'two messages pending; the loop takes {got[0]!r} and stops; the next polls give {got[1]!r} and {got[2]!r} - the second message must still be delivered, once'
            ctx.require(ok, 'R10.9', inst, w, why, construct=f'{cls.qname}::{meth}::abandoned-iteration')
            for q in ai.inlined:
                ctx.functions.add(q)
    # the module-level generators over several ports, with and without the port in front of each message
    src2 = ("def probe2(ports, fn, yp):\n"
            "    first = None\n"
            "    for m in fn(ports, yield_ports=yp, block=False) if fn is multi_receive else fn(ports, yield_ports=yp):\n"
            "        first = m\n"
            "        break\n"
            "    return first, ports[0].poll(), ports[0].poll(), ports[1].poll(), ports[1].poll()\n")
    tree2 = ast.parse(src2)
    add_parents(tree2)
    probe2 = FI('probe2', ctx.p.module(P), tree2.body[0])
    for gname in ('multi_receive', 'multi_iter_pending'):
        gfn = ctx.p.func(P, gname)
        if gfn is None:
            raise AnalysisError(f'{gname} not found in {P}')
        ctx.fn(gfn)
        for yp in (False, True):
            ai = pm.make_interp(ctx)
            pm.device_double(ai, ctx)
            holder = {}

            def thunk2():
                a = pm.new_port(ai, ctx, 'BaseIOPort', [], {})
                b = pm.new_port(ai, ctx, 'BaseIOPort', [], {})
                ms = [pm.note(ctx, 1), pm.note(ctx, 2), pm.note(ctx, 3)]
                a.attrs['_messages'].items.extend(ms[:2])
                b.attrs['_messages'].items.append(ms[2])
                holder.update(ms=ms, a=a)
                ai.sleeps = 0
                from ..fold import FuncRef
                return ai.call_function(probe2, [AList([a, b], 'list'), FuncRef(gfn), yp], {})
            outs = ai.explore(thunk2)
            n += 1
            inst = f'for m in {gname}(ports, yield_ports={yp}): break; then poll() every port'
            ok = len(outs) == 1 and outs[0].kind == 'return'
            why = f'{outs}'
            if ok:
                v = outs[0].value
                got = list(v.items) if isinstance(v, AList) else list(v)
                ms = holder['ms']

                def same2(x, y):
                    return x is y or (isinstance(x, AObj) and isinstance(y, AObj) and x.attrs == y.attrs)
                first = got[0]
                port_of = None
                if yp:
                    fi = list(first.items) if isinstance(first, AList) else (list(first) if isinstance(first, (tuple, list)) else [None, None])
                    port_of, first = (fi[0], fi[1]) if len(fi) == 2 else (None, None)
                # (the ports are polled in shuffled order: either port may be the one the first message comes from)
                from_a = [x for x in got[1:3] if x is not None]
                from_b = [x for x in got[3:5] if x is not None]
                if same2(first, ms[0]):
                    ok = len(from_a) == 1 and same2(from_a[0], ms[1]) and len(from_b) == 1 and same2(from_b[0], ms[2]) and (not yp or port_of is holder['a'])
                elif same2(first, ms[2]):
                    ok = len(from_a) == 2 and same2(from_a[0], ms[0]) and same2(from_a[1], ms[1]) and not from_b and (not yp or port_of is not holder['a'])
                else:
                    ok = False
                why = (f'ports hold 2 and 1 messages; the loop takes {got[0]!r} and stops; polling the ports afterwards gives {got[1:]!r} - the two '
                       'messages not taken must still be there, once each')
            ctx.require(ok, 'R10.9', inst, ctx.where(gfn), why, construct=f'{gfn.qname}::abandoned-iteration')
            for q in ai.inlined:
                ctx.functions.add(q)
    ctx.floor('R10.9', n, 14)


def r10_exec(ctx):
    """R10.8: no public call on an open port raises, in any audited abstract execution; floors on what the audit saw."""
    audit = run_audit(ctx)
    failed = {r[0] for r in audit['raises']}
    for inst, w, k in audit['runs']:
        if inst not in failed:
            ctx.ok('R10.8', inst, w, f'{k} abstract execution(s) return normally')
    for inst, w, cons, text in audit['raises']:
        ctx.fail('R10.8', inst, w, f'the call does not return normally on an open port: {text}', construct=cons)
    for q in audit['functions']:
        ctx.functions.add(q)
    ctx.extra['abstract_executions_audited'] = audit['n']
    ctx.extra['audited_events'] = dict(audit['totals'])
    ctx.extra['lock_after_construction'] = dict(audit['locks'])
    ctx.floor('R10.8', audit['n'], 30)
    ctx.floor('R10.8-queue-events', audit['totals']['deque'], 30)
    ctx.floor('R10.8-device-events', audit['totals']['device'], 10)
    ctx.floor('R10.8-sleeps', audit['totals']['sleep'], 2)


def r10_shared_args(ctx):
    """R10.10: the module-level fan-in / fan-out helpers work on a list of ports the caller may share with other threads (the
    ports attribute of a MultiPort, a list polled by two receivers): they must not permute or otherwise change that very list -
    a shuffle in place while another thread iterates it makes one port come up twice and another not at all."""
    from ..absint import AList, log_event
    n = 0
    for fname, extra in (('multi_receive', {'block': False}), ('multi_iter_pending', {}), ('multi_send', None)):
        try:
            fn = ctx.fn(ctx.p.func(P, fname))
        except AnalysisError:
            continue
        ai = pm.make_interp(ctx)
        pm.device_double(ai, ctx)
        holder = {}

        def thunk(fn=fn, extra=extra):
            a = pm.new_port(ai, ctx, 'EchoPort', [], {})
            b = pm.new_port(ai, ctx, 'EchoPort', [], {})
            a.attrs['_messages'].items.append(pm.note(ctx, 50))
            lst = AList([a, b], 'list')
            holder['lst'], holder['items'] = lst, [a, b]
            log_event('phase', 'run')
            if extra is None:
                return ai.call_function(fn, [lst, pm.note(ctx, 7)], {})
            return ai.consume(ai.call_function(fn, [lst], dict(extra)))
        outs = ai.explore(thunk)
        n += 1
        w = ctx.where(fn)
        ok = len(outs) == 1 and outs[0].kind == 'return'
        ctx.require(ok, 'R10.10', f'{fname}(list of ports)', w, f'{fname} on a list of two ports: {outs}', construct=f'{fn.qname}::outcomes')
        if not ok:
            continue
        touched = [e for e in outs[0].log if e[0] == 'shuffle' and e[1] is holder['lst']]
        same = len(holder['lst'].items) == 2 and all(x is y for x, y in zip(holder['lst'].items, holder['items']))
        ctx.require(not touched and same, 'R10.10', f'{fname}(list of ports).argument-untouched', w,
                    f'{fname} changes the list of ports it is given ({"shuffled in place" if touched else "items changed"}): a list shared with '
                    'another thread is permuted under its feet - a port is visited twice, another never', construct=f'{fn.qname}::mutates-argument')
    ctx.floor('R10.10', n, 2)


def r10_multi_ports(ctx):
    """Fan-out and fan-in reach every port on every call, also when the MultiPort was built from a one-shot iterable (shared
    with C11 R11.9): otherwise later sends go to nobody and later receives find nothing."""
    from . import c11
    ctx.borrow(lambda c: c11.r11_multi_oneshot(c, 'R11.9'), 'R10.12')


def r10_unbounded(ctx):
    """Every message taken in is delivered once: the pending queue of a port is the parser's deque, which must not be bounded
    (a maxlen silently drops the oldest undelivered message once senders are that far ahead)."""
    from . import parsershape
    parsershape.check_parser_init(ctx, 'R10.11')


def r10_hook_order(ctx):
    """Received in the order sent, also with two receivers on one port: receive() hands back what the device hook returns
    *before* it looks at the port's queue, so a hook that fills the queue must put everything it takes in there - a message
    returned directly would overtake the ones an earlier call (of another thread) left in the queue."""
    from ..absint import AObj
    mp = ctx.p.cls(P, 'MultiPort')
    o, hook = ctx.p.lookup_method(mp, '_receive')
    if hook is None:
        raise AnalysisError('MultiPort._receive not found')
    ctx.fn(hook)
    w = ctx.where(hook)
    n = 0
    for block in (False, True):
        ai = pm.make_interp(ctx)
        pm.device_double(ai, ctx)
        holder = {}

        def thunk():
            child = pm.new_port(ai, ctx, 'EchoPort', [], {})
            multi = pm.new_port(ai, ctx, 'MultiPort', [[child]], {})
            m1, m2, m3 = pm.note(ctx, 1), pm.note(ctx, 2), pm.note(ctx, 3)
            # what an earlier call left behind in the port's own queue, and a newer message waiting in the child
            multi.attrs['_messages'].items.extend([m1, m2])
            child.attrs['_messages'].items.append(m3)
            holder.update(multi=multi, msgs=(m1, m2, m3))
            ai.sleeps = 0
            return ai.call_function(hook, [multi], {'block': block})
        outs = ai.explore(thunk)
        n += 1
        ok = len(outs) == 1 and outs[0].kind == 'return'
        q = None
        if ok:
            q = holder['multi'].attrs['_messages'].items
            m1, m2, m3 = holder['msgs']
            ok = outs[0].value is None and len(q) == 3 and q[0] is m1 and q[1] is m2 and isinstance(q[2], AObj) and q[2].attrs == m3.attrs
        ctx.require(ok, 'R10.14', f'MultiPort._receive(block={block}) with two earlier messages queued', w,
                    f'the hook returns {outs[0].value if len(outs) == 1 and outs[0].kind == "return" else outs!r} and leaves the queue {q!r}: '
                    'the newer message must go behind the two that are queued, nothing may be handed back past them',
                    construct=f'{hook.qname}::overtakes-queue')
        for qn in ai.inlined:
            ctx.functions.add(qn)
    ctx.floor('R10.14', n, 2)


def r10_multiport_borrows(ctx):
    """A MultiPort is a view on ports that belong to whoever opened them: closing it - explicitly, by leaving a with block, or
    by the finaliser when a short-lived wrapper is dropped - leaves the wrapped ports open, their queues as they were, and a
    send on them still goes through.  (Otherwise every helper that wraps the application's ports for one call closes them
    behind the threads still using them: later sends raise, later messages are received zero times.)"""
    from ..absint import AObj
    mp = ctx.p.cls(P, 'MultiPort')
    w = f'{mp.module.relpath}:{mp.node.lineno} MultiPort'
    n = 0
    for how in ('close', '__exit__', '__del__'):
        ai = pm.make_interp(ctx)
        pm.device_double(ai, ctx)
        holder = {}

        def thunk():
            a = pm.new_port(ai, ctx, 'EchoPort', [], {})
            b = pm.new_port(ai, ctx, 'EchoPort', [], {})
            m1 = pm.note(ctx, 1)
            b.attrs['_messages'].items.append(m1)
            multi = pm.new_port(ai, ctx, 'MultiPort', [[a, b]], {})
            o, fn = ctx.p.lookup_method(mp, how)
            if fn is None:
                raise AnalysisError(f'MultiPort.{how} not found')
            ctx.fn(fn)
            ai.call_function(fn, [multi] + ([None, None, None] if how == '__exit__' else []), {})
            holder.update(a=a, b=b, m1=m1)
            o, snd = ctx.p.lookup_method(a.cls, 'send')
            return ai.call_function(snd, [a, pm.note(ctx, 2)], {})
        outs = ai.explore(thunk)
        n += 1
        ok = len(outs) == 1 and outs[0].kind == 'return'
        detail = f'{outs}'
        if ok:
            a, b = holder['a'], holder['b']
            ok = a.attrs.get('closed') is False and b.attrs.get('closed') is False and len(b.attrs['_messages'].items) == 1 \
                and b.attrs['_messages'].items[0] is holder['m1'] and len(a.attrs['_messages'].items) == 1
            detail = f'closed: {a.attrs.get("closed")}, {b.attrs.get("closed")}; queues {a.attrs["_messages"].items} {b.attrs["_messages"].items}'
        ctx.require(ok, 'R10.16', f'MultiPort.{how}() then send on a wrapped port', w,
                    f'after MultiPort.{how}() the ports it wraps are not as they were ({detail[:300]}): the wrapper closes or drains ports it does not own',
                    construct=f'{mp.qname}::closes-wrapped-ports')
        for qn in ai.inlined:
            ctx.functions.add(qn)
    ctx.floor('R10.16', n, 3)


def r10_fanout(ctx):
    """Sent to several ports, received once by each: a MultiPort hands every message to every open child exactly once, wherever
    the closed ones sit in its list (first, in the middle, two in a row) and on every send, not only the first - forgetting a
    closed port must not make the loop step over its neighbour."""
    from ..absint import AObj
    mp = ctx.p.cls(P, 'MultiPort')
    o, msend = ctx.p.lookup_method(mp, '_send')
    if msend is None:
        raise AnalysisError('MultiPort._send not found')
    ctx.fn(msend)
    w = ctx.where(msend)
    n = 0
    for layout in ('CO', 'COO', 'OCO', 'CCO', 'OCCO', 'COCO', 'OOC'):
        ai = pm.make_interp(ctx)
        pm.device_double(ai, ctx)
        holder = {}

        def thunk(layout=layout):
            kids = [pm.new_port(ai, ctx, 'EchoPort', [], {}) for _ in layout]
            for k, c in zip(kids, layout):
                if c == 'C':
                    pm.call(ai, ctx, k, 'close')
            multi = pm.new_port(ai, ctx, 'MultiPort', [list(kids)], {})
            ms = [pm.note(ctx, 1), pm.note(ctx, 2), pm.note(ctx, 3)]
            for m in ms:
                pm.call(ai, ctx, multi, 'send', [m])
            holder.update(kids=kids, ms=ms)
            return None
        outs = ai.explore(thunk)
        n += 1
        ok = len(outs) == 1 and outs[0].kind == 'return'
        got = None
        if ok:
            got = [[x.attrs.get('note') if isinstance(x, AObj) else x for x in k.attrs['_messages'].items] for k in holder['kids']]
            ok = all(g == ([1, 2, 3] if c == 'O' else []) for g, c in zip(got, layout))
        ctx.require(ok, 'R10.17', f'three sends through a MultiPort over ports {layout} (C closed, O open)', w,
                    f'the ports received {got if got is not None else outs}; every open port must get notes 1, 2, 3 once each, a closed one nothing',
                    construct=f'{msend.qname}::fan-out-positions')
        for qn in ai.inlined:
            ctx.functions.add(qn)
    ctx.floor('R10.17', n, 7)


def r10_server(ctx):
    """A server port is a MultiPort over its connections: each client is in its list once however it was accepted, so a send
    reaches it once and what it sent is handed out once (shared with C18 R18.4)."""
    from . import c18
    ctx.borrow(c18.r18_4, 'R10.18')


def r10_socket_iteration(ctx):
    """Received exactly once - also the messages that arrive together with the end of the stream: a socket port that closes
    itself inside a receive call still hands out every complete message it took in (shared with C18 R18.1)."""
    from . import c18
    ctx.borrow(c18.r18_1, 'R10.13')


def r10_live_socket(ctx):
    """Received - not merely taken in: on a connection that stays open, complete messages that arrived in one segment come
    out of the next polls (a reader that buffers in user space hides them from select()) - shared with C18 R18.6."""
    from . import c18
    ctx.borrow(c18.r18_live, 'R10.15')


def r10_connect_blocking(ctx):
    """No send call raises or cuts a message short because of how the connection was set up: the socket behind a port that
    connect() / SocketPort(host, port) hands out is in blocking mode without a timeout.  The port writes through
    socket.makefile(), and "the socket must be in blocking mode; it can have a timeout, but the file object's internal buffer may
    end up in an inconsistent state if a timeout occurs" (library reference): a write that times out has sent a part of a
    message, and the next message follows the stump.  Decided on recording socket doubles: the timeout in force on the socket
    the port writes through, after construction, is None."""
    from ..absint import AbsRaise, AObj, log_event
    S_ = 'mido.sockets'
    ai = pm.make_interp(ctx)
    made = []

    def mk_socket(timeout, peer=None):
        st = {'timeout': timeout, 'peer': peer, 'files': 0}

        def setblocking(i, b, a, k, n):
            st['timeout'] = None if (a[0] if a else k.get('flag')) else 0.0

        def settimeout(i, b, a, k, n):
            st['timeout'] = a[0] if a else k.get('value')

        def connect(i, b, a, k, n):
            st['peer'] = a[0] if a else None

        def makefile(i, b, a, k, n):
            st['files'] += 1
            return pm.AMock('file', {'read': lambda *x: b'', 'write': lambda *x: None, 'flush': lambda *x: None, 'close': lambda *x: None})
        m = pm.AMock('socket', {'setblocking': setblocking, 'settimeout': settimeout, 'connect': connect, 'makefile': makefile,
                                'gettimeout': lambda i, b, a, k, n: st['timeout'], 'fileno': lambda i, b, a, k, n: ('fd', m),
                                'setsockopt': lambda *x: None, 'close': lambda *x: None})
        m.state = st
        made.append(m)
        return m
    ai.summaries['socket.socket'] = lambda i, a, k, n: mk_socket(None)
    ai.summaries['socket.create_connection'] = lambda i, a, k, n: mk_socket(k.get('timeout', a[1] if len(a) > 1 else None), a[0] if a else None)
    m = ctx.p.module(S_)
    for label, how in (('connect(host, port)', 'connect'), ('SocketPort(host, port)', 'SocketPort')):
        def thunk():
            made.clear()
            if how == 'connect':
                port = ai.call_function(ctx.p.func(S_, 'connect'), ['example', 9080], {})
            else:
                port = pm.new_port(ai, ctx, 'SocketPort', ['example', 9080], {}, module=S_)
            used = [x for x in made if x.state['files']]
            peer = used[0].state['peer'] if used else None
            if hasattr(peer, 'items'):
                peer = tuple(peer.items)
            return [(x.state['timeout'], peer) for x in used]
        fn = ctx.p.func(S_, 'connect') if how == 'connect' else ctx.p.lookup_method(ctx.p.cls(S_, 'SocketPort'), '__init__')[1]
        ctx.fn(fn)
        outs = ai.explore(thunk)
        ok = len(outs) == 1 and outs[0].kind == 'return' and len(outs[0].value) == 1 and outs[0].value[0][0] is None \
            and tuple(outs[0].value[0][1] or ()) == ('example', 9080)
        ctx.require(ok, 'R10.19', f'{label}: the socket the port writes through', ctx.where(fn),
                    f'(timeout in force, peer) of the sockets with file objects on them: {outs}; expected one socket connected to '
                    f"('example', 9080) with no timeout (blocking): a send that times out leaves a part of a message on the wire",
                    construct=f'{fn.qname}::blocking-socket')
    for q in ai.inlined:
        ctx.functions.add(q)


RULES = [('R10.19', r10_connect_blocking), ('R10.18', r10_server), ('R10.17', r10_fanout), ('R10.16', r10_multiport_borrows), ('R10.15', r10_live_socket), ('R10.14', r10_hook_order), ('R10.13', r10_socket_iteration), ('R10.12', r10_multi_ports), ('R10.11', r10_unbounded), ('R10.10', r10_shared_args), ('R10.8', r10_exec), ('R10.9', r10_abandoned), ('R10.1', r10_1), ('R10.2', r10_2), ('R10.3', r10_3), ('R10.4', r10_4), ('R10.5', r10_5), ('R10.6', r10_6), ('R10.7', r10_7)]
THOROUGH_RULES = [('R10-backends', r10_backends)]
