"""C10 - ports deliver each message exactly once and in order under concurrent use."""
from __future__ import annotations

import ast

from .. import astq, portmodel as pm
from ..model import AnalysisError, ClassInfo, FuncInfo, unparse
from . import c05, c11

LEVEL = 'other'
EXPLANATION = (
    'Interleavings are not explored.  What is decided is the lock discipline that makes exactly-once hold in every '
    'interleaving (CPython deque operations being atomic is the stated assumption): (R10.1) in the port class family '
    '(every subclass of BasePort in mido/ports.py and mido/sockets.py, methods resolved through the MRO) every access to the '
    'pending deque lies inside a `with self._lock` region or inside a device hook (_send/_receive) whose every call site in '
    'the family is inside such a region; (R10.2) every popleft() is in the same region as the emptiness test that guards '
    'it; (R10.3) a class that swaps the lock for DummyLock / _locking=False must not let a base-class method that relies '
    'on the lock touch a deque it shares with another port object: the lock-relying methods must be overridden by '
    'forwarding methods that never name the deque; (R10.4) the "holds own lock while calling a lock-taking method of another '
    'port" graph over the family has no cycle; (R10.5) sleep() is never called inside a lock region or a device hook, '
    'and generators that sleep are called from hooks only with block=False; (R10.6) the device receives a copy '
    '(abstractly interpreted send, see C11); (R10.7) ParserQueue feeds and drains under one lock (C05 R05.6).')
TRUSTED = ['midolint program model (MRO, method resolution)', 'CPython: single deque operations are atomic; RLock semantics']
ASSUMPTIONS = ['observed histories under real schedules are not enumerated (needs schedule exploration, another technique)',
               'backends that override send/receive with their own queue and lock (rtmidi, amidi) are outside the analysed family; '
               'they are listed in the evidence',
               'a MultiPort is not nested inside itself']

P = pm.PORTS
LOCK_API = {'send', 'receive', 'poll', 'iter_pending', 'close', 'reset', 'panic', '__iter__'}
HOOKS = {'_send', '_receive'}


def family(ctx, modules=(P, pm.SOCKETS)):
    base = ctx.p.cls(P, 'BasePort')
    out = [base]
    for modname in modules:
        m = ctx.p.module(modname)
        for c in m.classes.values():
            if c != base and ctx.p.is_subclass(c, base):
                out.append(c)
    return out


def uses_dummy_lock(ctx, c: ClassInfo):
    """Does class c replace the lock by a no-op?"""
    v = ctx.p.class_attr(c, '_locking')
    if v is not None and isinstance(v, ast.Constant) and v.value is False:
        return True
    for k in ctx.p.mro(c):
        if k.name == 'BasePort':
            break
        init = k.methods.get('__init__')
        if init is None:
            continue
        for t, st in astq.stores_in(init.node):
            if unparse(t) == 'self._lock' and isinstance(st, ast.Assign) and 'DummyLock' in unparse(st.value):
                return True
    return False


def lock_regions(fn_node):
    return [n for n in astq.walk_shallow(fn_node) if isinstance(n, ast.With)
            and any(unparse(i.context_expr) == 'self._lock' for i in n.items)]


def in_region(regions, node):
    return [r for r in regions if astq.contains_node(r, node) and r is not node]


def deque_accesses(fn_node):
    """Nodes `self._messages` in loads (tests, method calls)."""
    out = []
    for n in astq.walk_shallow(fn_node):
        if isinstance(n, ast.Attribute) and n.attr == '_messages' and isinstance(n.value, ast.Name) and n.value.id == 'self' \
                and isinstance(n.ctx, ast.Load):
            out.append(n)
    return out


def r10_1(ctx):
    fam = family(ctx)
    ctx.extra['port_family'] = [c.qname for c in fam]
    n = 0
    hook_sites = []
    for c in fam:
        for name, fn in c.methods.items():
            ctx.fn(fn)
            regions = lock_regions(fn.node)
            for acc in deque_accesses(fn.node):
                n += 1
                inst = f'{c.name}.{name}@{acc.lineno}'
                if name == '__init__':
                    ctx.ok('R10.1', inst, ctx.where(fn, acc), 'construction')
                    continue
                if name in HOOKS:
                    ctx.ok('R10.1', inst, ctx.where(fn, acc), 'device hook, callers checked by R10.5')
                    hook_sites.append((c, fn))
                    continue
                ctx.require(bool(in_region(regions, acc)), 'R10.1', inst, ctx.where(fn, acc),
                            f'the pending queue is accessed outside `with self._lock` in {c.name}.{name}',
                            construct=f'{fn.qname}::unguarded-queue-access')
    ctx.floor('R10.1', n, 6)
    # R10.5a: hooks are only called inside lock regions
    m = 0
    for c in fam:
        for name, fn in c.methods.items():
            regions = lock_regions(fn.node)
            for call in astq.calls(fn.node):
                f = call.func
                if isinstance(f, ast.Attribute) and f.attr in HOOKS and isinstance(f.value, ast.Name) and f.value.id == 'self':
                    m += 1
                    ctx.call_sites += 1
                    ctx.require(bool(in_region(regions, call)) or name in HOOKS, 'R10.5', f'{c.name}.{name}->{f.attr}@{call.lineno}',
                                ctx.where(fn, call), f'self.{f.attr}() is called without holding the port lock (device I/O of two threads can interleave)',
                                construct=f'{fn.qname}::{f.attr}-outside-lock')
    ctx.floor('R10.5-hook-calls', m, 2)


def r10_2(ctx):
    fam = family(ctx)
    n = 0
    for c in fam:
        for name, fn in c.methods.items():
            regions = lock_regions(fn.node)
            for call in astq.calls(fn.node):
                f = call.func
                if isinstance(f, ast.Attribute) and f.attr in ('popleft', 'pop') and unparse(f.value) == 'self._messages':
                    n += 1
                    inst = f'{c.name}.{name}.pop@{call.lineno}'
                    if name in HOOKS:
                        ctx.ok('R10.2', inst, ctx.where(fn, call), 'inside a device hook (lock held by the caller)')
                        continue
                    regs = in_region(regions, call)
                    guard = None
                    for anc in astq.enclosing_stmt_chain(call):
                        if isinstance(anc, ast.If) and unparse(anc.test) in ('self._messages', 'len(self._messages)', 'len(self._messages) > 0') \
                                and any(astq.contains_node(s, call) for s in anc.body):
                            guard = anc
                            break
                    ok = bool(regs) and guard is not None and any(astq.contains_node(r, guard) for r in regs)
                    ctx.require(ok, 'R10.2', inst, ctx.where(fn, call),
                                'popleft() is not in the same `with self._lock` region as the emptiness test that guards it '
                                '(another thread can take the message in between: IndexError)',
                                construct=f'{fn.qname}::check-then-pop')
    ctx.floor('R10.2', n, 2)


def r10_3(ctx):
    fam = family(ctx)
    inp = ctx.p.cls(P, 'BaseInput')
    n = 0
    for c in fam:
        if not uses_dummy_lock(ctx, c):
            continue
        n += 1
        w = f'{c.module.relpath}:{c.node.lineno} {c.name}'
        # does it share a deque with another object?
        shares = False
        for k in ctx.p.mro(c):
            init = k.methods.get('__init__')
            if init is None:
                continue
            for t, st in astq.stores_in(init.node):
                if unparse(t) == 'self._messages' and isinstance(st, ast.Assign):
                    src = unparse(st.value)
                    if src.startswith('self.') and src.count('.') >= 2 and not src.startswith('self._parser'):
                        shares = True
            if k is c:
                break
        # every lock-relying method that names the deque must be unreachable: overridden by a forwarder
        for meth in ('receive', 'poll', 'iter_pending', '__iter__'):
            o, fn = ctx.p.lookup_method(c, meth)
            if fn is None:
                continue
            ctx.fn(fn)
            touches = bool(deque_accesses(fn.node))
            ctx.require(not touches, 'R10.3', f'{c.name}.{meth}', ctx.where(fn),
                        f'{c.name} has no real lock{" and shares its queue with another port" if shares else ""}, but {meth}() resolves to '
                        f'{fn.qname.split("::")[1]}, which tests and pops that queue relying on the lock', construct=f'{c.qname}::{meth}::unlocked-shared-queue')
        o, fn = ctx.p.lookup_method(c, 'receive')
        if fn is not None and fn.cls is c:
            rets = [x for x in astq.walk_shallow(fn.node) if isinstance(x, ast.Return)]
            ok = len(rets) == 1 and isinstance(rets[0].value, ast.Call) and unparse(rets[0].value.func) in ('self.input.receive',) \
                and (astq.kwarg(rets[0].value, 'block') is not None and unparse(astq.kwarg(rets[0].value, 'block')) == 'block'
                     or (rets[0].value.args and unparse(rets[0].value.args[0]) == 'block'))
            ctx.require(ok, 'R10.3', f'{c.name}.receive.forwards', ctx.where(fn),
                        'the overriding receive() does not simply forward to the input port (block included)', construct=f'{fn.qname}::forward')
    ctx.floor('R10.3', n, 1)
    # the lock is created once, in BasePort.__init__
    base = ctx.p.cls(P, 'BasePort')
    init = base.methods.get('__init__')
    st = [s for t, s in astq.stores_in(init.node) if unparse(t) == 'self._lock']
    ok = len(st) == 2 and any('RLock()' in unparse(s.value) for s in st)
    ctx.require(ok, 'R10.3', 'BasePort._lock', ctx.where(init), 'the port lock is not an RLock chosen once by _locking', construct=f'{init.qname}::lock')
    for c in fam:
        for name, fn in c.methods.items():
            if name == '__init__':
                continue
            for t, s in astq.stores_in(fn.node):
                if unparse(t) == 'self._lock':
                    ctx.fail('R10.3', f'{c.name}.{name}.rebinds-lock', ctx.where(fn, s), 'the port lock is replaced after construction',
                             construct=f'{fn.qname}::rebinds-lock')
    dl = ctx.p.cls(P, 'DummyLock')
    ctx.require('__enter__' in dl.methods and '__exit__' in dl.methods, 'R10.3', 'DummyLock', f'{dl.module.relpath}:{dl.node.lineno} DummyLock',
                'DummyLock is not a context manager', construct=f'{dl.qname}::protocol')


def r10_4(ctx):
    """Lock order: holds own lock (region or hook) while calling a lock-taking method of another port."""
    fam = family(ctx)
    edges = []
    for c in fam:
        real = not uses_dummy_lock(ctx, c)
        for name, fn in c.methods.items():
            regions = lock_regions(fn.node)
            for call in astq.calls(fn.node):
                f = call.func
                if isinstance(f, ast.Attribute) and f.attr in LOCK_API and not (isinstance(f.value, ast.Name) and f.value.id == 'self') \
                        and not (isinstance(f.value, ast.Call) and unparse(f.value.func) == 'super'):
                    holding = real and (bool(in_region(regions, call)) or name in HOOKS or name == '_close')
                    ctx.call_sites += 1
                    if holding:
                        edges.append((c.name, unparse(f.value), f.attr, fn, call))
    ctx.extra['lock_order_edges'] = [f'{a} --holds own lock, calls--> {b}.{m}' for a, b, m, _, _ in edges]
    # receivers are child ports (elements of self.ports, self.input/self.output); a cycle needs a child that refers back to its container
    back = []
    containers = {a for a, _, _, _, _ in edges}
    for c in fam:
        for name, fn in c.methods.items():
            for t, st in astq.stores_in(fn.node):
                if isinstance(t, ast.Attribute) and isinstance(t.value, ast.Name) and t.value.id == 'self' and isinstance(st, ast.Assign):
                    v = unparse(st.value)
                    if any(v.startswith(k + '(') for k in containers) and c.name not in containers:
                        back.append((c, fn, st))
    ctx.require(not back, 'R10.4', 'lock-order', 'mido/ports.py:1 port family',
                f'a child port keeps a reference to a container port: {[unparse(s) for _, _, s in back]} - lock order cycle possible',
                construct='mido/ports.py::lock-order::back-reference')
    for a, b, m, fn, call in edges:
        ctx.ok('R10.4', f'{a}->{b}.{m}', ctx.where(fn, call), 'container holds its lock while using a child port')
    ctx.floor('R10.4-edges', len(edges), 3)


def r10_5(ctx):
    """sleep() outside every lock region and device hook; sleeping generators only with block=False from hooks."""
    fam = family(ctx)
    n = 0
    for c in fam:
        real = not uses_dummy_lock(ctx, c)
        for name, fn in c.methods.items():
            regions = lock_regions(fn.node)
            for call in astq.calls(fn.node):
                q = astq.callee_qname(ctx.p, fn, call)
                if q in ('mido/ports.py::sleep', 'time.sleep'):
                    n += 1
                    bad = real and (bool(in_region(regions, call)) or name in HOOKS)
                    ctx.require(not bad, 'R10.5', f'{c.name}.{name}.sleep@{call.lineno}', ctx.where(fn, call),
                                'sleep() while the port lock is held: senders and other receivers are blocked for the polling interval',
                                construct=f'{fn.qname}::sleep-under-lock')
                if q == 'mido/ports.py::multi_receive' and (name in HOOKS or in_region(regions, call)):
                    n += 1
                    b = astq.arg_or_kw(call, 2, 'block')
                    ctx.require(b is not None and astq.const_value(b) is False, 'R10.5', f'{c.name}.{name}.multi_receive@{call.lineno}',
                                ctx.where(fn, call), 'multi_receive() is called under the port lock without block=False: it sleeps (and never ends) holding the lock',
                                construct=f'{fn.qname}::multi_receive-blocking')
    ctx.floor('R10.5', n, 2)


def r10_6(ctx):
    c11.r11_send(ctx)
    # EchoPort enqueues its argument (hence the copy made by send())
    ec = ctx.p.cls(P, 'EchoPort')
    fn = ec.methods.get('_send')
    if fn is None:
        raise AnalysisError('EchoPort._send not found')
    ctx.fn(fn)
    calls = [c for c in astq.calls(fn.node) if unparse(c.func) == 'self._messages.append']
    ok = len(calls) == 1 and len(calls[0].args) == 1 and isinstance(calls[0].args[0], ast.Name) and calls[0].args[0].id == fn.params()[1]
    ctx.require(ok, 'R10.6', 'EchoPort._send', ctx.where(fn), 'EchoPort._send does not append exactly its argument to the queue',
                construct=f'{fn.qname}::append')


def r10_7(ctx):
    c05.r05_6(ctx)
    for o in ctx.obligations:
        if o.rule == 'R05.6':
            o.rule = 'R10.7'


def r10_backends(ctx):
    """Thorough: the same lock rules over every port class of mido/backends."""
    base = ctx.p.cls(P, 'BasePort')
    outside = []
    for m in ctx.p.modules.values():
        if not m.name.startswith('mido.backends.'):
            continue
        for c in m.classes.values():
            if not ctx.p.is_subclass(c, base):
                continue
            own = {n for n in ('send', 'receive', 'poll') if n in c.methods}
            if uses_dummy_lock(ctx, c):
                # must not run the lock-relying base methods
                for meth, needed in (('receive', ctx.p.is_subclass(c, ctx.p.cls(P, 'BaseInput'))), ('send', ctx.p.is_subclass(c, ctx.p.cls(P, 'BaseOutput')))):
                    if needed:
                        ctx.require(meth in own, 'R10.3', f'{m.name}.{c.name}.{meth}', f'{m.relpath}:{c.node.lineno} {c.name}',
                                    f'{c.name} disables the port lock (_locking = False) but inherits {meth}() from the base class',
                                    construct=f'{c.qname}::{meth}::inherits-with-dummy-lock')
                outside.append(c.qname)
            for name, fn in c.methods.items():
                regions = lock_regions(fn.node)
                for acc in deque_accesses(fn.node):
                    if name in ('__init__', '_open') or name in HOOKS:
                        continue
                    ctx.require(bool(in_region(regions, acc)), 'R10.1', f'{m.name}.{c.name}.{name}@{acc.lineno}', ctx.where(fn, acc),
                                'pending queue accessed outside the port lock', construct=f'{fn.qname}::unguarded-queue-access')
    ctx.extra['backends_with_own_locking'] = outside


RULES = [('R10.1', r10_1), ('R10.2', r10_2), ('R10.3', r10_3), ('R10.4', r10_4), ('R10.5', r10_5), ('R10.6', r10_6), ('R10.7', r10_7)]
THOROUGH_RULES = [('R10-backends', r10_backends)]
