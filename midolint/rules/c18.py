"""C18 - socket ports deliver exactly the complete messages before a disconnect."""
from __future__ import annotations

import ast

from .. import astq, portmodel as pm, smf, wire
from ..absint import AbsRaise, AList, AObj, Opaque, log_event
from ..model import AnalysisError, unparse
from . import c11

LEVEL = 'other'
EXPLANATION = (
    'A SocketPort is built by abstractly interpreting its real constructor on a scripted connection double (socket, its '
    'makefile() objects, select.select).  For a stream holding one complete note_on followed by the first k bytes (k = 0..3) '
    'of a second one, for every cut offset, with and without pauses between segments, iteration over the port '
    '(BaseInput.__iter__ -> receive -> SocketPort._receive -> Parser.feed_byte -> Tokenizer -> Message.from_bytes, all '
    'interpreted) must yield exactly the complete messages, end without an exception, leave the port closed and close the '
    'socket and both file objects; select must be polled with timeout 0 and every read(1) must be preceded by a positive '
    'poll; close() must close everything the constructor acquired; PortServer.poll() must accept a waiting client, hand '
    'out its message and terminate; format_address/parse_address are interpreted on concrete host/port pairs and the '
    'separator is checked structurally.  Segmentation independence itself is C05; partial messages never surfacing is C04.')
TRUSTED = ['midolint abstract interpreter', 'scripted doubles for socket/select in midolint/rules/c18.py',
           'C04/C05 (tokenizer transitions), C02 (token decoding)']
ASSUMPTIONS = ['OS level behaviour (connection reset raising OSError from read) is not modelled: the code re-raises it and iteration would raise; '
               'whether that counts as "the peer dies" needs a real TCP reset and is not decided']

S = pm.SOCKETS
GAP = 'GAP'


def make_conn(stream, fail_at=None):
    """Scripted connection: stream items are ints/AVs, GAP (= nothing readable for one poll); EOF afterwards."""
    st = {'stream': list(stream), 'eof_seen': False, 'closed': []}

    def fileno(interp, base, args, kwargs, node):
        if 'socket' in st['closed']:
            return -1               # a closed socket has no descriptor any more
        return ('fd', conn)

    def makefile(interp, base, args, kwargs, node):
        mode = args[0] if args else 'r'
        buffering = kwargs.get('buffering', args[1] if len(args) > 1 else -1)
        if 'r' in mode and buffering != 0:
            st['rbuf'] = []           # a buffered reader: one read pulls in everything that has arrived, select() no longer sees it
        f = pm.AMock('rfile' if 'r' in mode else 'wfile', {
            'read': read, 'close': lambda i, b, a, k, n: st['closed'].append(b.name),
            'write': write, 'flush': lambda i, b, a, k, n: None})
        return f

    def write(interp, base, args, kwargs, node):
        if st.get('broken_pipe'):
            log_event('wire-error', args[0])
            raise AbsRaise('OSError', node, attrs={'errno': 32, 'args': (32, 'Broken pipe'), 'strerror': 'Broken pipe'})
        log_event('wire', args[0])
        return None

    def read(interp, base, args, kwargs, node):
        if args and args[0] != 1:
            return Opaque('read(n != 1)')
        if st.get('rbuf'):
            return AList([st['rbuf'].pop(0)], 'bytes')          # served from the user-space buffer
        if not st.get('polled_ok'):
            log_event('blocking-read')      # a read without a positive poll may block
        st['polled_ok'] = False
        while st['stream'] and st['stream'][0] == GAP:
            st['stream'].pop(0)
        if st['stream']:
            first = st['stream'].pop(0)
            if 'rbuf' in st:
                while st['stream'] and st['stream'][0] != GAP:
                    st['rbuf'].append(st['stream'].pop(0))
            return AList([first], 'bytes')
        if st.get('live'):
            raise AbsRaise('NonTermination', node)          # the peer is still there and silent: a read blocks for good
        st['eof_seen'] = True
        if st.get('reset'):
            # the peer died (or closed with unread input): the kernel reports a reset instead of an orderly end of stream
            log_event('read-error', 'ECONNRESET')
            raise AbsRaise('OSError', node, attrs={'errno': 104, 'args': (104, 'Connection reset by peer'), 'strerror': 'Connection reset by peer'})
        return b''
    def shutdown(interp, base, args, kwargs, node):
        # shutting down a connection the peer has reset (or whose pipe is broken) fails: the socket is no longer connected
        if (st.get('reset') and st['eof_seen']) or st.get('broken_pipe'):
            log_event('shutdown-error', 'ENOTCONN')
            raise AbsRaise('OSError', node, attrs={'errno': 107, 'args': (107, 'Transport endpoint is not connected'),
                                                   'strerror': 'Transport endpoint is not connected'})
        log_event('shutdown')
        return None
    import socket as _socket
    conn = pm.AMock('conn', {'like': _socket.socket, 'fileno': fileno, 'makefile': makefile, 'shutdown': shutdown,
                             'close': lambda i, b, a, k, n: st['closed'].append('socket'),
                             'setblocking': lambda i, b, a, k, n: None})
    conn.state = st
    return conn


def install_select(ai):
    def s_select(interp, args, kwargs, node):
        rl = args[0]
        timeout = args[3] if len(args) > 3 else kwargs.get('timeout')
        log_event('select', timeout)
        fd = rl.items[0] if isinstance(rl, AList) and rl.items else None
        if isinstance(fd, int) and not isinstance(fd, bool) and fd < 0:
            raise AbsRaise('ValueError', node, implicit=True, msg='file descriptor cannot be a negative integer (-1)')
        mock = fd[1] if isinstance(fd, tuple) and len(fd) == 2 and fd[0] == 'fd' else None
        if mock is None:
            return AList([AList([]), AList([]), AList([])], 'tuple')
        st = mock.state
        readable = False
        if st.get('accept_queue') is not None:
            readable = bool(st['accept_queue'])
        elif st['stream'] and st['stream'][0] == GAP:
            st['stream'].pop(0)
        elif not st['stream'] and st.get('live'):
            readable = False
        elif st['stream'] or not st['eof_seen']:
            readable = True
        st['polled_ok'] = readable
        return AList([AList([fd] if readable else []), AList([]), AList([])], 'tuple')
    ai.summaries['select.select'] = s_select


def build(ai, ctx, stream, reset=False):
    conn = make_conn(stream)
    conn.state['reset'] = reset
    port = pm.new_port(ai, ctx, 'SocketPort', ['peer', 9999], {'conn': conn}, module=S)
    return port, conn


def r18_1(ctx):
    ai = pm.make_interp(ctx)
    install_select(ai)
    sp = ctx.p.cls(S, 'SocketPort')
    rc = ctx.p.lookup_method(sp, '_receive')[1]
    if rc is None:
        raise AnalysisError('SocketPort._receive not found')
    ctx.fn(rc)
    w = ctx.where(rc)
    n1, v1, n2, v2 = (smf.sym(x, 127) for x in ('n1', 'v1', 'n2', 'v2'))
    m1b = [0x93, n1, v1]
    m2b = [0x85, n2, v2]
    sxb = [0xf0, n2, v2, 0xf7]      # the second message may also be a sysex cut anywhere, F0 alone included
    inp = ctx.p.cls(pm.PORTS, 'BaseInput')
    n = 0
    for second, k in [(m2b, k) for k in range(0, 4)] + [(sxb, k) for k in range(1, 5)]:
        for gaps in ((), (1,), (0, 2, 4)):
            stream = m1b + second[:k]
            for g in sorted(gaps, reverse=True):
                if g <= len(stream):
                    stream = stream[:g] + [GAP] + stream[g:]
            holder = {}

            def thunk():
                port, conn = build(ai, ctx, stream)
                holder.update(port=port, conn=conn)
                ai.sleeps = 0
                return pm.call(ai, ctx, port, '__iter__')
            outs = ai.explore(thunk)
            n += 1
            kind2 = 'note_off' if second is m2b else 'sysex'
            inst = f'iterate(note_on + {k} bytes{" of a sysex" if second is sxb else ""}, gaps at {list(gaps)})'
            cons = f'{rc.qname}::cut({k}{", sysex" if second is sxb else ""})'
            oc = c11.one(ctx, 'R18.1', inst, w, outs, cons)
            if oc is None:
                continue
            if oc.kind != 'return':
                ctx.fail('R18.2', inst, w, f'iteration over a socket port whose peer disconnects raises {oc.exc} '
                         f'(line {getattr(oc.node, "lineno", "?")})', construct=cons + '::raises')
                continue
            items = oc.value.items if isinstance(oc.value, AList) else None
            want = 1 + (1 if k == len(second) else 0)
            ok = items is not None and len(items) == want and all(isinstance(x, AObj) for x in items)
            if ok:
                a = items[0].attrs
                ok = a.get('type') == 'note_on' and a.get('channel') == 3 and wire.value_equal(a.get('note'), n1) and wire.value_equal(a.get('velocity'), v1)
                if want == 2:
                    b = items[1].attrs
                    if kind2 == 'note_off':
                        ok = ok and b.get('type') == 'note_off' and b.get('channel') == 5 and wire.value_equal(b.get('note'), n2)
                    else:
                        d = b.get('data')
                        ok = ok and b.get('type') == 'sysex' and isinstance(d, AList) and len(d.items) == 2 and wire.value_equal(d.items[0], n2) \
                            and wire.value_equal(d.items[1], v2)
            ctx.require(ok, 'R18.1', inst, w, f'yields {items!r}; exactly the {want} complete message(s) must come out', construct=cons + '::messages')
            port, conn = holder['port'], holder['conn']
            ctx.require(port.attrs.get('closed') is True, 'R18.2', f'{inst}.closed', w, 'the port does not report itself closed after the peer disconnected',
                        construct=cons + '::closed')
            ctx.require(sorted(conn.state['closed']) == ['rfile', 'socket', 'wfile'], 'R18.3', f'{inst}.released', w,
                        f'after the disconnect only {sorted(conn.state["closed"])} were closed (socket and both file objects must be)',
                        construct=f'{sp.qname}._close::release')
            tos = [e[1] for e in oc.log if e[0] == 'select']
            ctx.require(tos and all(t == 0 for t in tos), 'R18.1', f'{inst}.poll-timeout', w, f'select timeouts used: {sorted(set(map(repr, tos)))}',
                        construct='mido/sockets.py::_is_readable::timeout')
            ctx.require(not any(e[0] == 'blocking-read' for e in oc.log), 'R18.1', f'{inst}.guarded-read', w,
                        'a read(1) is issued without a preceding positive readability poll (it may block forever)', construct=cons + '::unguarded-read')
    ctx.floor('R18.1', n, 24)
    # every message type, alone on the connection and in front of the first byte of a message that never completes: the port
    # takes the bytes in one at a time, and a message is complete with its last byte, whatever kind of byte that is (the status
    # byte itself for tune_request and the real-time messages, F7 for sysex, a data byte for the rest)
    from .. import reference
    nt = 0
    for status, tname, names, ln in reference.MIDI_SPECS:
        if tname == 'sysex':
            body = [0xf0, n1, 0xf7]
        else:
            body = [status | (2 if status < 0xf0 else 0)] + [n1, v1][:ln - 1]
        for tail, tlabel in (([], 'then the peer hangs up'), ([0x93], 'then the status byte of a message that never completes')):
            nt += 1

            def thunk_t():
                port, conn = build(ai, ctx, body + tail)
                ai.sleeps = 0
                return pm.call(ai, ctx, port, '__iter__')
            outs = ai.explore(thunk_t)
            inst = f'iterate({tname} {tlabel})'
            cons = f'{rc.qname}::complete({tname})'
            oc = c11.one(ctx, 'R18.1', inst, w, outs, cons)
            if oc is None:
                continue
            items = oc.value.items if oc.kind == 'return' and isinstance(oc.value, AList) else None
            ok = items is not None and len(items) == 1 and isinstance(items[0], AObj) and items[0].attrs.get('type') == tname
            ctx.require(ok, 'R18.1', inst, w, f'a complete {tname} arrived, the port yields {items if items is not None else oc!r}', construct=cons)
    ctx.floor('R18.1-types', nt, 36)
    # the peer dies: the stream ends in a connection reset instead of an orderly end of stream, after a complete message plus k
    # bytes of the next one - the complete messages come out, iteration ends without an exception, the port is closed
    for k in (0, 2):
        holder = {}

        def thunk_rst():
            port, conn = build(ai, ctx, m1b + m2b[:k], reset=True)
            holder.update(port=port, conn=conn)
            ai.sleeps = 0
            return pm.call(ai, ctx, port, '__iter__')
        outs = ai.explore(thunk_rst)
        inst = f'iterate(note_on + {k} bytes, then connection reset)'
        cons = f'{rc.qname}::connection-reset'
        oc = c11.one(ctx, 'R18.2', inst, w, outs, cons)
        if oc is not None:
            items = oc.value.items if oc.kind == 'return' and isinstance(oc.value, AList) else None
            ok = oc.kind == 'return' and items is not None and len(items) == 1 and holder['port'].attrs.get('closed') is True \
                and sorted(holder['conn'].state['closed']) == ['rfile', 'socket', 'wfile']
            ctx.require(ok, 'R18.2', inst, w, f'the peer dies after a complete message (+{k} bytes): {oc}; closed = {holder["port"].attrs.get("closed")!r}, '
                        f'released {sorted(holder["conn"].state["closed"])} - expected the one message, a quiet end and a closed port', construct=cons)
    # non-blocking receive on a connection with nothing to read never sleeps / reads
    holder = {}

    def thunk_nb():
        port, conn = build(ai, ctx, [GAP, GAP])
        holder.update(port=port, conn=conn)
        return pm.call(ai, ctx, port, 'poll')
    outs = ai.explore(thunk_nb)
    oc = c11.one(ctx, 'R18.1', 'poll(nothing readable)', w, outs, f'{rc.qname}::idle')
    if oc is not None:
        ok = oc.kind == 'return' and oc.value is None and not any(e[0] in ('sleep', 'blocking-read') for e in oc.log) and holder['port'].attrs.get('closed') is False
        ctx.require(ok, 'R18.1', 'poll(nothing readable)', w, f'{oc}', construct=f'{rc.qname}::idle')
    for q in ai.inlined:
        ctx.functions.add(q)


def r18_live(ctx):
    """R18.6: a complete message that arrived in one segment on a connection that STAYS OPEN is handed out by the next polls.
    (Reads are gated by select() on the socket; a reader that buffers in user space takes the whole segment with its first
    read, select() then reports nothing and the rest of the message is never looked at: receive() blocks forever.)"""
    ai = pm.make_interp(ctx)
    install_select(ai)
    sp = ctx.p.cls(S, 'SocketPort')
    rc = ctx.p.lookup_method(sp, '_receive')[1]
    if rc is None:
        raise AnalysisError('SocketPort._receive not found')
    w = ctx.where(rc)
    n1, v1 = smf.sym('n1', 127), smf.sym('v1', 127)
    n = 0
    for label, stream, want in (('one note_on in one segment', [0x93, n1, v1], ['note_on']),
                                ('two messages in one segment', [0x93, n1, v1, 0xf8], ['note_on', 'clock']),
                                ('a message in two segments', [0x93, n1, GAP, v1], ['note_on']),
                                ('a clock inside a sysex that has not ended yet', [0xf0, n1, 0xf8], ['clock'])):
        def thunk(stream=stream):
            port, conn = build(ai, ctx, list(stream))
            conn.state['live'] = True
            got = []
            for _ in range(6):
                m = pm.call(ai, ctx, port, 'poll')
                if m is not None:
                    got.append(m)
            return got, port
        outs = ai.explore(thunk)
        n += 1
        oc = c11.one(ctx, 'R18.6', f'live connection: {label}, six polls', w, outs, f'{rc.qname}::live')
        if oc is None:
            continue
        if oc.kind != 'return':
            ctx.fail('R18.6', f'live connection: {label}, six polls', w, f'polling a live connection: {oc} (NonTermination: a read that blocks)',
                     construct=f'{rc.qname}::live')
            continue
        got, port = oc.value
        types = [m.attrs.get('type') if isinstance(m, AObj) else m for m in got]
        ctx.require(types == want and port.attrs.get('closed') is False, 'R18.6', f'live connection: {label}, six polls', w,
                    f'six polls hand out {types} (closed = {port.attrs.get("closed")!r}); the complete messages {want} have arrived and the peer is '
                    'still connected', construct=f'{rc.qname}::live')
    ctx.floor('R18.6', n, 4)


def r18_closed_elsewhere(ctx):
    """Iteration ends without an exception also when the port is closed by someone else (another thread, a signal handler) while
    the iterating caller waits for the next message on a connection that is still up: the messages that had arrived come out,
    then the loop ends.  (The socket is closed under the poll: select() on it raises ValueError, which is an end like any other.)"""
    ai = pm.make_interp(ctx)
    install_select(ai)
    sp = ctx.p.cls(S, 'SocketPort')
    rc = ctx.p.lookup_method(sp, '_receive')[1]
    if rc is None:
        raise AnalysisError('SocketPort._receive not found')
    w = ctx.where(rc)
    n1, v1 = smf.sym('n1', 127), smf.sym('v1', 127)
    n = 0
    for label, stream, want in (('after one complete message', [0x93, n1, v1], 1), ('before anything arrived', [], 0), ('inside a message', [0x93, n1], 0)):
        for at in (1, 3):
            def thunk(stream=stream, at=at):
                port, conn = build(ai, ctx, list(stream))
                conn.state['live'] = True
                ai.sleeps = 0

                def on_sleep(interp):
                    if interp.sleeps == at and port.attrs.get('closed') is False:
                        pm.call(interp, ctx, port, 'close')
                ai.on_sleep = on_sleep
                try:
                    return ai.consume(pm.call(ai, ctx, port, '__iter__'))       # (the loop runs here, while the hook is armed)
                finally:
                    ai.on_sleep = None
            outs = ai.explore(thunk)
            n += 1
            inst = f'iterate; the port is closed elsewhere during wait #{at}, {label}'
            oc = c11.one(ctx, 'R18.2', inst, w, outs, f'{rc.qname}::closed-elsewhere')
            if oc is None:
                continue
            items = oc.value.items if oc.kind == 'return' and isinstance(oc.value, AList) else None
            ctx.require(items is not None and len(items) == want, 'R18.2', inst, w,
                        f'the loop ends with {oc if items is None else items!r}; expected {want} message(s) and a quiet end',
                        construct=f'{rc.qname}::closed-elsewhere')
    ctx.floor('R18.2-closed-elsewhere', n, 6)
    for q in ai.inlined:
        ctx.functions.add(q)


def r18_decode(ctx):
    """Never a corrupted message: what the port yields for completely received bytes is the message those bytes encode (decoder
    layouts, shared with C01 R01.3) - the socket path ends in Message.from_bytes like every other."""
    from . import c01
    ctx.borrow(c01.r01_3, 'R18.8')


def r18_autoreset_eof(ctx):
    """R18.7: the same disconnects on a port that has autoreset switched on.  When the peer goes away, the port closes itself;
    the reset it then tries to send meets a broken pipe (the double fails every write with EPIPE once the stream has ended).
    Iteration must still end without an exception, with the complete messages handed out, the port closed and the socket and
    both files released once - whatever exception type the failing send surfaces as."""
    ai = pm.make_interp(ctx)
    install_select(ai)
    sp = ctx.p.cls(S, 'SocketPort')
    rc = ctx.p.lookup_method(sp, '_receive')[1]
    if rc is None:
        raise AnalysisError('SocketPort._receive not found')
    w = ctx.where(rc)
    n1, v1 = smf.sym('n1', 127), smf.sym('v1', 127)
    n = 0
    for label, stream, reset in (('note_on then EOF', [0x93, n1, v1], False), ('note_on, half a message, EOF', [0x93, n1, v1, 0x85, n1], False),
                                 ('note_on then a connection reset', [0x93, n1, v1], True)):
        holder = {}

        def thunk(stream=stream, reset=reset):
            port, conn = build(ai, ctx, list(stream), reset=reset)
            port.attrs['autoreset'] = True
            conn.state['broken_pipe'] = True
            holder.update(port=port, conn=conn)
            ai.sleeps = 0
            return pm.call(ai, ctx, port, '__iter__')
        outs = ai.explore(thunk)
        n += 1
        inst = f'iterate({label}) with autoreset on'
        cons = f'{rc.qname}::autoreset-eof'
        oc = c11.one(ctx, 'R18.7', inst, w, outs, cons)
        if oc is None:
            continue
        if oc.kind != 'return':
            ctx.fail('R18.7', inst, w, f'iteration over a socket port with autoreset whose peer disconnects raises {oc.exc} (line {getattr(oc.node, "lineno", "?")}): '
                     'the reset sent by the self-closing port fails with a broken pipe, and that failure escapes', construct=cons + '::raises')
            continue
        items = oc.value.items if isinstance(oc.value, AList) else None
        ok = items is not None and [x.attrs.get('type') for x in items if isinstance(x, AObj)] == ['note_on']
        port, conn = holder['port'], holder['conn']
        ctx.require(ok and port.attrs.get('closed') is True and sorted(conn.state['closed']) == ['rfile', 'socket', 'wfile'], 'R18.7', inst, w,
                    f'yields {items!r}, closed = {port.attrs.get("closed")!r}, released {sorted(conn.state["closed"])}; expected the note_on, closed, '
                    'socket and both files released once', construct=cons)
    ctx.floor('R18.7', n, 3)


def r18_3(ctx):
    """close() releases everything __init__ acquired; send writes whole messages."""
    ai = pm.make_interp(ctx)
    install_select(ai)
    sp = ctx.p.cls(S, 'SocketPort')
    cl = ctx.p.lookup_method(sp, '_close')[1]
    ctx.fn(cl)
    holder = {}

    def thunk():
        port, conn = build(ai, ctx, [GAP])
        holder.update(port=port, conn=conn)
        pm.call(ai, ctx, port, 'send', [pm.note(ctx, 7)])
        pm.call(ai, ctx, port, 'close')
        pm.call(ai, ctx, port, 'close')
        return port
    outs = ai.explore(thunk)
    oc = c11.one(ctx, 'R18.3', 'send;close;close', ctx.where(cl), outs, f'{cl.qname}::release')
    if oc is not None:
        closed = holder['conn'].state['closed']
        ok = oc.kind == 'return' and sorted(closed) == ['rfile', 'socket', 'wfile']
        ctx.require(ok, 'R18.3', 'close.releases', ctx.where(cl),
                    f'close() closed {sorted(closed)} (the peer only sees a disconnect when the socket and both makefile() objects are closed, each once): {oc}',
                    construct=f'{cl.qname}::release')
        wires = [e[1] for e in oc.log if e[0] == 'wire']
        ok = len(wires) == 1 and isinstance(wires[0], AList) and wires[0].items == [0x90, 7, 64]
        ctx.require(ok, 'R18.1', 'send.whole-message', ctx.where(ctx.p.lookup_method(sp, '_send')[1]), f'send writes {wires}',
                    construct=f'{sp.qname}._send::whole-message')
    for q in ai.inlined:
        ctx.functions.add(q)


def r18_4(ctx):
    """PortServer: accept a waiting client and hand out its message without blocking."""
    ai = pm.make_interp(ctx)
    install_select(ai)
    ps = ctx.p.cls(S, 'PortServer')
    # the anchor for reports: the server's own receive hook when it has one, else whatever poll() resolves to
    rc = ctx.p.lookup_method(ps, '_receive')[1] or ctx.p.lookup_method(ps, 'poll')[1]
    if rc is None:
        raise AnalysisError('PortServer has no receive path')
    ctx.fn(rc)
    w = f'{ps.module.relpath}:{ps.node.lineno} PortServer'
    holder = {}

    def mk_server_socket(interp, args, kwargs, node):
        st = {'accept_queue': list(holder.get('clients', [])), 'closed': []}

        def accept(i, b, a, k, n):
            if not st['accept_queue']:
                # a blocking accept() with no client waiting never returns
                raise AbsRaise('NonTermination', n)
            c = st['accept_queue'].pop(0)
            return AList([c, AList(['client', 1234], 'tuple')], 'tuple')
        s = pm.AMock('server-socket', {'accept': accept, 'fileno': lambda i, b, a, k, n: ('fd', s),
                                       'close': lambda i, b, a, k, n: st['closed'].append('server-socket')})
        s.state = st
        holder['ssock'] = s
        return s
    ai.summaries['socket.socket'] = mk_server_socket
    n1, v1 = smf.sym('n1', 127), smf.sym('v1', 127)
    for label, streams, want in (('one client, one message', [[0x91, n1, v1]], 1), ('no client', [], 0),
                                 ('client with partial message', [[0x91, n1]], 0)):
        def thunk():
            holder['clients'] = [make_conn(s + [GAP, GAP, GAP]) for s in streams]
            server = pm.new_port(ai, ctx, 'PortServer', ['localhost', 9080], {}, module=S)
            holder['server'] = server
            ai.sleeps = 0
            return pm.call(ai, ctx, server, 'poll')
        outs = ai.explore(thunk)
        oc = c11.one(ctx, 'R18.4', f'PortServer.poll({label})', w, outs, f'{rc.qname}::{label}')
        if oc is None:
            continue
        if oc.kind != 'return':
            ctx.fail('R18.4', f'PortServer.poll({label})', w, f'server poll: {oc} (a NonTermination here means poll() blocks forever)',
                     construct=f'{rc.qname}::terminates')
            continue
        ok = (oc.value is None) if want == 0 else (isinstance(oc.value, AObj) and oc.value.attrs.get('type') == 'note_on'
                                                   and oc.value.attrs.get('channel') == 1)
        ctx.require(ok and not any(e[0] == 'sleep' for e in oc.log), 'R18.4', f'PortServer.poll({label})', w,
                    f'server poll gives {oc.value!r} with {sum(1 for e in oc.log if e[0] == "sleep")} sleeps', construct=f'{rc.qname}::{label}')
    # a client accepted earlier delivers a message later: a blocking receive must return it without waiting for another connection
    for block in (True, False):
        def thunk_b():
            c = make_conn(([GAP, GAP] if block else [GAP]) + [0x91, n1, v1, GAP, GAP, GAP, GAP])
            holder['clients'] = [c]
            server = pm.new_port(ai, ctx, 'PortServer', ['localhost', 9080], {}, module=S)
            first = pm.call(ai, ctx, server, 'poll')
            ai.sleeps = 0
            return first, pm.call(ai, ctx, server, 'receive', [], {'block': block})
        outs = ai.explore(thunk_b)
        lab = 'blocking' if block else 'non-blocking'
        oc = c11.one(ctx, 'R18.4', f'PortServer.receive({lab}, message from an accepted client)', w, outs, f'{rc.qname}::accepted-client-{lab}')
        if oc is not None:
            ok = oc.kind == 'return' and oc.value[0] is None and isinstance(oc.value[1], AObj) and oc.value[1].attrs.get('type') == 'note_on'
            ctx.require(ok, 'R18.4', f'PortServer.receive({lab}, message from an accepted client)', w,
                        f'a client accepted earlier has a complete message but the server gives {oc} '
                        '(NonTermination: the call sits in accept() waiting for another client)', construct=f'{rc.qname}::accepted-client-{lab}')
    # a client that sends several messages and hangs up before the server looks: every one of them is handed out, in order,
    # by the following polls - the server may drop the connection from its list, but not what it already took in from it
    for nmsg in (2, 3):
        def thunk_h(nmsg=nmsg):
            stream = []
            for k in range(nmsg):
                stream += [0x90 + k, n1, v1]
            holder['clients'] = [make_conn(stream)]          # (no pause at the end: the stream ends, the peer is gone)
            server = pm.new_port(ai, ctx, 'PortServer', ['localhost', 9080], {}, module=S)
            ai.sleeps = 0
            return AList([pm.call(ai, ctx, server, 'poll') for _ in range(nmsg + 2)], 'list')
        outs = ai.explore(thunk_h)
        inst = f'PortServer.poll() x {nmsg + 2} after a client sent {nmsg} messages and hung up'
        oc = c11.one(ctx, 'R18.4', inst, w, outs, f'{rc.qname}::hung-up-client')
        if oc is not None:
            got = list(oc.value.items) if oc.kind == 'return' and isinstance(oc.value, AList) else None
            chans = [x.attrs.get('channel') if isinstance(x, AObj) else x for x in got] if got is not None else None
            ctx.require(chans is not None and [c for c in chans if c is not None] == list(range(nmsg)) and chans[nmsg:] == [None, None], 'R18.4', inst, w,
                        f'the polls give messages on channels {chans if chans is not None else oc!r}; expected {list(range(nmsg))} and then nothing: '
                        'messages a client sent before it hung up are lost', construct=f'{rc.qname}::hung-up-client')
    # server close closes clients and the listening socket
    def thunk_c():
        holder['clients'] = [make_conn([0x91, n1, v1, GAP])]
        server = pm.new_port(ai, ctx, 'PortServer', ['localhost', 9080], {}, module=S)
        pm.call(ai, ctx, server, 'poll')
        pm.call(ai, ctx, server, 'close')
        return server
    outs = ai.explore(thunk_c)
    oc = c11.one(ctx, 'R18.3', 'PortServer.close', ctx.where(ctx.p.lookup_method(ps, '_close')[1]), outs, f'{ps.qname}._close::release')
    if oc is not None:
        ok = oc.kind == 'return' and holder['ssock'].state['closed'] == ['server-socket'] and \
            sorted(holder['clients'][0].state['closed']) == ['rfile', 'socket', 'wfile']
        ctx.require(ok, 'R18.3', 'PortServer.close', ctx.where(ctx.p.lookup_method(ps, '_close')[1]),
                    f'closing the server closed {holder["ssock"].state["closed"]} and client {holder["clients"][0].state["closed"]}: {oc}',
                    construct=f'{ps.qname}._close::release')
    # ... whatever the number of connections it holds: none (nobody ever connected), two; and a second close() releases nothing again
    for label, nclients in (('no connection', 0), ('two connections', 2)):
        def thunk_n():
            holder['clients'] = [make_conn([0x91, n1, v1, GAP]) for _ in range(nclients)]
            server = pm.new_port(ai, ctx, 'PortServer', ['localhost', 9080], {}, module=S)
            for _ in range(nclients):
                pm.call(ai, ctx, server, 'poll')
            pm.call(ai, ctx, server, 'close')
            pm.call(ai, ctx, server, 'close')
            return server
        outs = ai.explore(thunk_n)
        oc = c11.one(ctx, 'R18.3', f'PortServer.close ({label})', ctx.where(ctx.p.lookup_method(ps, '_close')[1]), outs, f'{ps.qname}._close::release')
        if oc is not None:
            ok = oc.kind == 'return' and holder['ssock'].state['closed'] == ['server-socket'] and \
                all(sorted(c.state['closed']) == ['rfile', 'socket', 'wfile'] for c in holder['clients']) and oc.value.attrs.get('closed') is True
            ctx.require(ok, 'R18.3', f'PortServer.close ({label})', ctx.where(ctx.p.lookup_method(ps, '_close')[1]),
                        f'closing the server twice closed {holder["ssock"].state["closed"]} (the listening socket must be released exactly once) and '
                        f'clients {[c.state["closed"] for c in holder["clients"]]}: {oc}', construct=f'{ps.qname}._close::release')
    for q in ai.inlined:
        ctx.functions.add(q)


def r18_5(ctx):
    ai = pm.make_interp(ctx)
    fa = ctx.fn(ctx.p.func(S, 'format_address'))
    pa = ctx.fn(ctx.p.func(S, 'parse_address'))
    w = ctx.where(fa)
    n = 0
    for host, port in (('localhost', 8080), ('', 1), ('10.0.0.7', 65535), ('my-host.example', 9080)):
        n += 1
        o1 = ai.explore(lambda: ai.call_function(fa, [host, port], {}))
        ok = len(o1) == 1 and o1[0].kind == 'return' and isinstance(o1[0].value, str)
        if ok:
            o2 = ai.explore(lambda: ai.call_function(pa, [o1[0].value], {}))
            ok = len(o2) == 1 and o2[0].kind == 'return' and (tuple(o2[0].value.items) if isinstance(o2[0].value, AList) else o2[0].value) == (host, port)
            why = f'format_address({host!r}, {port}) = {o1[0].value!r}; parse_address of it: {o2}'
        else:
            why = f'format_address({host!r}, {port}): {o1}'
        ctx.require(ok, 'R18.5', f'address({host!r}, {port})', w, why, construct=f'{fa.qname}::inverse')
        o3 = ai.explore(lambda: ai.call_function(pa, [f'{host}:{port}'], {}))
        ok = len(o3) == 1 and o3[0].kind == 'return' and (tuple(o3[0].value.items) if isinstance(o3[0].value, AList) else o3[0].value) == (host, port)
        ctx.require(ok, 'R18.5', f'parse({host}:{port})', ctx.where(pa), f'{o3}', construct=f'{pa.qname}::parse')
    for bad in ('', ':', 'host', 'a:b:c', 'host:x', 'host:0', 'host:65536', 'host:-1'):
        o = ai.explore(lambda: ai.call_function(pa, [bad], {}))
        ctx.require(bool(o) and all(x.kind == 'raise' and x.exc == 'ValueError' for x in o), 'R18.5', f'parse({bad!r})', ctx.where(pa),
                    f'an invalid address is not rejected with ValueError: {o}', construct=f'{pa.qname}::reject')
    ctx.floor('R18.5', n, 4)


def r18_unbounded(ctx):
    """Exactly the messages that arrived completely - however many are pending when the receiver gets round to them: the
    queue a socket port fills is the parser's deque, which must not be bounded (shared with C10 R10.11)."""
    from . import parsershape
    parsershape.check_parser_init(ctx, 'R18.9')


RULES = [('R18.10', r18_closed_elsewhere), ('R18.9', r18_unbounded), ('R18.8', r18_decode), ('R18.7', r18_autoreset_eof), ('R18.6', r18_live), ('R18.1', r18_1), ('R18.3', r18_3), ('R18.4', r18_4), ('R18.5', r18_5)]
